#!/usr/bin/env python3
"""Prepare one seeding job: scratch worktree of /repo + the prompt file for an independent sub-agent.

  tools/seed_spawn.py PID ROUND [N] [--extra "text"]

creates  /tmp/seedjob/PID-rROUND/{PROMPT.txt,out/}  and the worktree /tmp/seedjob/PID-rROUND/wt
(the prompt contains only the property text, nothing from /verif).
"""
import json
import os
import subprocess
import sys

VERIF = os.path.dirname(os.path.dirname(os.path.abspath(__file__)))


def main():
    args = [a for a in sys.argv[1:]]
    extra = ""
    if "--extra" in args:
        i = args.index("--extra")
        extra = "\n  " + args[i + 1]
        del args[i:i + 2]
    pid, rnd = args[0], args[1]
    n = args[2] if len(args) > 2 else "3"
    prop = None
    for line in open(os.path.join(VERIF, "properties.jsonl")):
        p = json.loads(line)
        if p["id"] == pid:
            prop = p
    job = "/tmp/seedjob/%s-r%s" % (pid, rnd)
    wt = job + "/wt"
    os.makedirs(job + "/out", exist_ok=True)
    if not os.path.exists(wt):
        subprocess.check_call(["git", "-C", "/repo", "worktree", "add", "--detach", wt, "HEAD"],
                              stdout=subprocess.DEVNULL, stderr=subprocess.DEVNULL)
    t = open(os.path.join(VERIF, "tools", "seed_prompt.txt")).read()
    anchors = prop.get("anchors")
    t = (t.replace("__WT__", wt).replace("__OUT__", job + "/out").replace("__N__", str(n)).replace("__PID__", pid)
         .replace("__TITLE__", prop["title"]).replace("__STATEMENT__", prop["statement"])
         .replace("__QUANTIFIER__", prop["quantifier"]["text"]).replace("__WHY__", prop.get("why_tests_cant", "")).replace("__ANCHORS__", json.dumps(anchors))
         .replace("__EXTRA__", extra))
    with open(job + "/PROMPT.txt", "w") as f:
        f.write(t)
    print(job + "/PROMPT.txt")


if __name__ == "__main__":
    main()
