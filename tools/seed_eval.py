#!/usr/bin/env python3
"""Evaluate one seeded property-breaking change.

  tools/seed_eval.py PID SRC_DIR SEED_ID [--checks C01,C15] [--inrepo]

SRC_DIR holds patch.diff, demo.py (and notes.txt) as written by an independent
sub-agent.  Steps (all in a scratch copy of /repo's HEAD outside /repo and /verif,
removed afterwards):
  1. demo.py on the unpatched copy must PASS (exit 0)
  2. patch applies; extensions rebuild; demo.py must FAIL (exit != 0)
  3. the repository's test-suite must still pass with the patch (167 passed)
  4. the registered quick check(s) are run against the patched tree
     (ESUTIL_VERIF_REPO=<copy>); with --inrepo the patch is instead applied to
     /repo itself (git apply), the checks run, and it is undone straight away
     (git checkout -- .)
Results go to /verif/seeded/SEED_ID/{patch.diff,demo.py,notes.txt,meta.json}.
"""
import argparse
import json
import os
import re
import shutil
import subprocess
import sys
import time

PY = "/venv/bin/python"
VERIF = os.path.dirname(os.path.dirname(os.path.abspath(__file__)))


def sh(cmd, cwd=None, env=None, timeout=3600):
    p = subprocess.run(cmd, cwd=cwd, env=env, shell=isinstance(cmd, str), stdout=subprocess.PIPE,
                       stderr=subprocess.STDOUT, timeout=timeout)
    return p.returncode, p.stdout.decode(errors="replace")


def main():
    ap = argparse.ArgumentParser()
    ap.add_argument("pid")
    ap.add_argument("src")
    ap.add_argument("seed_id")
    ap.add_argument("--checks", default=None)
    ap.add_argument("--inrepo", action="store_true")
    ap.add_argument("--tier", default="quick")
    a = ap.parse_args()
    a.src = os.path.abspath(a.src)
    checks = (a.checks or a.pid).split(",")
    patch = os.path.join(a.src, "patch.diff")
    demo = os.path.join(a.src, "demo.py")
    meta = dict(seed_id=a.seed_id, property=a.pid, checks_run=checks, tier=a.tier,
                repo_head=sh("git -C /repo rev-parse --short %s" % os.environ.get("SEED_BASE", "HEAD"))[1].strip(), when=time.strftime("%Y-%m-%d %H:%M"))
    scratch = "/var/tmp/seedeval-%s" % a.seed_id
    shutil.rmtree(scratch, ignore_errors=True)
    os.makedirs(scratch)
    try:
        rc, out = sh("git -C /repo archive %s | tar -x -C %s" % (os.environ.get("SEED_BASE", "HEAD"), scratch))
        assert rc == 0, out
        env = dict(os.environ)
        env.pop("PYTHONPATH", None)
        # unpatched build (copy the in-place .so of /repo is not safe: build)
        rc, out = sh([PY, "setup.py", "build_ext", "--inplace", "-j", "8"], cwd=scratch, env=env)
        assert rc == 0, out[-2000:]
        rc0, out0 = sh([PY, demo], cwd=scratch, env=env, timeout=900)
        meta["demo_without_patch"] = dict(exit=rc0, tail=out0[-300:])
        rc, out = sh(["git", "apply", "--whitespace=nowarn", patch], cwd=scratch)
        meta["patch_applies"] = rc == 0
        if rc != 0:
            meta["patch_error"] = out[-500:]
        touched = re.findall(r"^\+\+\+ b/(\S+)", open(patch).read(), re.M)
        meta["files_touched"] = touched
        if any(t.endswith((".c", ".cc", ".cpp", ".h", ".hpp")) for t in touched):
            rc, out = sh([PY, "setup.py", "build_ext", "--inplace", "-j", "8"], cwd=scratch, env=env)
            meta["rebuild_ok"] = rc == 0
        rc1, out1 = sh([PY, demo], cwd=scratch, env=env, timeout=900)
        meta["demo_with_patch"] = dict(exit=rc1, tail=out1[-400:])
        rc, out = sh([PY, "-m", "pytest", "-q", "-p", "no:cacheprovider", "--timeout=900", "esutil/tests"], cwd=scratch,
                     env=env, timeout=1800)
        m = re.search(r"(\d+) passed", out)
        meta["tests_with_patch"] = dict(exit=rc, passed=int(m.group(1)) if m else 0, tail=out[-200:])
        shutil.rmtree(os.path.join(scratch, "build"), ignore_errors=True)
        shutil.rmtree(os.path.join(scratch, "tmp"), ignore_errors=True)
        # run the checks
        results = {}
        if a.inrepo:
            rc, out = sh(["git", "-C", "/repo", "apply", "--whitespace=nowarn", patch])
            assert rc == 0, out
        try:
            for c in checks:
                e = dict(os.environ)
                if not a.inrepo:
                    e["ESUTIL_VERIF_REPO"] = scratch
                t0 = time.time()
                rc, out = sh([os.path.join(VERIF, "check"), c, "--tier", a.tier], cwd=VERIF, env=e, timeout=7200)
                viol = re.findall(r"^VIOLATION property=\S+ replay=(\S+)", out, re.M)
                classes = re.findall(r"^  class (x\d+ part=.*)$", out, re.M)
                results[c] = dict(exit=rc, violation_lines=len(viol), classes=classes[:8], wall_s=round(time.time() - t0, 1),
                                  first_replay=viol[0] if viol else None)
                if viol:
                    # replay twice: must fail both times (same schedule/case fails every time)
                    rr = []
                    for _ in range(2):
                        rc2, out2 = sh([os.path.join(VERIF, "check"), c, "--replay", viol[0]], cwd=VERIF, env=e)
                        rr.append(rc2)
                    results[c]["replay_exits"] = rr
        finally:
            if a.inrepo:
                sh(["git", "-C", "/repo", "checkout", "--", "."])
        meta["check_results"] = results
        meta["mode"] = "applied to /repo and undone" if a.inrepo else "scratch copy via ESUTIL_VERIF_REPO"
        valid = (rc0 == 0 and meta["patch_applies"] and rc1 != 0 and meta["tests_with_patch"]["exit"] == 0
                 and meta["tests_with_patch"]["passed"] >= 167)
        meta["valid_seed"] = valid
        meta["detected_by"] = [c for c, r in results.items() if r["exit"] == 1 and r["violation_lines"] > 0]
        dest = os.path.join(VERIF, "seeded", a.seed_id)
        os.makedirs(dest, exist_ok=True)
        for fn in ("patch.diff", "demo.py", "notes.txt"):
            if os.path.exists(os.path.join(a.src, fn)) and os.path.abspath(a.src) != os.path.abspath(dest):
                shutil.copy(os.path.join(a.src, fn), os.path.join(dest, fn))
        with open(os.path.join(dest, "meta.json"), "w") as f:
            json.dump(meta, f, indent=1)
            f.write("\n")
        print(json.dumps(dict(seed=a.seed_id, valid=valid, detected_by=meta["detected_by"],
                              demo=(rc0, rc1), tests=meta["tests_with_patch"]["passed"],
                              classes={c: r["classes"][:3] for c, r in results.items()}), indent=1))
    finally:
        shutil.rmtree(scratch, ignore_errors=True)


if __name__ == "__main__":
    main()
