#!/bin/bash
# tools/seed_round5.sh PID... : round-5 seeding jobs (2 changes each, adversarial to a strong generic checker)
for p in "$@"; do
  extra=$(python3 - "$p" <<'P'
import json,sys
idx=json.load(open('/verif/tools/seed_index.json')).get(sys.argv[1],[])
t=("Other engineers have ALREADY produced the following changes for this property; yours must be different from all of them in mechanism and code site: "
   + "; ".join("(%d) %s" % (i+1,s) for i,s in enumerate(idx)) + ".  "
   "Assume the property is guarded by a STRONG generic checker that you cannot see: it enumerates small inputs exhaustively (all short arrays over a boundary-value alphabet, all option combinations, all dtypes/byte orders/memory layouts, empty and huge inputs around 2^12/2^16/2^20 elements, numpy-scalar and flag types), compares every result with an independent reference, runs every sequence of up to 4 operations on one object / several live objects / several open files in a fresh process, re-checks earlier results and all arguments after every call, injects rejected calls, and replays clock readings and worker completion orders.  Find a change that such a checker would still plausibly MISS although it breaks the property as stated: e.g. something that depends on a numeric coincidence only specific values hit (particular magnitudes, particular lengths such as primes or multiples of a block size other than a power of two, particular positions of a value inside an array), on five or more steps, on the interplay of three things, on an entry point / keyword / sub-claim of the property that has had no change yet, or on process-level environment not listed above (environment variables, current directory, file permissions, existing stale files, locale, recursion depth, warnings filters, numpy print/err state).  It must still be a realistic edit, keep all 167 tests green, and be demonstrable by a deterministic demo.")
print(t)
P
)
  python3 /verif/tools/seed_spawn.py $p 5 2 --extra "$extra"
done
