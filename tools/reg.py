#!/usr/bin/env python3
"""tools/reg.py PID engine 'text' 'note' 'technique'  -> add/replace a check entry and regenerate MANIFEST.json"""
import json, os, subprocess, sys
HERE = os.path.dirname(os.path.abspath(__file__))
p = os.path.join(HERE, "checks.json")
d = json.load(open(p))
pid, engine, text, note, technique = sys.argv[1:6]
d[pid] = dict(engine=engine, text=text, design_ref="DESIGN.md 3 %s" % pid, note=note, technique=technique)
json.dump(d, open(p, "w"), indent=1)
subprocess.check_call([sys.executable, os.path.join(HERE, "gen_manifest.py")])
