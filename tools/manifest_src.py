ENGINES = [
    {"name": "lattice", "path": "mc/core.py", "serves_properties": [],
     "kind_free_text": "E1: exhaustive enumeration of finite input/option products on the real code, sharded over forked workers with crash isolation"},
    {"name": "histories", "path": "mc/core.py", "serves_properties": [],
     "kind_free_text": "E2: explicit-state BFS over operation histories on real objects/files (replay from fresh, undeduplicated to depth d0, then canonical-key de-duplication)"},
    {"name": "environment", "path": "mc/core.py", "serves_properties": [],
     "kind_free_text": "E3: deviation-bounded stateless exploration of environment answers (virtual clock, stub random source)"},
    {"name": "schedules", "path": "mc/core.py", "serves_properties": [],
     "kind_free_text": "E4: stateless DFS over all completion orders of a controlled process pool"},
]
NOTES = ("All checks explore the implementation itself (imported from an overlay compiled from the current /repo tree), "
         "never a separate model; see DESIGN.md.  Interpreter: /venv/bin/python.")
NOT_APPLICABLE = {}
LAT = "bounded exhaustive enumeration (explicit-state, on the implementation)"
CHECKS = {
    "C05": dict(
        engine="lattice",
        text="Every data tuple up to the length bound over a 9-value alphabet (ties, bin-edge values, constants, single elements) x every binning option x min/max limits x both entry points is run through both histogram engines and compared with a floor-based reference partition; no case in the bounded space violates the property.",
        design_ref="DESIGN.md 3 C05",
        note="Holds for the enumerated alphabet/length bounds only; float64 reference arithmetic as written in the statement; arrays longer than the bound only through the 2-symbol pattern family.",
        technique=LAT + " of data tuples x binning options x engines against a reference partition",
    ),
    "C01": dict(
        engine="lattice+histories",
        text="Every table of the bounded dtype lattice (16 kinds x 4 sub-array shapes x 2 byte orders; 1-, 2-, 3- and 16-field tables) with boundary cell values, every header of the key x value lattice, every field name of the name lattice, through every writer x reader entry point, is written and read back on the real code and compared bit-for-bit with the written table, the raw file bytes and the header (type-identical); plus all read sequences up to depth 3 on one open handle against fresh handles.",
        design_ref="DESIGN.md 3 C01",
        note="Bounded alphabets (<=16 fields, <=2 user header keys, rows<=17); files live on tmpfs; offset for header-less readers derived from file length.",
        technique=LAT + " of tables x headers x names x writer x reader, plus BFS over read histories on one handle",
    ),
    "C02": dict(
        engine="lattice+histories",
        text="For a stored 4-field table (binary and text, little/big-endian, 1..6 rows) every scalar row, every row sequence up to the length bound in 5 container types, every slice over [-n-2,n+2] x steps, every ordered column subset in 3 containers, scalar and unknown names, through 14 access styles (keyword, bracket, chained, get_subset, convenience readers with split/reduce) is read on the real code and compared with Python indexing of the in-memory table; out-of-range selections must be rejected; plus all read pairs/triples on one open handle against the oracle.",
        design_ref="DESIGN.md 3 C02",
        note="One table layout (two byte orders), rows<=6, row lists <=4 long; negative members in row lists and empty lists unconstrained; rows x columns crossed pairwise, not fully.",
        technique=LAT + " of row/column selections x access styles x delimiters against Python indexing, plus BFS over read histories",
    ),
    "C03": dict(
        engine="histories",
        text="Explicit-state BFS over all histories (depth 5 quick / 9 thorough, then canonical-key de-duplication) of create/overwrite, append-by-reopen, 7 kinds of incompatible append, open(w|r+), repeated writes and bad writes on one handle, close - each transition executed on the real sfile/recfile code by replay from a fresh file - compared after every step with a list-of-rows reference model: content = concatenation, _SIZE = total rows, creation header retained, delimiter retained, data-section length, rejected appends raise and leave the bytes unchanged; second world for the header-less Recfile path; seeded from three non-initial files.",
        design_ref="DESIGN.md 3 C03",
        note="Rows per file bounded (<=6 quick, <=12 thorough), two dtypes, delimiters {None,','} quick / {None,',',tab,space} thorough; no reads through a second handle while a write handle is open.",
        technique="explicit-state BFS over operation histories on the real file code (replay from fresh, full-state canonical key) against a reference model",
    ),
    "C04": dict(
        engine="lattice",
        text="Every table of the text dtype lattice (13 kinds x 3 shapes x 2 byte orders; 1-, 2-, 3-field and wide tables) with boundary cell values (integer extremes, floats over 600 decades, denormals, NaN, +-inf, +-0, strings with leading/embedded/trailing blanks, delimiter characters, tabs) x 6 delimiters x 5 writers x all readers is round-tripped on the real code and compared: integers/strings exact, floats to 16/7 significant digits, native byte order, names/shapes, header _DELIM/_DTYPE, input array untouched.",
        design_ref="DESIGN.md 3 C04",
        note="Tolerance 0.5*10^(e-15)+0.5ulp (f8), 0.5*10^(e-6)+0.5ulp (f4); DBL_MAX off the lattice (its 16-digit form overflows); known finding D9 recognised by an input predicate.",
        technique=LAT + " of text tables x delimiters x writer x reader against a decimal-digit tolerance oracle",
    ),
}
