ENGINES = [
    {"name": "lattice", "path": "mc/core.py", "serves_properties": [],
     "kind_free_text": "E1: exhaustive enumeration of finite input/option products on the real code, sharded over forked workers with crash isolation"},
    {"name": "histories", "path": "mc/core.py", "serves_properties": [],
     "kind_free_text": "E2: explicit-state BFS over operation histories on real objects/files (replay from fresh, undeduplicated to depth d0, then canonical-key de-duplication)"},
    {"name": "environment", "path": "mc/core.py", "serves_properties": [],
     "kind_free_text": "E3: deviation-bounded stateless exploration of environment answers (virtual clock, stub random source)"},
    {"name": "schedules", "path": "mc/core.py", "serves_properties": [],
     "kind_free_text": "E4: stateless DFS over all completion orders of a controlled process pool"},
]
NOTES = ("All checks explore the implementation itself (imported from an overlay compiled from the current /repo tree), "
         "never a separate model; see DESIGN.md.  Interpreter: /venv/bin/python.")
NOT_APPLICABLE = {}
LAT = "bounded exhaustive enumeration (explicit-state, on the implementation)"
import json, os
CHECKS = json.load(open(os.path.join(os.path.dirname(os.path.abspath(__file__)), "checks.json")))
