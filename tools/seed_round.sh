#!/bin/bash
# tools/seed_round.sh ROUND PID... : prepare seeding jobs whose prompts list the earlier seeds (to be avoided)
rnd=$1; shift
for p in "$@"; do
  extra=$(python3 - "$p" <<'P'
import json,sys
idx=json.load(open('/verif/tools/seed_index.json')).get(sys.argv[1],[])
t=("Other engineers have ALREADY produced the following changes for this property; yours must be different from all of them in mechanism and should be at different code sites / sub-claims where possible: "
   + "; ".join("(%d) %s" % (i+1,s) for i,s in enumerate(idx)) + ".  "
   "This time give preference to mechanisms that need a HISTORY or an ENVIRONMENT to manifest: state kept between calls on one object or at module/class level (caches, memoised tables keyed by too little, shared mutable defaults, scratch buffers hoisted out of a function, file cursors/offsets), state carried from one element/row to the next inside a loop, two objects or files alive at the same time, a particular order of worker completions or clock readings, particular option combinations, and unusual-but-legitimate inputs (0/negative-zero/empty/length-1/huge/tiny scale, non-contiguous or non-native memory, values exactly on a branch threshold).")
print(t)
P
)
  python3 /verif/tools/seed_spawn.py $p $rnd 3 --extra "$extra"
done
