#!/usr/bin/env python3
"""regenerate MANIFEST.json from tools/manifest_src.py (keeps it valid and consistent)"""
import json, os, sys
HERE = os.path.dirname(os.path.abspath(__file__))
sys.path.insert(0, HERE)
import manifest_src as M

props = [json.loads(l) for l in open(os.path.join(HERE, "..", "properties.jsonl"))]
ids = [p["id"] for p in props]
checks = []
for pid in ids:
    if pid not in M.CHECKS:
        continue
    c = M.CHECKS[pid]
    checks.append({
        "property_id": pid,
        "quick_cmd": "./check %s --tier quick" % pid,
        "thorough_cmd": "./check %s --tier thorough" % pid,
        "evidence_file": "evidence/%s.json" % pid,
        "replay_cmd_template": "./check %s --replay {path}" % pid,
        "engine": c["engine"],
        "level_claimed": {"category": "model_checking", "text": c["text"], "design_ref": c["design_ref"]},
        "level_note": c["note"],
        "technique": c["technique"],
    })
na = [{"property_id": pid, "reason": M.NOT_APPLICABLE.get(pid, "check not built yet in this session (work in progress); planned design in DESIGN.md section 3")}
      for pid in ids if pid not in M.CHECKS]
for e in M.ENGINES:
    e["serves_properties"] = [c["property_id"] for c in checks if e["name"] in c["engine"].split("+")]
man = {
    "version": 1,
    "setup_cmd": "./setup.sh",
    "hooks": {
        "guard": "ESUTIL_VERIF",
        "enable": "no source hooks are needed: checks import esutil from an overlay built from /repo's current tree (mc/build.py) and use seams that already exist (module attributes, rng=/dist= parameters, concurrent.futures looked up at call time)",
        "baseline_off_cmd": "cd /repo && env -u ESUTIL_VERIF /venv/bin/python -m pytest -ra -q -p no:cacheprovider --timeout=900 --continue-on-collection-errors",
        "source_commits": [],
        "add_only": True,
    },
    "engines": M.ENGINES,
    "checks": checks,
    "notes": M.NOTES,
    "not_applicable": na,
}
with open(os.path.join(HERE, "..", "MANIFEST.json"), "w") as f:
    json.dump(man, f, indent=1)
    f.write("\n")
print("claimed", len(checks), "not_applicable", len(na))
