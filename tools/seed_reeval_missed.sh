#!/bin/bash
# re-evaluate every kept seed whose meta.json lists no detecting check
cd /verif
for d in seeded/*/; do
  id=$(basename $d)
  miss=$(python3 -c "import json;m=json.load(open('$d/meta.json'));print(int(m.get('valid_seed') and not m.get('detected_by')))" 2>/dev/null)
  if [ "$miss" = "1" ]; then
    pid=${id%%-*}
    checks=$(python3 -c "import json;m=json.load(open('$d/meta.json'));print(','.join(m.get('checks_run',['$pid'])))")
    python3 tools/seed_eval.py $pid $d $id --checks $checks 2>&1 | python3 -c "
import sys,json
t=sys.stdin.read(); i=t.find('{')
try:
    d=json.loads(t[i:]); print(d['seed'],'valid',d['valid'],'detected',d['detected_by'])
except Exception: print('EVAL-PROBLEM $id', t[-600:])"
  fi
done
