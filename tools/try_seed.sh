#!/bin/bash
# tools/try_seed.sh <dir with patch.diff> <check[,check]> [tier] : run check(s) against a scratch copy of /repo HEAD + patch
d=$(readlink -f $1); checks=$2; tier=${3:-quick}
s=/var/tmp/tryseed-$$; rm -rf $s; mkdir -p $s
git -C /repo archive ${SEED_BASE:-HEAD} | tar -x -C $s
(cd $s && git apply --whitespace=nowarn $d/patch.diff) || { echo "patch does not apply"; rm -rf $s; exit 2; }
for c in ${checks//,/ }; do
  ESUTIL_VERIF_REPO=$s VERIF_EVIDENCE_DIR=/var/tmp/tryseed-evidence /verif/check $c --tier $tier 2>&1 | grep -a -E "^\[|class |VIOLATION|OK tier|KNOWN" | tail -${TAILN:-14}
done
rm -rf $s
