#!/bin/bash
# tools/seed_eval_all.sh PID ROUND [first-id-offset] : evaluate out/1..N of a seeding job; ids PID-(offset+k)
pid=$1; rnd=$2; off=${3:-0}
for d in /tmp/seedjob/$pid-r$rnd/out/*/; do
  k=$(basename $d); id=$pid-$((off+k))
  python3 /verif/tools/seed_eval.py $pid $d $id ${4:+--checks $4} 2>&1 | python3 -c "
import sys,json
t=sys.stdin.read()
i=t.find('{')
try:
    d=json.loads(t[i:]); print(d['seed'],'valid',d['valid'],'detected',d['detected_by'],'demo',d['demo'],'tests',d['tests']); print('   ',d['classes'])
except Exception as e: print('EVAL-PROBLEM', t[-1500:])
"
done
