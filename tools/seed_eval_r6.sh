#!/bin/bash
# tools/seed_eval_r6.sh : evaluate the round-6 jobs (ids PID-15, PID-16); a patch that no longer applies to /repo HEAD
# (a later fix: commit touched the same lines) is evaluated at the commit the job's worktree was made from
for p in "$@"; do
  for k in 1 2; do
    d=/tmp/seedjob/$p-r6/out/$k; id=$p-$((14+k))
    [ -f $d/patch.diff ] || continue
    base=HEAD
    git -C /repo apply --check $d/patch.diff 2>/dev/null || base=abca9ca
    SEED_BASE=$base python3 /verif/tools/seed_eval.py $p $d $id 2>&1 | python3 -c "
import sys,json
t=sys.stdin.read(); i=t.find('{')
try:
    d=json.loads(t[i:]); print(d['seed'],'base','$base','valid',d['valid'],'detected',d['detected_by'],'demo',d['demo'],'tests',d['tests']); print('   ',str(d['classes'])[:300])
except Exception as e: print('EVAL-PROBLEM $id', t[-800:])
"
  done
done
