#!/bin/bash
# tools/try_seed_pyopt.sh <dir with patch.diff> <check> : the thorough tier's `pyopt` stage (quick bounds under python -O)
# against a scratch copy of /repo HEAD + patch
d=$(readlink -f $1); c=$2
s=/var/tmp/tryseedO-$$; rm -rf $s; mkdir -p $s
git -C /repo archive ${SEED_BASE:-HEAD} | tar -x -C $s
(cd $s && git apply --whitespace=nowarn $d/patch.diff) || { echo "patch does not apply"; rm -rf $s; exit 2; }
cd /verif && ESUTIL_VERIF_REPO=$s VERIF_EVIDENCE_DIR=/var/tmp/tryseed-evidence PYTHONHASHSEED=0 /venv/bin/python -O -B mc/run.py $c --tier quick --stage pyopt 2>&1 | grep -a -E "class |VIOLATION|OK tier" | tail -${TAILN:-8}
rm -rf $s
