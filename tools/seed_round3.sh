#!/bin/bash
# tools/seed_round3.sh PID... : round-3 seeding jobs (prompts list all earlier seeds; other emphasis)
for p in "$@"; do
  extra=$(python3 - "$p" <<'P'
import json,sys
idx=json.load(open('/verif/tools/seed_index.json')).get(sys.argv[1],[])
t=("Other engineers have ALREADY produced the following changes for this property; yours must be different from all of them in mechanism and should be at different code sites / sub-claims where possible: "
   + "; ".join("(%d) %s" % (i+1,s) for i,s in enumerate(idx)) + ".  "
   "This time give preference to: (a) edits in the C/C++ sources where the property is backed by a compiled extension (integer widths and overflow, signed/unsigned, buffer sizes, loop bounds, pointer/stride arithmetic, static variables, error paths that forget to reset something); (b) ERROR PATHS: a call that legitimately raises or rejects its input leaves the object, file, handle or module in a state that makes a LATER legitimate call wrong; (c) numerical edits that are exact for ordinary values and wrong only for extreme-but-legitimate ones (huge or tiny magnitudes, values an ulp from a branch threshold, exact ties, empty or single-element inputs, maximum-width strings); (d) two cooperating edits at different sites that each look fine alone; (e) behaviour that depends on what else is alive in the process (another object, another open file, an earlier import-time side effect).  Avoid plain module-level result caches and scratch buffers - those have been done several times already.")
print(t)
P
)
  python3 /verif/tools/seed_spawn.py $p 3 3 --extra "$extra"
done
