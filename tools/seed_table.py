#!/usr/bin/env python3
"""tools/seed_table.py : regenerate the table of seeded changes in DESIGN.md (between the SEED-TABLE markers)
from seeded/*/meta.json, seeded/*/notes.txt and tools/seed_index.json (one-line descriptions)."""
import json
import os
import re

V = os.path.dirname(os.path.dirname(os.path.abspath(__file__)))


def main():
    idx = json.load(open(os.path.join(V, "tools", "seed_index.json")))
    notes = json.load(open(os.path.join(V, "tools", "seed_notes.json")))
    rows = []
    for sid in sorted(os.listdir(os.path.join(V, "seeded")), key=lambda s: (s.split("-")[0], int(s.split("-")[1]))):
        d = os.path.join(V, "seeded", sid)
        mp = os.path.join(d, "meta.json")
        if not os.path.exists(mp):
            continue
        m = json.load(open(mp))
        pid, k = sid.split("-")
        k = int(k)
        desc = ""
        lst = idx.get(pid, [])
        if k - 1 < len(lst):
            desc = lst[k - 1]
        else:
            np_ = os.path.join(d, "notes.txt")
            if os.path.exists(np_):
                for line in open(np_):
                    line = line.strip()
                    if line and not set(line) <= set("=-"):
                        desc = re.sub(r"^(CHANGE|C\d\d seed(ed change)?)\s*\d*\s*[-:(]*\s*", "", line)[:150]
                        break
        det = m.get("detected_by") or []
        parts = []
        for c in det:
            cls = (m.get("check_results", {}).get(c, {}).get("classes") or [])
            ps = sorted({re.search(r"part=([^:]+):", x).group(1) for x in cls if re.search(r"part=([^:]+):", x)})
            parts.append("%s (%s)" % (c, ", ".join(ps[:3])) if ps else c)
        first = m.get("first_detected", "")
        rows.append("| %s | %s | %s | %s | %s |" % (sid, desc.replace("|", "/"), "yes" if m.get("valid_seed") else "NO",
                                                  "; ".join(parts) if parts else "**missed**", notes.get(sid, "")))
    table = ("| seed | change (one line) | valid | detected by (parts) | note |\n|---|---|---|---|---|\n" + "\n".join(rows))
    p = os.path.join(V, "DESIGN.md")
    s = open(p).read()
    a, b = "<!-- SEED-TABLE-BEGIN -->", "<!-- SEED-TABLE-END -->"
    if a in s:
        s = s[:s.index(a) + len(a)] + "\n" + table + "\n" + s[s.index(b):]
        open(p, "w").write(s)
    nvalid = sum(1 for r in rows if "| yes |" in r)
    nmiss = sum(1 for r in rows if "**missed**" in r)
    print("seeds: %d, valid %d, missed now %d" % (len(rows), nvalid, nmiss))


if __name__ == "__main__":
    main()
