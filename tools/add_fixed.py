#!/usr/bin/env python3
"""tools/add_fixed.py PROP COMMIT DID 'what failed'  -> appends a 'fixed' entry to known_findings.json"""
import json, sys
p='/verif/known_findings.json'
d=json.load(open(p))
prop,commit,did,what=sys.argv[1:5]
d['entries'].append({"kind":"fixed","property":prop,"commit":commit,"design_id":did,"line":"fixed: property=%s %s %s"%(prop,commit,what)})
json.dump(d,open(p,'w'),indent=1,ensure_ascii=False)
