#!/bin/bash
# tools/seed_round4.sh PID... : round-4 seeding jobs
for p in "$@"; do
  extra=$(python3 - "$p" <<'P'
import json,sys
idx=json.load(open('/verif/tools/seed_index.json')).get(sys.argv[1],[])
t=("Other engineers have ALREADY produced the following changes for this property; yours must be different from all of them in mechanism and should be at different code sites / sub-claims where possible: "
   + "; ".join("(%d) %s" % (i+1,s) for i,s in enumerate(idx)) + ".  "
   "Earlier rounds have covered module-level caches and scratch buffers, dropped copies, memory layouts, option combinations, error paths and boundary values quite thoroughly, so look for what is LEFT: (a) sub-claims and entry points of the property that none of the earlier changes touched (read the property statement clause by clause and the anchored code for functions/branches/keywords not mentioned above); (b) interactions: a change in a shared helper used by this property's code that is harmless for every other caller; a change that needs TWO different functions/classes of the property to be used together on the same data; (c) longer histories: something that only goes wrong at the third or fourth operation, or when operations of different kinds alternate; (d) inputs at documented limits or of unusual-but-legal TYPE (numpy scalar types, 0-d arrays, bool, Python int beyond 2**63, str vs bytes, pathlib paths, memory-mapped or read-only arrays, masked or subclassed arrays, empty inputs) where the property statement allows them; (e) data-dependent control flow in loops (early exits, tie handling, stable vs unstable order, counters that wrap).  The change must still pass all 167 tests and must NOT be visible in ordinary one-call use.")
print(t)
P
)
  python3 /verif/tools/seed_spawn.py $p 4 3 --extra "$extra"
done
