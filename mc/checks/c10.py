"""C10 - WCS pixel-to-sky matches the FITS convention, sky-to-pixel inverts it,
no dependence on earlier conversions (E1 + E2)."""
import itertools

import numpy as np

from mc.oracle import wcsref as W
from mc.util import fingerprint

RULE = (
    "header lattice: projection {TAN, TPV (DECam PV set), TPV0 (no constant PV terms), TPVS (PV set x0.3), "
    "TANPV (old scamp '-TAN' spelling with PV keys), SIP order 2, 3 and 4 (fourth-order coefficients below 2.2e-16), SIP with A_ORDER != B_ORDER (2/3 and 3/2)} x CRVAL {7 points incl. both poles, "
    "near-pole, RA seam} x CD {4 scale/rotation/flip combinations} x CRPIX {centre, corner, far outside}; "
    "pixels = 4x4 (thorough 5x5) grid over the image + CRPIX + 2 seeded points; forms scalar/array/int-array.  "
    "Parts: forward (vs long-double FITS reference, CRPIX->CRVAL, lon range, distort=False, scalar==array, "
    "jacobian), inverse without root finding, inverse with root finding (fixed point lattice; and caller tolerance xtol in {1e-8 .. 1e-15, 0} x 5x5 image grid x array/scalar call), and histories "
    "(all sequences of <=3 (4) calls of image2sky / sky2image(find,distort) / get_jacobian on one object, "
    "from a fresh and from an already-fitted object, each result compared with the same call on a fresh "
    "object); several-objects: all histories (<=4 (5) events) of a world of up to 3 live WCS objects of kinds "
    "{TAN, TPV, rescaled TPV, SIP} - build another object / image2sky / sky2image(find=False) on any live "
    "object - each history run in a pristine forked process, results compared with the FITS reference and "
    "with the same call as the only call of a process (state leaking between objects through module-level "
    "data).  non-trivial = header has a distortion model, a polar/seam reference point or an off-image CRPIX."
)
ASSUMPTIONS = [
    "reference: FITS-WCS paper II gnomonic de-projection + TPV polynomial (PV1_3/PV2_3 radial terms absent) + SIP, evaluated in long double",
    "find=False with a distortion model: 'fitted-polynomial accuracy' is made concrete as 3 x the max residual of an independently computed best least-squares inverse polynomial of total degree (forward order+1) over the image, + 2e-4 px (measured ratio implementation/best-fit: 1.00-1.07 for on-image CRPIX; for a 0.05\"/px image 10^4 px off-axis the implementation's normal-equation solve adds up to 8e-5 px of conditioning noise, hence the absolute floor); only pixels inside the image are used ('over the whole image')",
    "scalar and array results are required to agree to 1e-12 degree / 1e-9 pixel",
    "jacobian compared with the central difference of the reference to 1e-6 arcsec/pixel (+1e-9 relative)",
    "sky2image(find=True, distort=False) on a distorted header is only checked for history independence (find wins over distort in the implementation; the statement does not define that combination)",
    "root-finding inputs are a fixed lattice, not seed-rotated",
    "xtol= of sky2image: only the default value and tighter ones are checked against the 1e-6 px promise (a looser tolerance is a request for less; the statement does not say what it then promises)",
    "SIP headers carry AP_ORDER/BP_ORDER (this implementation requires them)",
    "SIP headers with A_ORDER != B_ORDER: the 'fitted-polynomial accuracy' bound of find=False uses an independent inverse fit of degree min(A_ORDER,B_ORDER)+1 (the implementation sizes both inverse polynomials from the A matrix; the statement does not say which degree is meant)",
]

PROJS = ["TAN", "TPV", "TPV0", "TPVS", "TANPV", "SIP2", "SIP3", "SIP4", "SIP23", "SIP32"]
VARIANT_PROJS = ["SIP2+A0", "SIP3+B0", "SIP23+A0", "TPV+X0", "TPV+Y0", "TAN+Z", "TPV+Z", "SIP3+Z"]
CRVALS = [(10.0, 20.0), (0.0, 0.0), (1e-4, -57.0), (359.9999, 89.99), (123.0, 90.0), (45.0, -90.0), (180.0, -89.999)]
CDS = [(0.27, 30.0, False), (0.05, 200.0, True), (2.0, 90.0, False), (0.27, 0.0, True)]
CRPIXS = [(1024.0, 2048.0), (1.0, 1.0), (-4617.7, -8609.6)]


def header_list(quick):
    out = []
    for proj in PROJS:
        for crval in CRVALS:
            for cd in CDS:
                for crpix in CRPIXS:
                    if proj != "TAN" and crpix[0] < 0 and cd[0] > 1:
                        continue   # 2"/px x 10^4 px off-axis: the cubic PV/SIP terms are unrealistic there
                    out.append((proj, crval, cd, crpix))
    # header variants (mc/oracle/wcsref.py make_header): one polynomial / PV set written out as zeros / identity, and
    # tile-compressed image headers carrying NAXISn of the compressed table next to ZNAXISn of the image
    for proj in VARIANT_PROJS:
        for crval in CRVALS[:1] + CRVALS[3:4]:
            for cd in CDS[:2]:
                out.append((proj, crval, cd, CRPIXS[0]))
    return out


def pixel_grid(n, crpix, seed):
    gx = np.linspace(1, W.NAX[0], n)
    gy = np.linspace(1, W.NAX[1], n)
    GX, GY = [a.ravel() for a in np.meshgrid(gx, gy)]
    rs = np.random.RandomState(1000 + seed)
    sx = rs.uniform(1, W.NAX[0], 2)
    sy = rs.uniform(1, W.NAX[1], 2)
    X = np.concatenate([GX, [crpix[0]], sx])
    Y = np.concatenate([GY, [crpix[1]], sy])
    return X, Y


def kf_d26(part, case):
    """known finding D26: distortion present, find=True, target latitude exactly +-90 degrees"""
    if part not in ("inverse-find", "inverse-find-array"):
        return False
    (proj, crval, cd, crpix), pt = case
    if len(pt) != 2 or not all(isinstance(v, float) for v in pt):
        return False        # (header, order) cases of the array part: elements off the pole, never the known finding
    h = W.make_header(proj, crval, cd[0], cd[1], cd[2], crpix)
    if not W.has_distortion(h):
        return False
    x, y = pt
    lon, lat = W.forward(h, [x], [y])
    return abs(float(lat[0])) == 90.0


def main(ctx):
    from esutil.wcsutil import WCS

    def mk(hd):
        proj, crval, cd, crpix = hd
        return W.make_header(proj, crval, cd[0], cd[1], cd[2], crpix)

    def nontriv(hd):
        proj, crval, cd, crpix = hd
        return proj != "TAN" or abs(crval[1]) > 89 or crval[0] < 1 or crval[0] > 359 or crpix[0] < 0

    # ---------------------------------------------------------------- forward
    ngrid = ctx.pick(4, 5)

    def one_forward(hd, rec):
        h = mk(hd)
        proj, crval, cd, crpix = hd
        try:
            w = WCS(dict(h))
        except Exception as e:
            return rec.fail(hd, "WCS(header) raised %s: %s" % (type(e).__name__, e))
        X, Y = pixel_grid(ngrid, crpix, ctx.seed)
        calls = 0
        try:
            ra, dec = w.image2sky(X.copy(), Y.copy())
            calls += 1
            rr, dd = W.forward(h, X, Y)
            if not (np.all(np.isfinite(ra)) and np.all(np.isfinite(dec))):
                return rec.fail(hd, "image2sky returned non-finite values")
            e = W.sep(ra, dec, rr, dd).max()
            if e > 1e-9:
                return rec.fail(hd, "image2sky differs from the FITS reference by %.3g deg (> 1e-9)" % e)
            if ra.min() < 0 or ra.max() >= 360:
                return rec.fail(hd, "longitude outside [0,360): min %r max %r" % (ra.min(), ra.max()))
            if abs(dec).max() > 90:
                return rec.fail(hd, "latitude outside [-90,90]")
            # reference pixel -> reference position (no constant distortion terms)
            if proj.split("+")[0] not in ("TPV", "TPVS", "TANPV"):
                r0, d0 = w.image2sky(crpix[0], crpix[1])
                calls += 1
                e = float(W.sep(r0, d0, crval[0], crval[1]))
                if e > 1e-9:
                    return rec.fail(hd, "CRPIX maps to (%r,%r), %.3g deg from CRVAL" % (r0, d0, e))
                if not (0 <= float(r0) < 360):
                    return rec.fail(hd, "CRPIX longitude %r outside [0,360)" % (r0,))
            # distort=False
            ra2, dec2 = w.image2sky(X.copy(), Y.copy(), distort=False)
            calls += 1
            rr2, dd2 = W.forward(h, X, Y, distort=False)
            e = W.sep(ra2, dec2, rr2, dd2).max()
            if e > 1e-9:
                return rec.fail(hd, "image2sky(distort=False) differs from the undistorted reference by %.3g deg" % e)
            # scalar / int-array forms
            for i in (0, len(X) // 2, len(X) - 3):
                s = w.image2sky(float(X[i]), float(Y[i]))
                calls += 1
                if abs(float(s[0]) - ra[i]) > 1e-12 and abs(abs(float(s[0]) - ra[i]) - 360) > 1e-12 \
                        or abs(float(s[1]) - dec[i]) > 1e-12:
                    return rec.fail(hd, "scalar call differs from array element: %r vs %r" % (s, (ra[i], dec[i])))
            xi = np.array([1, 1024, 2048], dtype="i8")
            yi = np.array([4096, 2048, 1], dtype="i4")
            ri, di = w.image2sky(xi, yi)
            calls += 1
            rri, ddi = W.forward(h, xi, yi)
            if W.sep(ri, di, rri, ddi).max() > 1e-9:
                return rec.fail(hd, "integer-array input differs from the reference")
            if xi.dtype != np.dtype("i8") or xi.tolist() != [1, 1024, 2048]:
                return rec.fail(hd, "integer input array was modified")
            # jacobian
            jx, jy = X[:6].copy(), Y[:6].copy()
            J = w.get_jacobian(jx, jy)
            calls += 1
            JR = W.jacobian(h, jx, jy)
            for a, b, nm in zip(J, JR, ("dra_dx", "dra_dy", "ddec_dx", "ddec_dy")):
                if np.abs(np.asarray(a) - b).max() > 1e-6 + 1e-9 * np.abs(b).max():
                    return rec.fail(hd, "jacobian %s differs from the central difference of the reference: %r vs %r"
                                    % (nm, np.asarray(a).tolist(), b.tolist()))
        except Exception as e:
            import traceback
            tb = traceback.extract_tb(e.__traceback__)[-1]
            return rec.fail(hd, "raised %s: %s [at %s:%d]" % (type(e).__name__, e, tb.filename.split("/")[-1], tb.lineno))
        rec.ok(hd, outcome="forward:%s" % proj, nontrivial=nontriv(hd), calls=calls)

    headers = header_list(ctx.quick)
    ctx.lattice("forward", headers, one_forward, fpstrict=True,
                bounds=dict(headers=len(headers), projections=PROJS, crvals=CRVALS, cds=CDS, crpix=CRPIXS,
                            pixels_per_header=ngrid * ngrid + 3))

    # ------------------------------------------------- inverse, no root finding
    def one_nofind(hd, rec):
        h = mk(hd)
        proj, crval, cd, crpix = hd
        w = WCS(dict(h))
        X, Y = pixel_grid(ngrid, crpix, ctx.seed)
        calls = 0
        try:
            # undistorted pair: exact
            rr2, dd2 = W.forward(h, X, Y, distort=False)
            xb, yb = w.sky2image(rr2.astype("f8"), dd2.astype("f8"), find=False, distort=False)
            calls += 1
            e = max(np.abs(xb - X).max(), np.abs(yb - Y).max())
            if not np.isfinite(e) or e > 1e-6:
                return rec.fail(hd, "sky2image(find=False, distort=False) misses the undistorted reference pixel by %.3g px" % e)
            if W.has_distortion(h):
                # "over the whole image": only pixels inside the image (CRPIX may be far outside)
                inimg = (X >= 1) & (X <= W.NAX[0]) & (Y >= 1) & (Y <= W.NAX[1])
                XI, YI = X[inimg], Y[inimg]
                rr, dd = W.forward(h, XI, YI)
                xb, yb = w.sky2image(rr.astype("f8"), dd.astype("f8"), find=False)
                calls += 1
                e = max(np.abs(xb - XI).max(), np.abs(yb - YI).max())
                rfit = W.inverse_fit_residual(h)
                bound = 3.0 * rfit + 2e-4
                if not np.isfinite(e) or e > bound:
                    return rec.fail(hd, "sky2image(find=False) error %.3g px > 3 x %.3g px (residual of an independent "
                                        "best-fit inverse polynomial of the same degree) + 2e-4" % (e, rfit))
            else:
                # no distortion: find=True/False, distort=True/False all the same exact inverse
                rr, dd = rr2, dd2
                for kw in (dict(), dict(find=False), dict(distort=False)):
                    xb, yb = w.sky2image(rr.astype("f8"), dd.astype("f8"), **kw)
                    calls += 1
                    e = max(np.abs(xb - X).max(), np.abs(yb - Y).max())
                    if not np.isfinite(e) or e > 1e-6:
                        return rec.fail(hd, "sky2image(%r) on an undistorted header misses by %.3g px" % (kw, e))
            # scalar form
            s = w.sky2image(float(rr[1]), float(dd[1]), find=False)
            calls += 1
            a = w.sky2image(rr[1:2].astype("f8"), dd[1:2].astype("f8"), find=False)
            calls += 1
            if abs(float(s[0]) - float(a[0][0])) > 1e-9 or abs(float(s[1]) - float(a[1][0])) > 1e-9:
                return rec.fail(hd, "scalar sky2image differs from the array call: %r vs %r" % (s, a))
        except Exception as e:
            import traceback
            tb = traceback.extract_tb(e.__traceback__)[-1]
            return rec.fail(hd, "raised %s: %s [at %s:%d]" % (type(e).__name__, e, tb.filename.split("/")[-1], tb.lineno))
        rec.ok(hd, outcome="nofind:%s" % proj, nontrivial=nontriv(hd), calls=calls)

    ctx.lattice("inverse-nofind", headers, one_nofind, wstrict=True, bounds=dict(headers=len(headers)))

    # ------------------------------------------------- inverse with root finding
    FPTS = [(1.0, 1.0), (2048.0, 4096.0), (1024.0, 2048.0), (700.25, 3100.5), (2048.0, 1.0), (1.0, 4096.0),
            (1500.0, 900.0), (333.0, 2222.0)]

    def one_find(case, rec):
        hd, pt = case
        h = mk(hd)
        proj = hd[0]
        w = WCS(dict(h))
        x, y = pt
        rr, dd = W.forward(h, [x], [y])
        lon, lat = float(rr[0]), float(dd[0])
        try:
            xb, yb = w.sky2image(lon, lat)
        except Exception as e:
            return rec.fail(case, "sky2image raised %s: %s" % (type(e).__name__, e))
        e = max(abs(float(xb) - x), abs(float(yb) - y))
        if not np.isfinite(e) or e > 1e-6:
            return rec.fail(case, "sky2image(find=True) misses the pixel by %.3g px (> 1e-6): got (%r,%r)" % (e, xb, yb))
        rec.ok(case, outcome="find:%s" % proj, nontrivial=nontriv(hd), calls=1)

    dist_headers = [hd for hd in headers if hd[0].split("+")[0] != "TAN"]
    if ctx.quick:
        # 3 headers per projection, spread over CRVAL/CD/CRPIX by striding
        sel = []
        for proj in PROJS[1:]:
            hs = [hd for hd in dist_headers if hd[0] == proj]
            sel += [hs[i] for i in (0, len(hs) // 3 + 1, 2 * len(hs) // 3 + 2, len(hs) - 1)]
        npts = 4
    else:
        sel = dist_headers
        npts = 6
    funits = []
    for hd in sel:
        pts = FPTS[:npts] + [tuple(hd[3])]
        for pt in pts:
            funits.append((hd, pt))
    ctx.lattice("inverse-find", funits, one_find, bounds=dict(headers=len(sel), points_per_header=npts + 1))

    # array input to the root finder: the elements are solved one after the other, so anything carried from one
    # element to the next (a warm start from the previous solution, a reused scratch buffer) shows up only for
    # particular NEIGHBOURS.  Every ordered pair and a few longer orders of the fixed points, far apart and on
    # opposite sides of the reference point (which is next to a pole for some headers), as ONE array call.
    def one_find_array(case, rec):
        hd, order = case
        h = mk(hd)
        w = WCS(dict(h))
        pts = [FPTS[i] for i in order]
        X = np.array([p[0] for p in pts])
        Y = np.array([p[1] for p in pts])
        rr, dd = W.forward(h, X, Y)
        try:
            xb, yb = w.sky2image(np.asarray(rr, dtype="f8"), np.asarray(dd, dtype="f8"))
        except Exception as e:
            return rec.fail(case, "sky2image(array) raised %s: %s" % (type(e).__name__, e))
        e = np.maximum(np.abs(np.asarray(xb) - X), np.abs(np.asarray(yb) - Y))
        e = np.where(np.isfinite(e), e, np.inf)
        # elements whose target latitude is exactly +-90 on a distorted header are the known finding D26: they are
        # reported under their own (header, pixel) case so that the input predicate applies to them only
        pole = (np.abs(np.asarray(dd, dtype="f8")) == 90.0) & W.has_distortion(h)
        for j in np.nonzero(pole & (e > 1e-6))[0]:
            rec.fail((hd, (float(X[j]), float(Y[j]))), "sky2image(find=True) on an array: the element at the pole misses its "
                                                       "pixel by %.3g px" % e[j])
        bad = np.nonzero(~pole & (e > 1e-6))[0]
        if bad.size:
            j = int(bad[np.argmax(e[bad])])
            return rec.fail(case, "sky2image(find=True) on an array: element %d misses its pixel by %.3g px (> 1e-6): got (%r,%r) "
                                  "for (%r,%r)" % (j, e[j], float(np.asarray(xb)[j]), float(np.asarray(yb)[j]), float(X[j]), float(Y[j])))
        rec.ok(case, outcome="find-array:%s/len%d" % (hd[0], len(order)), nontrivial=True, calls=1)

    asel = sel
    orders = [(i, j) for i in range(6) for j in range(6) if i != j] + [(0, 1, 2, 3, 4, 5), (5, 4, 3, 2, 1, 0), (0, 1, 0, 1), (2, 2, 1)]
    aunits = [(hd, o) for hd in (asel if not ctx.quick else asel[::2]) for o in (orders if not ctx.quick else orders[::3] + orders[-4:])]
    ctx.lattice("inverse-find-array", aunits, one_find_array, bounds=dict(headers=len(asel), orders=len(orders)))

    # the caller's tolerance: xtol= is a documented keyword of sky2image.  A caller who asks for the default precision or
    # for more must still get the pixel to 1e-6; the tighter the request the more often the root finder stops with a
    # status other than "converged" (no progress / tolerance too small) although it sits on the root - a different exit
    # path of the solver for a numerically coincidental subset of targets, hence a grid of targets over the whole image
    # for every header and every tolerance from the default down to 0 (= "as far as it goes"), array and scalar calls.
    XTOLS = [1e-8, 1e-9, 1e-10, 1e-11, 1e-12, 1e-13, 1e-14, 1e-15, 0.0]
    XGRID = [(float(a), float(b)) for a in np.linspace(1, W.NAX[0], 5) for b in np.linspace(1, W.NAX[1], 5)]

    def one_find_xtol(case, rec):
        import warnings
        hd, xtol, form = case
        h = mk(hd)
        w = WCS(dict(h))
        pts = XGRID + [(700.25, 3100.5), (256.875, 1.0)]
        X = np.array([p[0] for p in pts])
        Y = np.array([p[1] for p in pts])
        rr, dd = W.forward(h, X, Y)
        rr = np.asarray(rr, dtype="f8")
        dd = np.asarray(dd, dtype="f8")
        try:
            with warnings.catch_warnings():
                warnings.simplefilter("ignore")      # the solver's "not making good progress" notice is legitimate here
                if form == "array":
                    xb, yb = w.sky2image(rr.copy(), dd.copy(), xtol=xtol)
                    calls = 1
                else:
                    got = [w.sky2image(float(a), float(b), xtol=xtol) for a, b in zip(rr, dd)]
                    xb = [float(g[0]) for g in got]
                    yb = [float(g[1]) for g in got]
                    calls = len(got)
        except Exception as e:
            return rec.fail(case, "sky2image(xtol=%r) raised %s: %s" % (xtol, type(e).__name__, e))
        xb = np.asarray(xb, dtype="f8")
        yb = np.asarray(yb, dtype="f8")
        if xb.shape != X.shape or yb.shape != Y.shape:
            return rec.fail(case, "sky2image(xtol=%r) returns shapes %r/%r for %d targets" % (xtol, xb.shape, yb.shape, len(X)))
        e = np.maximum(np.abs(xb - X), np.abs(yb - Y))
        e = np.where(np.isfinite(e), e, np.inf)
        if e.max() > 1e-6:
            j = int(np.argmax(e))
            return rec.fail(case, "sky2image(find=True, xtol=%r) [%s call]: %d of %d targets miss their pixel by more than 1e-6 px; worst "
                                  "%.3g px: got (%r,%r) for (%r,%r)" % (xtol, form, int((e > 1e-6).sum()), len(X), e[j], float(xb[j]),
                                                                       float(yb[j]), float(X[j]), float(Y[j])))
        rec.ok(case, outcome="find-xtol:%s/%g/%s" % (hd[0], xtol, form), nontrivial=True, calls=calls)

    xsel = sel if ctx.quick else dist_headers[::2]
    # quick: the scalar form (one call per target, same solver path) only for every fourth header
    xunits = [(hd, xt, form) for k, hd in enumerate(xsel) for xt in XTOLS for form in ("array", "scalar")
              if form == "array" or not ctx.quick or k % 4 == 0]
    ctx.lattice("inverse-find-xtol", xunits, one_find_xtol,
                bounds=dict(headers=len(xsel), xtols=XTOLS, targets_per_call=len(XGRID) + 2, forms=["array", "scalar"]))

    # targets around a celestial pole that lies INSIDE the image (reference point 0.01 / 0.001 / 0 degrees from it), on all
    # meridians - in particular beyond the pole, on and next to the meridian opposite CRVAL1, where a longitude
    # difference can jump by 360 degrees.  The pixel truth is not needed: the reference forward transformation of the
    # returned pixel must land on the target within 1e-6 px (in degrees: 1e-6 x the pixel scale).
    def tan_pixel(h, lon, lat):
        """undistorted gnomonic inverse (closed form), good to a few pixels: only to decide 'inside the image'"""
        a0, d0 = np.deg2rad(h["crval1"]), np.deg2rad(h["crval2"])
        a, d = np.deg2rad(lon), np.deg2rad(lat)
        cosc = np.sin(d0) * np.sin(d) + np.cos(d0) * np.cos(d) * np.cos(a - a0)
        xi = np.rad2deg(np.cos(d) * np.sin(a - a0) / cosc)
        eta = np.rad2deg((np.cos(d0) * np.sin(d) - np.sin(d0) * np.cos(d) * np.cos(a - a0)) / cosc)
        cd = np.array([[h["cd1_1"], h["cd1_2"]], [h["cd2_1"], h["cd2_2"]]])
        u, v = np.linalg.solve(cd, np.array([xi, eta]))
        return h["crpix1"] + u, h["crpix2"] + v

    def one_polar(case, rec):
        hd, dl, colat = case
        h = mk(hd)
        sgn = 1.0 if hd[1][1] > 0 else -1.0
        lon = (hd[1][0] + dl) % 360.0
        lat = sgn * (90.0 - colat)
        xa, ya = tan_pixel(h, lon, lat)
        if not (200 <= xa <= W.NAX[0] - 200 and 200 <= ya <= W.NAX[1] - 200):
            return                                  # target not (safely) on the image: the linear PV terms shift it by ~100 px
        w = WCS(dict(h))
        try:
            xb, yb = w.sky2image(lon, lat)
        except Exception as e:
            return rec.fail(case, "sky2image raised %s: %s" % (type(e).__name__, e))
        xb, yb = float(xb), float(yb)
        if not (np.isfinite(xb) and np.isfinite(yb)):
            return rec.fail(case, "sky2image(find=True) of (%r,%r) near the pole returns (%r,%r)" % (lon, lat, xb, yb))
        rr, dd = W.forward(h, [xb], [yb])
        e = float(W.sep(rr, dd, lon, lat)[0])
        pixdeg = float(np.sqrt(abs(h["cd1_1"] * h["cd2_2"] - h["cd1_2"] * h["cd2_1"])))
        if e > 1.0e-6 * pixdeg:
            return rec.fail(case, "sky2image(find=True) of (%r,%r) near the pole: the reference maps the returned pixel %.3g px "
                                  "away from the target (> 1e-6)" % (lon, lat, e / pixdeg))
        rec.ok(case, outcome="polar:%s/dl=%g" % (hd[0], dl), nontrivial=True, calls=1)

    pol_headers = [hd for hd in headers if hd[0] != "TAN" and "+" not in hd[0] and abs(hd[1][1]) >= 89.9 and hd[3] == (1024.0, 2048.0)]
    if ctx.quick:
        pol_headers = [hd for hd in pol_headers if hd[0] in ("TPV", "SIP3", "TPV0")]
    punits = [(hd, dl, c) for hd in pol_headers for dl in (0.0, 90.0, 179.0, 179.9, 180.0, 180.1, 181.0, 270.0)
              for c in (5e-4, 2e-3, 1e-2, 3e-2)]
    ctx.lattice("inverse-find-polar", punits, one_polar, bounds=dict(headers=len(pol_headers), meridians=8, colatitudes=4))

    # -------------------------------------------------------------- histories
    P = ((100.5, 900.0), (200.25, 1100.0))
    OPS = (("i2s", True), ("i2s", False), ("s2i", True, True), ("s2i", False, True), ("s2i", False, False),
           ("s2i", True, False), ("jac",),
           # calls that are rejected (longitude/latitude arrays of different length; 2-d input to the root finder):
           # whatever they raise, the object must serve the next call as if nothing had happened
           ("bad", "lengths"), ("bad", "2d"))

    def do(w, op, sky):
        px = np.array(P[0])
        py = np.array(P[1])
        if op[0] == "i2s":
            return w.image2sky(px, py, distort=op[1])
        if op[0] == "s2i":
            return w.sky2image(sky[0].copy(), sky[1].copy(), find=op[1], distort=op[2])
        if op[0] == "bad":
            if op[1] == "lengths":
                return w.sky2image(np.array([sky[0][0], sky[0][1], sky[0][0]]), sky[1].copy())
            return w.sky2image(np.array([[sky[0][0], sky[0][1]]]), np.array([[sky[1][0], sky[1][1]]]))
        return w.get_jacobian(px, py)

    HH = {
        "tpv": dict(W.DECAM),
        "sip": W.make_header("SIP2", (10.0, 20.0), 0.27, 30.0, False, (500.0, 600.0)),
        "tan": W.make_header("TAN", (359.9999, 89.99), 0.27, 30.0, False, (1024.0, 2048.0)),
        "sip-pole": W.make_header("SIP3", (123.0, 90.0), 0.05, 200.0, True, (1.0, 1.0)),
    }
    fresh_cache = {}

    def fresh(hname, op):
        k = (hname, op)
        if k not in fresh_cache:
            h = HH[hname]
            sky = [np.asarray(v, dtype="f8") for v in W.forward(h, P[0], P[1])]
            try:
                fresh_cache[k] = ("ok", do(WCS(dict(h)), op, sky))
            except Exception as e:
                fresh_cache[k] = ("exc", type(e).__name__)
        return fresh_cache[k]

    def make_execute(hname):
        def execute(hist, rec):
            h = HH[hname]
            sky = [np.asarray(v, dtype="f8") for v in W.forward(h, P[0], P[1])]
            w = WCS(dict(h))
            last = None
            for op in hist:
                try:
                    last = ("ok", do(w, op, sky))
                except Exception as e:
                    last = ("exc", type(e).__name__)
            if hist:
                f = fresh(hname, hist[-1])
                if last[0] != f[0]:
                    rec.fail(hist, "after %r the call %r gives %r but on a fresh object %r"
                             % (hist[:-1], hist[-1], last, f))
                    return None
                if last[0] == "ok":
                    for a, b in zip(last[1], f[1]):
                        a = np.asarray(a, dtype="f8")
                        b = np.asarray(b, dtype="f8")
                        if a.shape != b.shape or not np.all(np.abs(a - b) <= 1e-12 * np.maximum(1.0, np.abs(b))):
                            rec.fail(hist, "result of %r depends on the earlier calls %r: %r vs fresh %r"
                                     % (hist[-1], hist[:-1], a.tolist(), b.tolist()))
                            return None
            key = fingerprint(w.__dict__)
            return key, OPS
        return execute

    depth = ctx.pick(3, 4)
    names = ctx.pick(["tpv", "sip", "tan"], ["tpv", "sip", "tan", "sip-pole"])
    for hname in names:
        roots = [(), (("s2i", False, True),)]
        ctx.histories("histories(%s)" % hname, roots, make_execute(hname), depth=depth,
                      nodedup_depth=ctx.pick(3, 3), bounds=dict(ops=[str(o) for o in OPS], depth=depth))

    # ------------------------------------------- several live objects (process-wide state)
    # World = up to 3 WCS objects alive in ONE process (mc/worlds.py): ("new", kind) builds another object,
    # ("i2s", k) / ("s2i", k) convert with object k (s2i without root finding: it fits the lazy inverse).
    from mc.worlds import object_world
    KINDS = {
        "tan": W.make_header("TAN", (359.9999, 89.99), 0.27, 30.0, False, (1024.0, 2048.0)),
        "tan2": W.make_header("TAN", (10.0, 20.0), 0.05, 200.0, True, (1.0, 1.0)),
        "tpv": dict(W.DECAM),
        "tpvs": W.make_header("TPVS", (10.0, 20.0), 0.27, 30.0, False, (1024.0, 2048.0)),
        "sip": W.make_header("SIP2", (10.0, 20.0), 0.27, 30.0, False, (500.0, 600.0)),
    }
    kinds = ctx.pick(["tan", "tpv", "tpvs", "sip"], ["tan", "tan2", "tpv", "tpvs", "sip"])

    def w_do(w, kind, op):
        px, py = np.array(P[0]), np.array(P[1])
        if op[0] == "naxis":
            return [w.get_naxis()]
        if op[0] == "i2s":
            return [np.asarray(v, dtype="f8") for v in w.image2sky(px, py)]
        sky = [np.asarray(v, dtype="f8") for v in W.forward(KINDS[kind], P[0], P[1])]
        return [np.asarray(v, dtype="f8") for v in w.sky2image(sky[0], sky[1], find=False)]

    def w_check(kind, op, res):
        if op[0] == "i2s":
            rr, dd = W.forward(KINDS[kind], P[0], P[1])
            e = float(W.sep(res[0], res[1], rr, dd).max())
            if not np.isfinite(e) or e > 1e-9:
                return "image2sky differs from the FITS reference by %.3g deg" % e

    def w_modules():
        import esutil.wcsutil as wm
        return [wm]

    object_world(ctx, "several-objects", kinds, lambda kind: WCS(dict(KINDS[kind])), [("i2s",), ("s2i",), ("naxis",)], w_do,
                 w_modules, depth=ctx.pick(4, 5), check=w_check, result_edits=True)

    # ------------------------------------------------ long arrays through the vectorised conversions (mc/longarr.py)
    from mc.longarr import tiled_elementwise, PERIOD, marks
    LW = {k: WCS(dict(KINDS[k])) for k in ("tan", "tpv", "sip")}

    def pix_base():
        t = np.arange(PERIOD, dtype="f8")
        return 10.0 + 19.5 * t, 4000.0 - 17.25 * t

    def make_sky_base(w):
        def f():
            x, y = pix_base()
            lon, lat = w.image2sky(x, y)
            return np.asarray(lon, dtype="f8"), np.asarray(lat, dtype="f8")
        return f

    wspecs = {}
    for k, w in LW.items():
        wspecs["%s.image2sky" % k] = (pix_base, (lambda x, y, w=w: w.image2sky(x, y)))
        wspecs["%s.sky2image(find=False)" % k] = (make_sky_base(w), (lambda lon, lat, w=w: w.sky2image(lon, lat, find=False)))
    tiled_elementwise(ctx, "long-arrays", wspecs, marks(ctx), small=lambda l: not ((not ctx.quick) and l.startswith("tan")) , small_marks=marks(ctx, small=True), harvest=([__import__("esutil.wcsutil", fromlist=["x"])], []))
