"""C04 - delimited-text record files round-trip values and structure (E1)."""
import decimal
import itertools
import os

import numpy as np

from mc.oracle import table as T

RULE = (
    "full product: every 1-field table over {i1..u8,f4,f8,S1,S3,S12} x {scalar,(3,),(2,2)} x {<,>}, every "
    "ordered 2-field table over a 12-variant sub-alphabet (number-after-string, string-after-number, "
    "string-after-string ... all occur), 3-field tables and one wide table; rows {1,3}; 6 delimiters; "
    "cell values cycle through per-type boundary lists (integer extremes, floats over 600 decades, "
    "denormals, NaN, +-inf, +-0, strings that are empty / full width / lead, embed or trail spaces / "
    "contain the delimiter or a tab / 'END'); every writer x reader entry point incl. header-less "
    "Recfile with and without nrows.  non-trivial = a big-endian field, a sub-array, a string with "
    "white space or the delimiter in it, or a non-finite float."
)
ASSUMPTIONS = [
    "f8 tolerance: |out-x| <= 0.5*10^(e-15) + 0.5*ulp(x) for x = m*10^e, 1<=m<10 ('16 significant digits' plus one correctly rounded strtod); f4: 0.5*10^(e-6) + 0.5*ulp(x) (7 digits)",
    "the largest finite double is not on the lattice: its 16-digit decimal form (1.797693134862316e+308) is itself out of range, so '16 significant digits' cannot be met by any implementation; 1.797693134862315e308 is used instead",
    "strings never contain newline or carriage return (excluded by the quantifier)",
    "known finding D9 (text scan eats white-space-leading strings that follow a number) is recognised by a predicate over the input table and delimiter",
]

WS = b" \t\n\v\f\r"
KINDS = ["i1", "u1", "i2", "u2", "i4", "u4", "i8", "u8", "f4", "f8", "S1", "S3", "S12"]
SHAPES = [None, (3,), (2, 2)]
DELIMS = [",", ":", "\t", " ", ";", "|"]


def values_for(base, delim):
    k = base.kind
    if k in "iu":
        ii = np.iinfo(base)
        return [ii.min, ii.max, 0, 1, -1 if k == "i" else 2, 7, ii.max // 3, ii.min // 7 if k == "i" else 10]
    if k == "f":
        if base.itemsize == 8:
            v = [0.0, -0.0, 1 / 3, float("nan"), float("inf"), float("-inf"), 5e-324, 1e308,
                 1.797693134862315e308, 123456.789, -2.2250738585072014e-308, 0.1]
            v += [2 / 3 * 10.0 ** k for k in range(-300, 301, 50)]
        else:
            v = [0.0, -0.0, 1 / 3, float("nan"), float("inf"), float("-inf"), 1e-45, 1e38,
                 3.4028234663852886e38, 123456.789, -1.1754943508222875e-38, 0.1]
            v += [2 / 3 * 10.0 ** k for k in range(-36, 37, 6)]
        return v
    w = base.itemsize
    d = delim.encode()
    return [b"", b"a" * w, (b" a" + b"x" * w)[:w], (b"a " + b" " * w)[:w], (b"a b" + b"c" * w)[:w], b" " * w,
            (d + b"q" + d * w)[:w], (b"\ta" + b"\t" * w)[:w], b"END"[:w], b"a", (b"z" + d)[:w],
            # zero bytes inside the width: only TRAILING zero bytes are padding of a fixed-width field
            (b"A\0B" + b"c" * w)[:w], (b"\0\0z")[:w], (b"p\0" + d + b"\0q")[:w]]


def make_text_table(descr, nrows, delim, voff):
    descr = [tuple(d) if len(d) < 3 else (d[0], d[1], tuple(d[2])) for d in descr]
    d = np.zeros(nrows, dtype=descr)
    for i, name in enumerate(d.dtype.names):
        f = d[name]
        base = f.dtype.base
        vals = values_for(base, delim)
        n = f.size
        start = voff + 5 * i
        flat = [vals[(start + j) % len(vals)] for j in range(n)]
        f[...] = np.array(flat, dtype=base).reshape(f.shape)
    return d


def scan_cells(d):
    """(is_string, bytes) for every cell in scan order, across rows"""
    seq = []
    for row in d:
        for name in d.dtype.names:
            v = np.atleast_1d(row[name]).ravel()
            for e in v:
                if v.dtype.kind == "S":
                    seq.append((True, bytes(e).ljust(v.dtype.itemsize, b"\0")))
                else:
                    seq.append((False, None))
    return seq


def d9_predicate(d, delim):
    """input predicate of known finding D9 (see DESIGN.md section 4).

    The scan format of a number is "%<fmt> <delim>": after the number it skips
    any white space and then one delimiter character.  (P1) for a white-space
    delimiter other than ' ' (tab) that swallows the leading white space of a
    byte-string cell that directly follows a numeric cell; (P2) for any other
    delimiter the same happens across a row boundary (the newline is white
    space and no delimiter follows the last field), where the skip also takes
    one leading delimiter character of the next row's first string cell.
    """
    if delim == " ":
        return False
    ws = [bytes([c]) for c in WS]
    dl = delim.encode()
    ncell = len(scan_cells(d[:1]))
    seq = scan_cells(d)
    for i in range(1, len(seq)):
        (s0, _), (s1, b1) = seq[i - 1], seq[i]
        if s0 or not s1:
            continue
        if dl in ws:
            if b1[:1] in ws:
                return True        # P1
        elif i % ncell == 0:
            rest = b1.lstrip(WS)
            if len(rest) < len(b1) or rest[:1] == dl:
                return True        # P2
    return False


def kf_d9(part, case):
    descr, nrows, delim, voff = case[0], case[1], case[2], case[3]
    return d9_predicate(make_text_table(descr, nrows, delim, voff), delim)


def float_close(a, b, digits):
    """a: written (native), b: read; element-wise per the statement"""
    a = np.asarray(a).ravel()
    b = np.asarray(b).ravel()
    D = decimal.Decimal
    for x, y in zip(a, b):
        ulp = float(np.spacing(np.abs(x))) if np.isfinite(x) else 0.0
        x = float(x)
        y = float(y)
        if x != x:
            if y == y:
                return "NaN read back as %r" % y
            continue
        if x in (float("inf"), float("-inf")):
            if x != y:
                return "%r read back as %r" % (x, y)
            continue
        if x == 0:
            if y != 0 or np.signbit(x) != np.signbit(y):
                return "%r read back as %r" % (x, y)
            continue
        if y != y or y in (float("inf"), float("-inf")):
            return "%r read back as %r" % (x, y)
        e = D(x).adjusted()
        bound = D(5) * D(10) ** (e - digits) + D(ulp) / 2
        if abs(D(y) - D(x)) > bound:
            return "%r read back as %r (|diff| %.3g > %.3g)" % (x, y, abs(D(y) - D(x)), bound)
    return None


def native_descr(descr):
    out = []
    for d in descr:
        t = d[1]
        if t[0] in "<>=":
            t = "<" + t[1:] if np.little_endian else ">" + t[1:]
        out.append((d[0], t) + tuple(d[2:]))
    return out


WRITERS = ["sfile.write", "SFile.write", "io.write", "Recfile.write", "recfile.write"]
READERS_H = ["sfile.read", "SFile.read", "io.read", "Recfile(offset)"]
READERS_P = ["Recfile(nrows)", "Recfile(count)", "recfile.read"]


def main(ctx):
    from mc.util import no_fd_leak
    import esutil
    from esutil import sfile, recfile

    @no_fd_leak
    def do_write(writer, fn, d, delim):
        if writer == "sfile.write":
            sfile.write(fn, d, delim=delim)
        elif writer == "SFile.write":
            with sfile.SFile(fn, "w", delim=delim) as sf:
                sf.write(d)
        elif writer == "io.write":
            esutil.io.write(fn, d, delim=delim)
        elif writer == "Recfile.write":
            r = recfile.Recfile(fn, mode="w", delim=delim)
            r.write(d)
            r.close()
        elif writer == "recfile.write":
            recfile.write(fn, d, delim=delim)
        else:
            raise ValueError(writer)

    @no_fd_leak
    def do_read(reader, fn, d, delim, offset):
        if reader == "sfile.read":
            return sfile.read(fn, header=True)
        if reader == "SFile.read":
            with sfile.SFile(fn) as sf:
                return sf.read(header=True)
        if reader == "io.read":
            return esutil.io.read(fn, header=True)
        if reader == "Recfile(offset)":
            with recfile.Recfile(fn, dtype=d.dtype, delim=delim, offset=offset) as r:
                return r.read(), None
        if reader == "Recfile(nrows)":
            with recfile.Recfile(fn, mode="r", dtype=d.dtype, delim=delim, nrows=d.size) as r:
                return r.read(), None
        if reader == "Recfile(count)":
            with recfile.Recfile(fn, mode="r", dtype=d.dtype, delim=delim) as r:
                return r[:], None
        if reader == "recfile.read":
            return recfile.read(fn, d.dtype, delim=delim), None
        raise ValueError(reader)

    def check_result(d, out, hdr, delim):
        if not isinstance(out, np.ndarray):
            return "result is %r" % type(out).__name__
        if out.dtype.names != d.dtype.names:
            return "field names %r, written %r" % (out.dtype.names, d.dtype.names)
        if out.shape != d.shape:
            return "%d rows read, %d written" % (out.size, d.size)
        for name in d.dtype.names:
            a = d[name]
            b = out[name]
            if b.dtype.base.byteorder not in "=|" and not (b.dtype.base.byteorder == "<" and np.little_endian):
                return "field %r is not in native byte order: %r" % (name, b.dtype.base.str)
            if a.shape != b.shape:
                return "field %r shape %r, written %r" % (name, b.shape[1:], a.shape[1:])
            if a.dtype.base.kind != b.dtype.base.kind or a.dtype.base.itemsize != b.dtype.base.itemsize:
                return "field %r type %r, written %r" % (name, b.dtype.base.str, a.dtype.base.str)
            if a.dtype.base.kind in "iuS":
                if not np.array_equal(a, b):
                    return "field %r: read %r, written %r" % (name, b.tolist(), a.tolist())
            else:
                m = float_close(a.astype(a.dtype.base.newbyteorder("=")), b, 15 if a.dtype.base.itemsize == 8 else 6)
                if m:
                    return "field %r: %s" % (name, m)
        if hdr is not None:
            if hdr.get("_DELIM") != delim:
                return "_DELIM=%r, written with %r" % (hdr.get("_DELIM"), delim)
            if hdr.get("_SIZE") != d.size:
                return "_SIZE=%r, rows %d" % (hdr.get("_SIZE"), d.size)
            try:
                dts = hdr["_DTYPE"]
                for t in dts:
                    if any(c in str(t[1]) for c in "<>=|"):
                        return "_DTYPE %r carries a byte-order character" % (dts,)
                if np.dtype([tuple(t) for t in dts]).descr != np.dtype(native_descr(d.dtype.descr)).descr:
                    return "_DTYPE %r does not rebuild the native dtype %r" % (dts, native_descr(d.dtype.descr))
            except Exception as e:
                return "_DTYPE unusable: %r" % (e,)
        return None

    def nontrivial(d, delim):
        for name in d.dtype.names:
            f = d[name]
            if f.dtype.base.byteorder == ">" or f.ndim > 1:
                return True
            if f.dtype.base.kind == "f" and not np.all(np.isfinite(f)):
                return True
            if f.dtype.base.kind == "S":
                for e in f.ravel():
                    if any(c in bytes(e) for c in WS) or delim.encode() in bytes(e):
                        return True
        return False

    def one(case, rec):
        descr, nrows, delim, voff, writer, readers = case[:6]
        keep = make_text_table(descr, nrows, delim, voff)
        d = T.relayout(keep, case[6] if len(case) > 6 else "contig")
        snap = T.base_bytes(d)
        fn = os.path.join(rec.tmp, "c04.rec")
        if os.path.exists(fn):
            os.unlink(fn)
        try:
            do_write(writer, fn, d, delim)
        except Exception as e:
            return rec.fail(case, "%s raised %s: %s" % (writer, type(e).__name__, str(e)[:160]))
        calls = 1
        if d.dtype.descr != keep.dtype.descr or d.tobytes() != keep.tobytes() or T.base_bytes(d) != snap:
            return rec.fail(case, "%s modified the array passed to it" % writer)
        raw = open(fn, "rb").read()
        offset = 0
        if writer in ("sfile.write", "SFile.write", "io.write"):
            pos = raw.find(b"\nEND\n\n")
            if pos < 0:
                return rec.fail(case, "%s: no END line" % writer)
            offset = pos + 6
            rds = READERS_H
        else:
            rds = READERS_P
        body = raw[offset:]
        if body.count(b"\n") != nrows or not body.endswith(b"\n"):
            return rec.fail(case, "%s: text body has %d newline(s) for %d row(s)" % (writer, body.count(b"\n"), nrows))
        if readers != "all":
            rds = [r for r in rds if r in readers]
        for reader in rds:
            try:
                out, hdr = do_read(reader, fn, d, delim, offset)
            except Exception as e:
                return rec.fail(case, "%s -> %s raised %s: %s" % (writer, reader, type(e).__name__, str(e)[:160]))
            calls += 1
            m = check_result(keep, out, hdr, delim)
            if m:
                return rec.fail(case, "%s -> %s: %s" % (writer, reader, m))
        rec.ok(case, outcome="roundtrip-ok", nontrivial=nontrivial(keep, delim), calls=calls)

    # ------------------------------------------------------------------ tables
    def fdesc(kind, shape, order, name):
        t = T.typestr(kind, order)
        return (name, t, shape) if shape else (name, t)

    one_field = []
    for k in KINDS:
        for sh in SHAPES:
            for o in "<>":
                if o == ">" and (np.dtype(k).itemsize == 1 or k[0] == "S"):
                    continue
                one_field.append((k, sh, o))
    sub = [("i4", None, "<"), ("S3", None, "<"), ("f8", None, ">"), ("S1", None, "<"), ("i1", (3,), "<"),
           ("S12", None, "<"), ("f4", (2, 2), "<"), ("u8", None, ">"), ("S3", (3,), "<"), ("i2", None, ">"),
           ("f8", (3,), "<"), ("S1", (2, 2), "<")]
    tables = [[fdesc(k, sh, o, "f0")] for (k, sh, o) in one_field]
    n1 = len(tables)
    pairs = list(itertools.permutations(range(len(sub)), 2))
    if ctx.quick:
        pairs = [p for p in pairs if p[0] < 6 and p[1] < 6] + [(0, 8), (8, 0), (2, 5), (5, 9), (9, 11), (11, 0)]
    for a, b in pairs:
        tables.append([fdesc(*sub[a], name="a"), fdesc(*sub[b], name="b")])
    if not ctx.quick:
        for a, b, c in itertools.permutations(range(6), 3):
            tables.append([fdesc(*sub[a], name="a"), fdesc(*sub[b], name="b"), fdesc(*sub[c], name="c")])
    for o in "<>":
        tables.append([fdesc(k, SHAPES[i % 3], o, "f%d" % i) for i, k in enumerate(KINDS)])

    delims = ctx.pick([",", "\t", " ", "|"], DELIMS)
    voffs = [ctx.seed % 7, ctx.seed % 7 + 3] if ctx.quick else [ctx.seed % 7 + j for j in (0, 3, 6, 9, 12, 17)]
    units = []
    for ti, descr in enumerate(tables):
        for nrows in (1, 3):
            for delim in delims:
                for voff in voffs:
                    if ti < n1 or not ctx.quick:
                        ws = WRITERS
                    else:
                        ws = ["sfile.write", "Recfile.write"]
                    for w in ws:
                        units.append((descr, nrows, delim, voff, w, "all"))
    # every string symbol in the FIRST cell of the table (row 0, column 0 - where the data section starts) and, through
    # the cycling, in every other position: all value offsets for tables that begin with a string field, all delimiters
    for sk in ("S1", "S3", "S12"):
        for descr in ([fdesc(sk, None, "<", "s")], [fdesc(sk, None, "<", "s"), fdesc("i4", None, "<", "n")],
                      [fdesc(sk, None, "<", "s"), fdesc("f8", (3,), ">", "x")], [fdesc(sk, (3,), "<", "s"), fdesc("u1", None, "<", "n")]):
            for nrows in (1, 3):
                for delim in DELIMS:
                    for voff in range(11):
                        units.append((descr, nrows, delim, voff, "sfile.write", "all"))

    # memory layouts of the input (strided / reversed / offset views, read-only)
    for ti, descr in enumerate(tables[:n1:4] + tables[n1:n1 + 6]):
        for nrows in (2, 3):
            for delim in delims[:2]:
                for layout in T.LAYOUTS[1:]:
                    for w in ("sfile.write", "Recfile.write"):
                        units.append((descr, nrows, delim, voffs[0], w, "all", layout))
    # the table handed over as a 2-d / 3-d array of records (one row per record, C order)
    for ti, descr in enumerate(tables[:n1:6] + tables[n1:n1 + 6]):
        for nrows in (4, 6, 3):
            for delim in delims[:2]:
                for layout in T.LAYOUTS_ND:
                    for w in WRITERS:
                        units.append((descr, nrows, delim, voffs[0], w, "all", layout))
    ctx.quiet_workers = True   # the C++ reader chats on stderr ("character does not match delim")
    ctx.lattice("text-roundtrip", units, one,
                bounds=dict(tables=len(tables), one_field_tables=n1, rows=[1, 3], delims=[repr(x) for x in delims],
                            value_offsets=voffs, writers=WRITERS, readers=READERS_H + READERS_P))

    # ------------------------------------------- the same number in fields of different types
    # a value that is exactly representable in float32 stored in an f4 field AND in an f8 field of the same row (a column
    # and its promoted copy), in both orders, with integer and string fields in between and across the row boundary: each
    # field is written with the digits of ITS type (0.1f as f8 is 0.10000000149011612, 16 digits)
    def one_same(case, rec):
        order, delim, writer = case
        vals = np.array([0.1, 1.0 / 3.0, 2.0 ** -11 + 2.0 ** -30, 16777217.0, 1e-3, 5e10, -0.7], dtype="f4")
        descr = {"f4-f8": [("x", "<f4"), ("y", "<f8")], "f8-f4": [("y", "<f8"), ("x", "<f4")], "f4-int-f8": [("x", "<f4"), ("k", "<i4"), ("y", "<f8")],
                 "f4-str-f8": [("x", ">f4"), ("s", "S3"), ("y", ">f8")], "rows": [("y", "<f8"), ("k", "<i2"), ("x", "<f4")],
                 "sub": [("x", "<f4", (2,)), ("y", "<f8", (2,))]}[order]
        n = vals.size
        d = np.zeros(n, dtype=descr)
        if order == "sub":
            d["x"] = np.stack([vals, vals[::-1]], axis=1)
            d["y"] = d["x"].astype("f8")
        else:
            d["x"] = vals
            d["y"] = vals.astype("f8") if order != "rows" else np.roll(vals, -1).astype("f8")      # rows: y of row i = x of row i+1
        if "k" in d.dtype.names:
            d["k"] = np.arange(n)
        if "s" in d.dtype.names:
            d["s"] = b"ab"
        fn = os.path.join(rec.tmp, "c04_same.rec")
        if os.path.exists(fn):
            os.unlink(fn)
        try:
            do_write(writer, fn, d, delim)
            if writer in ("Recfile.write", "recfile.write"):
                out, hdr = do_read("recfile.read", fn, d, delim, 0)
            else:
                out, hdr = do_read("sfile.read", fn, d, delim, 0)
        except Exception as e:
            return rec.fail(case, "raised %s: %s" % (type(e).__name__, str(e)[:160]))
        m = check_result(d, out, hdr, delim)
        if m:
            return rec.fail(case, "the same numbers in an f4 and an f8 field (%s): %s" % (order, m))
        rec.ok(case, outcome="same-number:%s" % order, nontrivial=True, calls=2)

    smunits = [(o, dl, w) for o in ("f4-f8", "f8-f4", "f4-int-f8", "f4-str-f8", "rows", "sub") for dl in DELIMS for w in WRITERS]
    ctx.lattice("same-number-in-f4-and-f8-fields", smunits, one_same, bounds=dict(orders=["f4-f8", "f8-f4", "f4-int-f8", "f4-str-f8", "rows", "sub"]))

    # ------------------------------------------- text files with hostile user headers and field names
    # the header of a text file is text too: multi-byte characters (the data start is a BYTE offset, not a character
    # count), quotes, newlines, END lines and printf conversions in keys, values and field names, in front of a table
    # whose first column is a byte string (a shifted data start shows in the very first cell)
    TKEYS = ["a", "ключ", "Zoë", "END", "x y"]
    TVALS = ["é", "Zoë ☺ λ", "END", "it's \"q\"\nnew", 1.5, "\nEND\n", "%s %d", ["Δλ", 1], b"\xff\x00"]
    TNAMES = ["s", "numéro", "Δλ", "END", "ключ"]

    def one_thdr(case, rec):
        key, val, fname, delim, writer = case
        d = np.zeros(3, dtype=[(fname, "S3"), ("n", "<i4"), ("x", ">f8")])
        d[fname] = [b"ab", b"", b"xyz"]
        d["n"] = [1, -2, 3]
        d["x"] = [0.5, -1.25, 1e10]
        fn = os.path.join(rec.tmp, "c04_hdr.rec")
        if os.path.exists(fn):
            os.unlink(fn)
        hdr = {key: val}
        try:
            if writer == "sfile.write":
                sfile.write(fn, d, delim=delim, header=hdr)
            elif writer == "SFile.write":
                with sfile.SFile(fn, "w", delim=delim) as sf:
                    sf.write(d, header=hdr)
            else:
                esutil.io.write(fn, d, delim=delim, header=hdr)
            out, h = sfile.read(fn, header=True)
        except Exception as e:
            return rec.fail(case, "header {%r: %r}, first field %r: %s raised %s: %s" % (key, val, fname, writer, type(e).__name__, str(e)[:160]))
        m = check_result(d, out, h, delim)
        if m:
            return rec.fail(case, "header {%r: %r}, first field %r, %s: %s" % (key, val, fname, writer, m))
        if key not in h or h[key] != val:
            return rec.fail(case, "user key %r: read %r, written %r" % (key, h.get(key), val))
        rec.ok(case, outcome="text-header-ok", nontrivial=True, calls=2)

    thunits = [(k, v, nm, dl, w) for k in TKEYS for v in TVALS for nm in TNAMES for dl in (",", " ", "\t", "|") for w in ("sfile.write", "SFile.write", "io.write")
               if (nm == "s" or (k == "a" and v == "é") or w == "sfile.write")]
    ctx.lattice("text-headers", thunits, one_thdr, bounds=dict(keys=TKEYS, values=[repr(v) for v in TVALS], first_field_names=TNAMES, delims=[",", " ", "tab", "|"]))

    # ------------------------------------------- several text files open at once (process-wide state)
    # readers/writers of files with DIFFERENT delimiters alive in one process: format tables or reader
    # dtypes kept per class / per module instead of per object (mc/handles.py)
    from mc.handles import several_handles
    several_handles(ctx, "several-text-handles", ["colon", "comma", "pipe"], depth=ctx.pick(4, 5),
                    selections=[("all",), ("cols", ("b", "a")), ("rowscols", (1,), ("s", "b"))], nodedup_depth=ctx.pick(3, 4))

    # ------------------------------------------------ headers carried from another file (mc/carried.py)
    from mc.carried import carried_headers
    carried_headers(ctx, "carried-headers", DELIMS)
