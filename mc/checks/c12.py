"""C12 - HTM matching returns exactly the pairs within the search radius (E1 + E2)."""
import functools
import itertools
import os
import random

import numpy as np

from mc.oracle.wcsref import sep as ld_sep      # long double, atan2 form, independent of esutil
from mc.util import fingerprint, same_bits

RULE = (
    "rings: full product centre (18 fixed: both poles incl. the north pole under two ra values, octahedron "
    "vertices, edge mid-points, octant centre, RA-seam pair, near-pole points + 3 seed-chosen generic points) x "
    "radius alphabet (0, 1e-6, 1e-5, 1.5e-4, 0.015, 0.5, 1.5, 30, 90, 135, 180 deg + 1 seed-chosen) x depth "
    "(quick 1,2,4,7,10,13; thorough 1..13) x {centre against ring, ring against centre: maxmatch 0/1/3; ring "
    "against itself; centre against only the ring points beyond the radius (no pair, empty pair file)}; the ring holds a bit-identical copy of the centre and points at separations {r/2, 0.9r, "
    "r-2e-9, r+2e-9, 1.01r, 2r} (radius 0: {2e-9, 2e-7, 1e-4}) in 8 (24) bearings, computed in long double; "
    "routes HTM.match and Matcher.match.  "
    "sets: S = 142 points (the centres, an exact duplicate, 3 generic points, destination points at "
    "2e-7/1e-4/0.01/1 deg in 3 bearings around 10 centres), 14 fixed sub-selections of S (bases, destinations, "
    "even/odd, polar, seam, hemispheres, head/tail, one point, one point repeated, reversed, scrambled) and 5 "
    "spread-out sets (96-point quasi-uniform sphere, caps of 30 / 1 (across ra=0) / 0.01 (north pole) / 1e-4 deg); "
    "element sequences: every first-set sequence of length <= 3 (4) over {A, A repeated, B near A, far C} x per-point "
    "radius {0, 0.1, 1} (state carried from one element to the next inside the match loops); "
    "set pairs (self-matches, S against/with each selection, disjoint far-apart pairs, and byte-swapped, "
    "strided, negative-stride, 2-d, list/int and scalar inputs) x radius alphabet + per-point radius arrays x depth x "
    "maxmatch {-1,0,1,2,3,1000}; every case runs FOUR routes (HTM.match, Matcher.match, each in memory and "
    "through file= + read_pairs) and checks each against the brute-force answer, the file routes also against "
    "their in-memory twin.  Configurations whose radius exceeds 64 triangle widths (90/2^depth deg) are off the "
    "lattice (cost).  non-trivial = the configuration has at least one pair that must be returned and at least "
    "one that must not.  histories: BFS over ALL sequences (no merging below the depth bound) of 7 match "
    "events (different first sets, scalar and per-point radii, maxmatch, memory/file, and a second Matcher of "
    "another depth on another set built and used in between) on ONE Matcher (3 roots: depth 8 on S, depth 4 on "
    "scrambled S, depth 10 on a repeated point); the last call of every history is compared bit-for-bit with "
    "the same call on a fresh Matcher and with brute force, and every array returned earlier must be unchanged."
)
ASSUMPTIONS = [
    "reference: brute force over all n1*n2 pairs, separation by the atan2 (Vincenty) formula in numpy.longdouble "
    "(80-bit) from the float64 input coordinates, rounded to float64",
    "margin 1e-9 deg verbatim from the property: a pair with |sep - radius| <= 1e-9 deg may or may not be returned; "
    "every other pair is decided",
    "identical points: a second-set point whose (ra, dec) is bit-identical to the first-set point must be returned "
    "for every radius >= 0 (also radius 0) with reported distance exactly 0.0 ('identical points match at zero distance')",
    "reported distance tolerance (not in the statement, DESIGN 3 C12): |d12 - true| <= 1e-9 deg",
    "maxmatch=k>0: at most k pairs per group; a group with fewer than k pairs must contain every pair within the "
    "radius (margin pairs free); in a full group no omitted pair may be closer than the farthest returned one by "
    "more than 1e-9 deg (ties free)",
    "sorted within a group: the REPORTED distances are non-decreasing (exact comparison); groups: first-set indices "
    "non-decreasing",
    "file route == memory route: returned count == number of lines read, same set of index pairs, distances agree "
    "to 1e-9 deg (the file carries 16 significant digits); the result read back must itself pass the brute-force oracle",
    "the pair file handed to every file route already exists and holds three stale lines: match(file=) must replace "
    "the content ('gives the same pairs as the in-memory call' is read as holding for any target file)",
    "independence of depth and of route is decided by comparing every (depth, route) result with the same "
    "depth-free brute-force answer; results may therefore differ between depths/routes only in margin pairs and ties",
    "radius > 64 triangle widths at a depth is not enumerated (cost grows with the square of that ratio); radii 90, 135 "
    "and 180 deg are therefore only run at depth <= 4..5",
    "point coordinates: 0 <= ra < 360, |dec| <= 90; negative radii, NaN, empty inputs are off the lattice",
    "histories: the state of a Matcher lives in C++ and is not visible from python; the canonical key is the fingerprint "
    "of the result of a fixed probe call (observational state); all sequences up to the depth bound are executed regardless",
    "lattice statement only: holds on every listed configuration, not for all point sets",
]

LD = np.longdouble
D2R = np.arctan(LD(1)) * 4 / LD(180)

MARGIN = 1e-9     # degrees; from the property text
DTOL = 1e-9       # degrees; reported distance / tie tolerance
WIDTHS = 64.0     # radius bound in triangle widths (cost)

# ----------------------------------------------------------------------------
# geometry helpers (construction of the lattice only; the oracle re-measures every separation)


def destination(ra, dec, s, pa):
    """point at separation s and bearing pa (degrees, from north through east) from (ra, dec);
    vector form in long double (well conditioned at the poles and for tiny s), rounded to float64"""
    ra_, dec_, s_, pa_ = [LD(v) * D2R for v in (ra, dec, s, pa)]
    cr, sr, cd, sd = np.cos(ra_), np.sin(ra_), np.cos(dec_), np.sin(dec_)
    p = (cd * cr, cd * sr, sd)
    n = (-sd * cr, -sd * sr, cd)
    e = (-sr, cr, LD(0))
    cs, ss, cp, sp = np.cos(s_), np.sin(s_), np.cos(pa_), np.sin(pa_)
    q = [p[k] * cs + (n[k] * cp + e[k] * sp) * ss for k in range(3)]
    ra2 = float(np.arctan2(q[1], q[0]) / D2R)
    dec2 = float(np.arctan2(q[2], np.hypot(q[0], q[1])) / D2R)
    if ra2 < 0:
        ra2 += 360.0
    if ra2 >= 360.0:
        ra2 -= 360.0
    return (ra2, max(-90.0, min(90.0, dec2)))


def tri_width(depth):
    return 90.0 / 2 ** depth


def affordable(radius, depth):
    return radius <= WIDTHS * tri_width(depth)


# ----------------------------------------------------------------------------
# alphabets

CENTRES = [
    (0.0, 0.0),                      # octahedron vertex on the seam and the equator
    (0.0, 90.0),                     # north pole
    (123.0, -90.0),                  # south pole, arbitrary ra
    (359.9999999, 10.0),             # RA seam pair
    (1e-07, 10.0),
    (90.0, 0.0),                     # octahedron vertices
    (180.0, 0.0),
    (270.0, 0.0),
    (45.0, 0.0),                     # level-1 vertices (edge mid-points)
    (0.0, 45.0),
    (45.0, 35.264389682754654),      # centre of an octant
    (200.0, -89.9999),               # near the poles
    (20.0, 89.9999),
    (10.0, 20.0),                    # plain point (its exact duplicate is in S)
    (315.0, -45.0),                  # on a level-2 edge, southern hemisphere
    (90.0, 45.0),
    (359.5, -0.25),                  # close to seam and equator, not on them
    (250.0, 90.0),                   # the north pole again under another ra (same point, different coordinates)
]
N_RING_SET = 10                      # destination points of S are placed around the first 10 centres
S_SEPS = [2e-07, 1e-04, 0.01, 1.0]
S_BEARINGS = [0.0, 90.0, 200.0]

RADII = [0.0, 1e-06, 1e-05, 1.5e-04, 0.015, 0.5, 1.5, 30.0, 90.0, 180.0]
RADII_RINGS = [0.0, 1e-06, 1e-05, 1.5e-04, 0.015, 0.5, 1.5, 30.0, 90.0, 135.0, 179.9975, 180.0 - 1e-5, 180.0]     # (near 180 the enlargement of a search circle by a fixed cosine margin grows without bound)
DEPTHS_Q = [1, 2, 4, 7, 10, 13]
DEPTHS_T = list(range(1, 14))
MAXMATCH = [-1, 0, 1, 2, 3, 1000]
ROUTES = ["oneshot-mem", "matcher-mem", "oneshot-file", "matcher-file"]

SUBSETS = ["all", "bases", "dests", "even", "odd", "polar", "seam", "north", "south", "head", "tail",
           "single", "dups", "reversed", "scrambled"]


def gen_points(seed):
    rnd = random.Random(1200 + seed)
    pts = []
    for _ in range(3):
        ra = round(rnd.uniform(0.0, 360.0), 6)
        dec = round(float(np.rad2deg(np.arcsin(rnd.uniform(-1.0, 1.0)))), 6)
        pts.append((ra, dec))
    rad = round(10 ** rnd.uniform(-3.0, 0.5), 6)
    return tuple(pts), rad


@functools.lru_cache(maxsize=8)
def build_S(gen):
    """(points, number of base points): centres + a duplicate + the seed's generic points + destination points"""
    pts = list(CENTRES) + [(10.0, 20.0)] + list(gen)
    nb = len(pts)
    for (ra, dec) in CENTRES[:N_RING_SET]:
        for s in S_SEPS:
            for pa in S_BEARINGS:
                pts.append(destination(ra, dec, s, pa))
    return tuple(pts), nb


GOLDEN = 137.50776405003785      # golden angle, degrees
EXTRA_SETS = ["sphere", "cap30", "cap1e-4", "polecap", "seamcap"]


def sunflower(centre, radius, n):
    """n points spread evenly (Vogel spiral) over the cap of the given radius around centre"""
    return tuple(destination(centre[0], centre[1], radius * ((k + 0.5) / n) ** 0.5, (k * GOLDEN) % 360.0)
                 for k in range(n))


@functools.lru_cache(maxsize=64)
def subset(name, gen):
    """tuple of points of the named set: a subset of S (order and repetitions are part of the subset)
    or one of the spread-out sets (quasi-uniform sphere, caps of 30 / 0.01 / 1e-4 degrees)"""
    if name == "sphere":
        n = 96
        return tuple((round((k * GOLDEN) % 360.0, 9),
                      round(float(np.rad2deg(np.arcsin(1.0 - (2 * k + 1.0) / n))), 9)) for k in range(n))
    if name == "cap30":
        return sunflower(gen[0], 30.0, 64)
    if name == "cap1e-4":
        return sunflower(gen[1], 1e-04, 48)
    if name == "polecap":
        return sunflower((0.0, 90.0), 0.01, 48)
    if name == "seamcap":
        return sunflower((0.0, -30.0), 1.0, 48)
    S, nb = build_S(gen)
    n = len(S)
    i10 = CENTRES.index((10.0, 20.0))
    if name == "all":
        idx = range(n)
    elif name == "bases":
        idx = range(nb)
    elif name == "dests":
        idx = range(nb, n)
    elif name == "even":
        idx = range(0, n, 2)
    elif name == "odd":
        idx = range(1, n, 2)
    elif name == "polar":
        idx = [i for i in range(n) if abs(S[i][1]) > 88.5]
    elif name == "seam":
        idx = [i for i in range(n) if S[i][0] < 1.5 or S[i][0] > 358.5]
    elif name == "north":
        idx = [i for i in range(n) if S[i][1] > 0]
    elif name == "south":
        idx = [i for i in range(n) if S[i][1] <= 0]
    elif name == "head":
        idx = range(n // 3)
    elif name == "tail":
        idx = range(2 * n // 3, n)
    elif name == "single":
        idx = [i10]
    elif name == "dups":
        # the same point five times (three copies of one entry, its exact duplicate twice) and a neighbour twice
        idx = [i10, len(CENTRES), i10, nb, len(CENTRES), i10, nb]
    elif name == "reversed":
        idx = range(n - 1, -1, -1)
    elif name == "scrambled":
        idx = [(i * 37 + 11) % n for i in range(n)] if n % 37 else [(i * 41 + 11) % n for i in range(n)]
    else:
        raise ValueError(name)
    return tuple(S[i] for i in idx)


def radius_values(radspec, n1):
    """float64 vector of the n1 radii of a radius spec: a float or ('cycle', values, phase)"""
    if isinstance(radspec, tuple):
        _, vals, phase = radspec
        return np.array([vals[(i + phase) % len(vals)] for i in range(n1)], dtype="f8")
    return np.full(n1, float(radspec))


def radius_max(radspec):
    return max(radspec[1]) if isinstance(radspec, tuple) else float(radspec)


POISON = -77.0
STALE = "100000 100000 7.5\n" * 3     # content of a pair file left behind by some earlier match


_ALT12 = [0]


def as_variant(vals, variant):
    """the float64 values in the requested container/layout"""
    a = np.array(vals, dtype="f8")
    if variant == "native":
        return a
    if variant == "swapped":
        return a.astype(">f8")
    if variant == "strided":
        b = np.full(2 * a.size + 1, POISON)
        b[1::2] = a
        return b[1::2]
    if variant == "negstride":
        b = np.full(3 * a.size, POISON)
        b[::3] = a[::-1]
        return b[::3][::-1]
    if variant == "swapped-strided":
        b = np.full(2 * a.size + 1, POISON).astype(">f8")
        b[1::2] = a
        return b[1::2]
    if variant == "list":
        return a.tolist()
    if variant == "2d":
        # the same values as a 2-d array (two rows when the length is even, else one row): the entry points
        # return 1-d results of arr.size elements, so a multi-dimensional array means its flattened elements
        return a.reshape(2, -1).copy() if (a.size % 2 == 0 and a.size >= 2) else a.reshape(1, -1).copy()
    if variant in ("2d-F", "2d-alt"):
        # the same 2-d array in column-major MEMORY order (logical order unchanged); "2d-alt": every other argument
        b = as_variant(vals, "2d")
        _ALT12[0] += 1
        return np.asfortranarray(b) if (variant == "2d-F" or _ALT12[0] % 2 == 1) else b
    if variant == "scalar":
        return float(a[0]) if a.size == 1 else a
    raise ValueError(variant)


# ----------------------------------------------------------------------------
# reference model


@functools.lru_cache(maxsize=24)
def dist_matrix(p1, p2):
    """(true separations n1 x n2 in degrees, mask of bit-identical coordinates)"""
    a1 = np.array(p1, dtype="f8").reshape(-1, 2)
    a2 = np.array(p2, dtype="f8").reshape(-1, 2)
    D = ld_sep(a1[:, 0, None], a1[:, 1, None], a2[None, :, 0], a2[None, :, 1])
    ident = (a1[:, 0, None] == a2[None, :, 0]) & (a1[:, 1, None] == a2[None, :, 1])
    D = np.where(ident, 0.0, D)
    D.setflags(write=False)
    ident.setflags(write=False)
    return D, ident


class Truth(object):
    """brute-force answer for one (set1, set2, radii) configuration"""

    def __init__(self, p1, p2, rvec):
        self.p1, self.p2 = p1, p2
        self.D, self.ident = dist_matrix(p1, p2)
        self.r = np.asarray(rvec, dtype="f8")
        r = self.r[:, None]
        self.must = (self.D <= r - MARGIN) | self.ident
        self.may = (self.D <= r + MARGIN) | self.ident
        self.n_must = int(self.must.sum())
        self.n_margin = int((self.may & ~self.must).sum())
        self.n_forbidden = int((~self.may).sum())

    def pair(self, i, j):
        return ("first-set point %d (ra=%r, dec=%r), second-set point %d (ra=%r, dec=%r), "
                "true separation %r deg, radius %r deg"
                % (i, self.p1[i][0], self.p1[i][1], j, self.p2[j][0], self.p2[j][1],
                   float(self.D[i, j]), float(self.r[i])))


def got_matrix(res, shape):
    m1, m2, _ = res
    g = np.zeros(shape, dtype="i4")
    np.add.at(g, (m1, m2), 1)
    return g


def verify(res, T, mm):
    """all the ways in which the (m1, m2, d12) result violates the property for configuration T:
    list of (kind, message), one entry per sub-claim (empty = holds)"""
    if not (isinstance(res, tuple) and len(res) == 3):
        return [("shape", "result is not a (m1, m2, d12) triple: %r" % (res,))]
    m1, m2, d = res
    for nm, a, kind in (("m1", m1, "iu"), ("m2", m2, "iu"), ("d12", d, "f")):
        if not (isinstance(a, np.ndarray) and a.ndim == 1 and a.dtype.kind in kind):
            return [("shape", "result %s is not a 1-d array of %s: %r"
                     % (nm, "integers" if "i" in kind else "floats", a))]
    if not (m1.size == m2.size == d.size):
        return [("shape", "result arrays differ in length: %d, %d, %d" % (m1.size, m2.size, d.size))]
    n1, n2 = T.D.shape
    if m1.size and (m1.min() < 0 or m1.max() >= n1 or m2.min() < 0 or m2.max() >= n2):
        return [("range", "result index out of range: m1 in [%d,%d], m2 in [%d,%d] for set sizes %d, %d" % (
            m1.min(), m1.max(), m2.min(), m2.max(), n1, n2))]
    out = []
    if not np.all(np.isfinite(d)):
        k = int(np.flatnonzero(~np.isfinite(d))[0])
        out.append(("finite", "reported distance is not finite: %r for %s"
                    % (float(d[k]), T.pair(int(m1[k]), int(m2[k])))))
    step = np.diff(m1)
    if np.any(step < 0):
        k = int(np.flatnonzero(step < 0)[0])
        out.append(("group-order", "groups are not in input order of the first set: first-set index %d follows %d"
                    % (m1[k + 1], m1[k])))
    bad = (step == 0) & ~(np.diff(d) >= 0)
    if np.any(bad):
        k = int(np.flatnonzero(bad)[0])
        out.append(("sorted", "reported distances decrease within a group: %r then %r in the group of first-set point %d"
                    % (float(d[k]), float(d[k + 1]), m1[k])))
    g = got_matrix(res, T.D.shape)
    if g.size and g.max() > 1:
        i, j = [int(v[0]) for v in np.nonzero(g > 1)]
        out.append(("once", "pair returned %d times: %s" % (g[i, j], T.pair(i, j))))
    got = g.astype(bool)
    extra = got & ~T.may
    if extra.any():
        zero = extra & (T.r == 0)[:, None]
        if zero.any():
            i, j = [int(v[0]) for v in np.nonzero(zero)]
            out.append(("extra-r0", "radius zero matched two distinct points: %s" % T.pair(i, j)))
        pos = extra & ~zero
        if pos.any():
            i, j = [int(v[0]) for v in np.nonzero(pos)]
            out.append(("extra", "extra pair returned, separation beyond radius + margin: %s" % T.pair(i, j)))
    true = T.D[m1, m2]
    err = np.abs(d - true)
    if np.any(err > DTOL):
        k = int(np.argmax(np.where(np.isfinite(err), err, np.inf)))
        out.append(("distance", "reported distance %r differs from the true separation by %.3g deg: %s" % (
            float(d[k]), float(err[k]), T.pair(int(m1[k]), int(m2[k])))))
    nz = T.ident[m1, m2] & (d != 0)
    if np.any(nz):
        k = int(np.flatnonzero(nz)[0])
        out.append(("identical-distance", "identical points matched at non-zero distance %r: %s"
                    % (float(d[k]), T.pair(int(m1[k]), int(m2[k])))))
    miss = T.must & ~got
    if mm <= 0:
        if (miss & T.ident).any():
            i, j = [int(v[0]) for v in np.nonzero(miss & T.ident)]
            out.append(("identical-missing", "identical points not matched: %s" % T.pair(i, j)))
        if (miss & ~T.ident).any():
            i, j = [int(v[0]) for v in np.nonzero(miss & ~T.ident)]
            out.append(("missing", "missing pair, separation within radius - margin: %s" % T.pair(i, j)))
        return out
    cnt = got.sum(axis=1)
    if np.any(cnt > mm):
        i = int(np.flatnonzero(cnt > mm)[0])
        out.append(("k-count", "maxmatch=%d but %d pairs returned for first-set point %d" % (mm, cnt[i], i)))
    short = miss & (cnt < mm)[:, None]
    if short.any():
        i, j = [int(v[0]) for v in np.nonzero(short)]
        out.append(("k-short", "maxmatch=%d, only %d pairs returned for the group although another pair is within "
                    "the radius: %s" % (mm, cnt[i], T.pair(i, j))))
    far = np.where(got, T.D, -np.inf).max(axis=1) if n2 else np.zeros(n1)
    closer = miss & (T.D < far[:, None] - DTOL)
    if closer.any():
        i, j = [int(v[0]) for v in np.nonzero(closer)]
        out.append(("k-closest", "maxmatch=%d did not keep the closest pairs: farthest returned separation %r deg, "
                    "omitted %s" % (mm, float(far[i]), T.pair(i, j))))
    return out


def same_pairs(resf, resm):
    """None when the file result holds the same pairs as the in-memory result, else a message"""
    f1, f2, fd = resf
    m1, m2, md = resm
    if f1.size != m1.size:
        return "%d pairs read back, %d returned in memory" % (f1.size, m1.size)
    of = np.lexsort((f2, f1))
    om = np.lexsort((m2, m1))
    if not (np.array_equal(f1[of], m1[om]) and np.array_equal(f2[of], m2[om])):
        return "index pairs read back differ from the ones returned in memory"
    e = np.abs(fd[of] - md[om])
    if e.size and not e.max() <= DTOL:
        return "distances read back differ from the ones returned in memory by up to %.3g deg" % float(e.max())
    return None


def radius_class(rvec, depth):
    lo, hi = float(rvec.min()), float(rvec.max())
    if lo != hi:
        return "r-per-point"
    if hi == 0:
        return "r=0"
    if hi <= 1e-5:
        return "r<=1e-5"
    if hi >= 90:
        return "r>=90"
    return "r<width" if hi < tri_width(depth) else "r>=width"


def pairs_class(T):
    n_ident = int(T.ident.sum())
    if T.n_must == 0:
        c = "no-pairs"
    elif T.n_must == n_ident:
        c = "identical-only"
    elif T.n_forbidden == 0:
        c = "all-pairs"
    else:
        c = "some-pairs"
    return c + ("+margin" if T.n_margin else "")


def mm_class(T, mm):
    if mm <= 0:
        return "all"
    return "k-truncates" if np.any(T.must.sum(axis=1) > mm) else "k>=groups"


# ----------------------------------------------------------------------------


def main(ctx):
    from esutil import htm

    gen, gen_radius = gen_points(ctx.seed)
    ctx.notes.append("seed-chosen generic symbols: points %r, ring radius %r" % (gen, gen_radius))
    S, nbase = build_S(gen)
    ctx.notes.append("S has %d points (%d base points incl. one exact duplicate and 3 generic, %d destination points)"
                     % (len(S), nbase, len(S) - nbase))

    def call(route, depth, c1, c2, rad, mm, fn):
        """run one route; returns ((m1, m2, d12), number of esutil calls) or raises _Fail"""
        ra1, dec1 = c1
        ra2, dec2 = c2
        tofile = route.endswith("file")
        if tofile:
            # the file exists already and holds pairs of some earlier match: it must be replaced
            with open(fn, "w") as f:
                f.write(STALE)
        kw = dict(file=fn) if tofile else {}
        nfd = len(os.listdir("/proc/self/fd"))
        if route.startswith("oneshot"):
            out = htm.HTM(depth).match(ra1, dec1, ra2, dec2, rad, maxmatch=mm, **kw)
        else:
            out = htm.Matcher(depth, ra2, dec2).match(ra1, dec1, rad, maxmatch=mm, **kw)
        if len(os.listdir("/proc/self/fd")) != nfd:
            # a call that leaves its pair file open makes a later match(file=) of a long job fail ("too many open files")
            raise _Fail("fd-leak", "the call left %d file descriptor(s) open" % (len(os.listdir("/proc/self/fd")) - nfd))
        if not tofile:
            return out, 1
        return read_back(out, fn), 2

    def read_back(count, fn):
        if isinstance(count, bool) or not isinstance(count, (int, np.integer)):
            raise _Fail("file-count", "match(file=) did not return the pair count: %r" % (count,))
        if not os.path.exists(fn):
            raise _Fail("file-missing", "match(file=) did not create the pair file")
        with open(fn) as f:
            if f.read(len(STALE)) == STALE:
                raise _Fail("file-stale", "match(file=) kept the previous content of an existing pair file")
        try:
            p = htm.read_pairs(fn)
        except Exception as e:
            if count == 0:
                raise _Fail("file-empty", "read_pairs raised %s on the pair file of a match without pairs: %s"
                            % (type(e).__name__, e))
            raise _Fail("file-read", "read_pairs raised %s on a pair file with %d pairs: %s"
                        % (type(e).__name__, count, e))
        if not (isinstance(p, np.ndarray) and p.ndim == 1 and p.dtype.names == ("i1", "i2", "d12")):
            raise _Fail("file-table", "read_pairs did not return a 1-d (i1, i2, d12) table: %r" % (p,))
        if p.size != count:
            raise _Fail("file-count", "match(file=) returned count %d but the file holds %d pairs" % (count, p.size))
        return (np.ascontiguousarray(p["i1"]), np.ascontiguousarray(p["i2"]), np.ascontiguousarray(p["d12"]))

    def run_routes(case, rec, T, depth, c1, c2, rad, mm, routes):
        """all routes of one configuration against brute force.  Every violated sub-claim is reported
        (once per case, for the first route that shows it); returns the number of esutil calls, or
        None when something was reported"""
        fn = os.path.join(rec.tmp, "c12.pairs")
        ncall = 0
        res = {}
        seen = set()

        def report(route, kind, msg):
            if kind not in seen:
                seen.add(kind)
                rec.fail(case, "%s [route %s, depth %d, maxmatch %d]" % (msg, route, depth, mm))

        for route in routes:
            try:
                res[route], k = call(route, depth, c1, c2, rad, mm, fn)
            except _Fail as e:
                report(route, e.kind, str(e))
                continue
            except Exception as e:
                report(route, "raised", "match raised %s: %s" % (type(e).__name__, e))
                continue
            ncall += k
            for kind, msg in verify(res[route], T, mm):
                report(route, kind, msg)
            twin = route.replace("file", "mem")
            if twin != route and twin in res:
                msg = same_pairs(res[route], res[twin])
                if msg:
                    report(route, "file-vs-memory", "file route differs from the in-memory call: " + msg)
        return None if seen else ncall

    # ------------------------------------------------------------------ rings
    def ring_points(centre, r, nbear):
        if r == 0:
            seps = [2e-09, 2e-07, 1e-04]
        else:
            seps = [0.5 * r, 0.9 * r, r - 2e-09, r + 2e-09, 1.01 * r, 2.0 * r]
            seps = [s for s in seps if 0 < s <= 180.0]
        pts = [centre]                                    # identical copy
        for s in seps:
            for k in range(nbear):
                pts.append(destination(centre[0], centre[1], s, 360.0 * k / nbear + (7.0 if k % 2 else 0.0)))
        return tuple(pts)

    def one_ring(case, rec):
        centre, r, depth, direction, mm, nbear = case
        ring = ring_points(centre, r, nbear)
        routes = ("oneshot-mem", "matcher-mem")
        if direction == "centre-vs-ring":
            p1, p2 = (centre,), ring
        elif direction == "ring-vs-centre":
            p1, p2 = ring, (centre,)
        elif direction == "centre-vs-outside":
            # only the ring points beyond the radius: nothing may be returned, the pair file is empty
            D0 = dist_matrix((centre,), ring)[0][0]
            p1, p2 = (centre,), tuple(p for p, s in zip(ring, D0) if s > r + MARGIN)
            routes = ("matcher-mem", "matcher-file")
            if not p2:
                return rec.ok(case, outcome="centre-vs-outside/nothing-outside", nontrivial=False, calls=0)
        else:
            p1, p2 = ring, ring
        T = Truth(p1, p2, np.full(len(p1), r))
        c1 = (np.array([p[0] for p in p1]), np.array([p[1] for p in p1]))
        c2 = (np.array([p[0] for p in p2]), np.array([p[1] for p in p2]))
        n = run_routes(case, rec, T, depth, c1, c2, r, mm, routes)
        if n is None:
            return
        rvec = T.r
        rec.ok(case, outcome="%s/%s/%s/%s" % (direction, radius_class(rvec, depth), pairs_class(T), mm_class(T, mm)),
               nontrivial=bool(T.n_must > 0 and T.n_forbidden > 0), calls=n)

    ring_centres = list(CENTRES) + list(gen)
    ring_radii = RADII_RINGS + [gen_radius]
    ring_depths = ctx.pick(DEPTHS_Q, DEPTHS_T)
    nbear = ctx.pick(8, 24)
    ring_units = [(c, d) for c in ring_centres for d in ring_depths]

    def expand_ring(u):
        c, d = u
        for r in ring_radii:
            if not affordable(r, d):
                continue
            for mm in (0, 1, 3):
                yield (c, r, d, "centre-vs-ring", mm, nbear)
                yield (c, r, d, "ring-vs-centre", mm, nbear)
            yield (c, r, d, "ring-vs-ring", 0, nbear)
            yield (c, r, d, "centre-vs-outside", 0, nbear)

    ctx.lattice("rings", ring_units, one_ring, envstrict=True, expand=expand_ring,
                bounds=dict(centres=ring_centres, radii=ring_radii, depths=ring_depths, bearings=nbear,
                            ring_separations="0 (identical), r/2, 0.9r, r-2e-9, r+2e-9, 1.01r, 2r; radius 0: 0, 2e-9, 2e-7, 1e-4",
                            maxmatch=[0, 1, 3],
                            routes=["HTM.match", "Matcher.match", "Matcher.match(file=)+read_pairs (centre-vs-outside)"],
                            skipped="radius > %g triangle widths" % WIDTHS))

    # ------------------------------------------------------- element sequences
    # The match loops run over the first-set elements one after the other; anything carried from one
    # element to the next (a cached triangle list, the previous radius, a reused scratch vector) shows up
    # only for particular NEIGHBOURS in the input.  All sequences of length <= L over a small alphabet of
    # (position, radius) symbols, with exact repeats of a position under different radii, are enumerated.
    SEQ_A = (37.0, 45.0)
    SEQ_POS = (SEQ_A, SEQ_A, destination(SEQ_A[0], SEQ_A[1], 0.3, 40.0), (217.0, -45.0))   # A, A again, B near A, far C
    SEQ_RAD = (0.0, 0.1, 1.0)
    SEQ_SECOND = tuple([SEQ_A] + [destination(SEQ_A[0], SEQ_A[1], sp, b) for sp in (0.05, 0.2, 0.5, 0.9, 1.1, 3.0)
                                  for b in (10.0, 130.0, 250.0)] + [(217.0, -45.0), (217.05, -45.0)])

    def one_seq(case, rec):
        seq, depth, mm, use_array = case
        p1 = tuple(SEQ_POS[k] for k, _ in seq)
        rvec = np.array([SEQ_RAD[r] for _, r in seq], dtype="f8")
        if not use_array and len(set(rvec.tolist())) > 1:
            return
        T = Truth(p1, SEQ_SECOND, rvec)
        c1 = (np.array([p[0] for p in p1]), np.array([p[1] for p in p1]))
        c2 = (np.array([p[0] for p in SEQ_SECOND]), np.array([p[1] for p in SEQ_SECOND]))
        rad = rvec if use_array else float(rvec[0])
        n = run_routes(case, rec, T, depth, c1, c2, rad, mm, ("oneshot-mem", "matcher-mem", "matcher-file"))
        if n is None:
            return
        rep = any(seq[i][0] in (0, 1) and seq[i + 1][0] in (0, 1) and seq[i][1] != seq[i + 1][1] for i in range(len(seq) - 1))
        rec.ok(case, outcome="len%d/%s/%s" % (len(seq), "repeat-with-other-radius" if rep else "plain", mm_class(T, mm)),
               nontrivial=rep, calls=n)

    SEQ_L = ctx.pick(3, 4)
    seq_syms = [(k, r) for k in range(len(SEQ_POS)) for r in range(len(SEQ_RAD))]
    seq_units = [(first, d) for first in seq_syms for d in ctx.pick((4, 10), (2, 4, 7, 10, 13))]

    def expand_seq(u):
        first, d = u
        for L in range(1, SEQ_L + 1):
            for rest in itertools.product(seq_syms, repeat=L - 1):
                seq = (first,) + rest
                for mm in (0, 1):
                    yield (seq, d, mm, True)
                if L <= 2:
                    yield (seq, d, 2, True)
                    yield (seq, d, 0, False)

    ctx.lattice("element-sequences", seq_units, one_seq, envstrict=True, expand=expand_seq,
                bounds=dict(max_len=SEQ_L, positions=["A", "A (exact repeat)", "B 0.3 deg from A", "C far away"],
                            radii=list(SEQ_RAD), second_set=len(SEQ_SECOND), maxmatch=[0, 1, 2],
                            routes=["HTM.match", "Matcher.match", "Matcher.match(file=)"]))

    def coords(pts):
        return np.array([p[0] for p in pts]), np.array([p[1] for p in pts])

    # ------------------------------------------------------------- near deep triangle edges
    # points placed 5e-8 .. 1e-6 rad on either side of edges of depth-13 triangles (own long-double subdivision, from
    # mc/checks/c13.py), matched against themselves with radii 0 .. 1e-5 degree at depths 10..13: a point that is
    # filed under the neighbouring triangle is not even a candidate for the tiny circle around its identical copy
    from mc.checks import c13 as G

    def near_edge_points():
        pts = []
        for r, bits in ((3, 0x2B3A5C1), (5, 0x0F1E2D3), (6, 0x3C96A55), (0, 0x1555555)):
            tid = ((8 + r) << 26) | (bits & ((1 << 26) - 1))
            for j in range(3):
                for t in (0.3, 0.5):
                    m, nrm = G.edge_frame(13, tid, j, t)
                    for ang in (5e-8, -5e-8, 2e-7, -2e-7, 1e-6, -1e-6):
                        v = G.move(m, nrm, ang)
                        ra_, dec_ = G.radec(v)
                        pts.append((float(ra_), float(dec_)))
        return tuple(pts)

    NEP = near_edge_points()

    def one_edge(case, rec):
        r, depth, mm, half = case
        p1 = NEP[::2] if half == "even" else NEP
        T = Truth(p1, NEP, np.full(len(p1), r))
        c1 = coords(p1)
        c2 = coords(NEP)
        n = run_routes(case, rec, T, depth, c1, c2, r, mm, ("oneshot-mem", "matcher-mem"))
        if n is None:
            return
        rec.ok(case, outcome="near-edges/%s" % mm_class(T, mm), nontrivial=True, calls=n)

    eunits = [(r, d, mm, half) for r in (0.0, 1e-6, 1e-5, 5e-5) for d in ctx.pick((10, 12, 13), (9, 10, 11, 12, 13, 14))
              for mm in (0, 1) for half in ("all", "even")]
    ctx.lattice("near-deep-edges", eunits, one_edge, envstrict=True, bounds=dict(points=len(NEP), offsets_rad=[5e-8, 2e-7, 1e-6], radii=[0.0, 1e-6, 1e-5, 5e-5]))

    # ------------------------------------------------------------------- sets
    def one_set(case, rec):
        g, s1, s2, variant, radspec, depth, mm = case
        p1 = subset(s1, g)
        p2 = subset(s2, g)
        rvec = radius_values(radspec, len(p1))
        T = Truth(p1, p2, rvec)
        v1 = variant if (variant != "scalar" or len(p1) == 1) else "native"
        v2 = variant if (variant != "scalar" or len(p2) == 1) else "native"
        c1 = (as_variant([p[0] for p in p1], v1), as_variant([p[1] for p in p1], v1))
        c2 = (as_variant([p[0] for p in p2], v2), as_variant([p[1] for p in p2], v2))
        if isinstance(radspec, tuple):
            rad = as_variant(rvec, v1)
        else:
            r = float(radspec)
            rad = {"native": r, "scalar": r,
                   # python int where the radius is integral (30, 90, 180), else a one-element list
                   "list": int(r) if (r.is_integer() and r > 0) else [r]}.get(
                variant, as_variant([r], "swapped" if "swapped" in variant else "native"))
        n = run_routes(case, rec, T, depth, c1, c2, rad, mm, ROUTES)
        if n is None:
            return
        rec.ok(case, outcome="%s/%s/%s" % (radius_class(rvec, depth), pairs_class(T), mm_class(T, mm)),
               nontrivial=bool(T.n_must > 0 and T.n_forbidden > 0), calls=n)

    pairs_q = [("all", "all", "native")] + [("all", s, "native") for s in SUBSETS if s not in ("all", "reversed")] + [
        ("polar", "dups", "native"),        # disjoint, far apart: no pair at small radii (empty pair file)
        ("dups", "polar", "native"),
        ("bases", "dests", "native"),
        ("single", "all", "scalar"),
        ("reversed", "scrambled", "native"),
        ("dups", "dups", "native"),
        ("odd", "all", "swapped"),
        ("head", "all", "strided"),
        ("tail", "even", "negstride"),
        ("seam", "north", "list"),
        ("bases", "sphere", "list"),
        ("bases", "dests", "2d"),
        ("odd", "all", "2d"),
        ("bases", "dests", "2d-F"),
        ("odd", "all", "2d-alt"),
        ("all", "even", "2d-alt"),
        ("sphere", "sphere", "native"),     # quasi-uniform on the sphere, self-match
        ("cap30", "sphere", "native"),
        ("cap1e-4", "cap1e-4", "native"),   # clustered: 48 points within 1e-4 deg of a generic point
        ("polecap", "polecap", "native"),   # 48 points within 0.01 deg of the north pole
        ("seamcap", "seamcap", "native"),   # 48 points within 1 deg of (0, -30), straddling ra = 0/360
    ]
    pairs_t = pairs_q + [(s, "all", "native") for s in SUBSETS if s not in ("all", "single")] + [
        ("all", "all", "swapped"), ("all", "all", "strided"), ("all", "all", "negstride"),
        ("all", "all", "swapped-strided"), ("all", "all", "list"),
        ("all", "single", "scalar"), ("single", "single", "scalar"),
        ("even", "odd", "native"), ("north", "south", "native"), ("seam", "polar", "native"),
        ("dests", "bases", "swapped-strided"), ("scrambled", "reversed", "list"),
        ("sphere", "cap30", "native"), ("all", "sphere", "native"), ("polecap", "all", "native"),
        ("all", "cap1e-4", "native"), ("seamcap", "all", "strided"), ("sphere", "sphere", "swapped"),
    ]
    set_pairs = ctx.pick(pairs_q, pairs_t)
    set_depths = ctx.pick(DEPTHS_Q, DEPTHS_T)
    set_units = [(s1, s2, v, d) for (s1, s2, v) in set_pairs for d in set_depths]
    # the most expensive units first (load balance)
    set_units.sort(key=lambda u: -(len(subset(u[0], gen)) * (1 + (u[3] >= 7))))

    def set_radspecs(depth):
        ok = [r for r in RADII if affordable(r, depth)]
        specs = list(ok)
        specs.append(("cycle", tuple(ok), 0))
        if not ctx.quick:
            specs.append(("cycle", tuple(reversed(ok)), 3))
        return specs

    def expand_set(u):
        s1, s2, v, d = u
        for radspec in set_radspecs(d):
            for mm in MAXMATCH:
                yield (gen, s1, s2, v, radspec, d, mm)

    ctx.lattice("sets", set_units, one_set, envstrict=True, expand=expand_set,
                bounds=dict(points_in_S=len(S), set_pairs=["%s x %s (%s)" % p for p in set_pairs],
                            radii=RADII, per_point_radii="cycle over the affordable radii of the depth",
                            depths=set_depths, maxmatch=MAXMATCH, routes=ROUTES,
                            skipped="radius > %g triangle widths" % WIDTHS))

    # -------------------------------------------------------------- histories
    H_EVENTS = (
        ("match", "bases", 1.5, 0, "mem"),
        ("match", "dests", ("cycle", (0.0, 1e-06, 1.5e-04, 0.015, 0.5), 0), 2, "mem"),
        ("match", "single", 0.015, 1, "file"),
        ("match", "all", 0.0, -1, "mem"),
        ("match", "polar", 1e-06, 0, "file"),
        ("match", "seam", 5.0, 3, "mem"),
        ("other", 6, "odd", "even", 0.5, 0),
    )
    PROBE = ("match", "scrambled", 0.015, 2, "mem")

    def coords(pts):
        return np.array([p[0] for p in pts]), np.array([p[1] for p in pts])

    def do_match(M, g, ev, fn):
        _, s1, radspec, mm, route = ev
        p1 = subset(s1, g)
        ra1, dec1 = coords(p1)
        rad = radius_values(radspec, len(p1)) if isinstance(radspec, tuple) else radspec
        if route == "file":
            # no clean-up in between: a later file event of the history overwrites the file of an earlier one
            cnt = M.match(ra1, dec1, rad, maxmatch=mm, file=fn)
            return read_back(cnt, fn), p1, radius_values(radspec, len(p1)), mm
        return M.match(ra1, dec1, rad, maxmatch=mm), p1, radius_values(radspec, len(p1)), mm

    def execute(hist, rec):
        if not hist or hist[0][0] != "new":
            raise ValueError("a history starts with ('new', depth, set2, generic points)")
        _, depth0, s2, g = hist[0]
        p2 = subset(s2, g)
        ra2, dec2 = coords(p2)
        fn = os.path.join(rec.tmp, "c12h.pairs")
        for f in (fn, fn + ".fresh"):
            if os.path.exists(f):
                os.unlink(f)
        try:
            M = htm.Matcher(depth0, ra2, dec2)
        except Exception as e:
            rec.fail(hist, "Matcher constructor raised %s: %s" % (type(e).__name__, e))
            return None
        earlier = []
        nev = len(hist) - 1
        for pos, ev in enumerate(hist[1:]):
            last = pos == nev - 1
            try:
                if ev[0] == "match":
                    res, p1, rvec, mm = do_match(M, g, ev, fn)
                    rec.count("match_calls")
                    if last:
                        fresh, _, _, _ = do_match(htm.Matcher(depth0, ra2, dec2), g, ev, fn + ".fresh")
                        rec.count("fresh_object_calls")
                        if not all(same_bits(a, b) for a, b in zip(res, fresh)):
                            rec.fail(hist, "event %d: the result of %r after the history differs from the same call "
                                     "on a fresh Matcher (%d vs %d pairs)" % (pos, ev, res[0].size, fresh[0].size))
                            return None
                        bad = verify(res, Truth(p1, p2, rvec), mm)
                        for kind, msg in bad:
                            rec.fail(hist, "event %d: %s" % (pos, msg))
                        if bad:
                            return None
                else:
                    _, d2, o2, o1, r, mm = ev
                    q2 = subset(o2, g)
                    q1 = subset(o1, g)
                    a2, b2 = coords(q2)
                    a1, b1 = coords(q1)
                    res = htm.Matcher(d2, a2, b2).match(a1, b1, r, maxmatch=mm)
                    rec.count("other_matcher_calls")
                    if last:
                        bad = verify(res, Truth(q1, q2, np.full(len(q1), r)), mm)
                        for kind, msg in bad:
                            rec.fail(hist, "event %d, second Matcher: %s" % (pos, msg))
                        if bad:
                            return None
            except _Fail as e:
                rec.fail(hist, "event %d: %s" % (pos, e))
                return None
            except Exception as e:
                rec.fail(hist, "event %d %r raised %s: %s" % (pos, ev, type(e).__name__, e))
                return None
            earlier.append((pos, res, [np.array(a, copy=True) for a in res]))
        for pos, res, keep in earlier:
            if not all(same_bits(a, b) for a, b in zip(res, keep)):
                rec.fail(hist, "arrays returned by event %d changed during the later events" % pos)
                return None
        try:
            probe = do_match(M, g, PROBE, fn)[0]
        except Exception as e:
            rec.fail(hist, "probe call raised %s: %s" % (type(e).__name__, e))
            return None
        return fingerprint((M.get_depth(), [a.tolist() for a in probe])), H_EVENTS

    hdepth = 1 + ctx.pick(3, 4)
    roots = [(("new", 8, "all", gen),), (("new", 4, "scrambled", gen),), (("new", 10, "dups", gen),)]
    ctx.histories("histories", roots, execute, depth=hdepth, nodedup_depth=hdepth - 1,
                  bounds=dict(matcher=["depth 8 on S", "depth 4 on S scrambled", "depth 10 on the 'dups' subset"], calls_max=hdepth - 1,
                              events=[repr(e) for e in H_EVENTS],
                              key="fingerprint of (depth, result of a fixed probe match)"))

    # ------------------------------------------- several live objects (process-wide state)
    # up to 3 Matcher objects (different depth / different second set) alive in one process, match calls
    # interleaved: the per-object map of the second set and the C++ index must not leak between objects
    from mc.worlds import object_world
    MK = {"d4/all": (4, "all"), "d8/dups": (8, "dups"), "d10/polar": (10, "polar"), "d8/all": (8, "all")}
    MOPS = [("scrambled", 0.015, 2), ("polar", 1.5, 0), ("dups", 0.0, 0), ("seam", 0.5, 1), ("scribble",), ("bad",)]

    class Held(object):
        """a Matcher together with the caller's own coordinate arrays it was built from"""

    def m_new(kind):
        depth, s2 = MK[kind]
        h = Held()
        h.ra2, h.dec2 = coords(subset(s2, gen))
        h.M = htm.Matcher(depth, h.ra2, h.dec2)
        return h

    def m_do(h, kind, op):
        if op[0] == "scribble":
            # the caller reuses ITS arrays after the matcher was built (a matcher is built from the positions
            # it was given, not from whatever the caller's buffers hold later)
            h.ra2[:] = 0.0
            h.dec2[:] = 0.0
            return []
        if op[0] == "bad":
            return [np.asarray(a) for a in h.M.match(np.array([1.0, 2.0, 3.0]), np.array([1.0, 2.0]), 1.0)]   # must raise
        s1, r, mm = op
        ra1, dec1 = coords(subset(s1, gen))
        return [np.asarray(a) for a in h.M.match(ra1, dec1, r, maxmatch=mm)]

    def m_check(kind, op, res):
        if op[0] == "scribble":
            return None
        s1, r, mm = op
        p1, p2 = subset(s1, gen), subset(MK[kind][1], gen)
        bad = verify(tuple(res), Truth(p1, p2, np.full(len(p1), r)), mm)
        if bad:
            return bad[0][1]

    def m_modules():
        import esutil.htm.htm as hm
        return [hm]

    object_world(ctx, "several-matchers", list(MK), m_new, MOPS, m_do, m_modules, result_edits=True, depth=ctx.pick(3, 4),
                 check=m_check, must_raise=lambda kind, op: op[0] == "bad", nodedup_depth=ctx.pick(3, 4), state=lambda h: (h.M.get_depth(), getattr(h.M, "__dict__", {}), h.ra2, h.dec2))

    # ------------------------------------------------------------ sequences of ONE-SHOT calls on one HTM object
    # HTM.match builds what it needs from the second set on every call.  Sequences of calls on one HTM object whose
    # second sets are hard to tell apart cheaply - the same points in another order (same length, same first and last
    # point, same coordinate sums), one point moved, the same array object edited in place between the calls - each
    # result against brute force for ITS second set
    GRID7 = [(10.0 + 0.125 * i, 20.0 + 0.125 * ((3 * i) % 7)) for i in range(7)]

    def perm(idx):
        return [GRID7[i] for i in idx]
    SECONDS = {"base": perm([0, 1, 2, 3, 4, 5, 6]), "swap14": perm([0, 4, 2, 3, 1, 5, 6]), "swap25": perm([0, 1, 5, 3, 4, 2, 6]),
               "rot-inner": perm([0, 2, 3, 4, 5, 1, 6]), "moved": perm([0, 1, 2, 3, 4, 5]) + [(10.75, 20.875 + 1e-3)], "reversed": perm([6, 5, 4, 3, 2, 1, 0])}
    FIRST = [(10.125, 20.375), (10.5, 20.625), (10.0, 20.0), (10.75, 20.25)]

    def exec_oneshot(hist, rec):
        depth0 = hist[0][1]
        h = htm.HTM(depth0)
        shared = [np.array([p[0] for p in SECONDS["base"]]), np.array([p[1] for p in SECONDS["base"]])]
        for k, ev in enumerate(hist[1:]):
            _, name, how, rad, mm = ev
            p2 = SECONDS[name]
            if how == "same-arrays":
                # the caller re-fills the SAME two array objects
                shared[0][:] = [p[0] for p in p2]
                shared[1][:] = [p[1] for p in p2]
                ra2, dec2 = shared
            else:
                ra2, dec2 = np.array([p[0] for p in p2]), np.array([p[1] for p in p2])
            T = Truth(tuple(FIRST), tuple(p2), tuple([rad] * len(FIRST)))
            try:
                res = h.match(np.array([p[0] for p in FIRST]), np.array([p[1] for p in FIRST]), ra2, dec2, rad, maxmatch=mm)
            except Exception as e:
                rec.fail(hist, "one-shot match %d raised %s: %s" % (k, type(e).__name__, e))
                return None
            bad = verify(res, T, mm)
            if bad:
                rec.fail(hist, "one-shot call %d (second set %r, %s) after %r: %s" % (k, name, how, hist[1:k + 1], bad[0][1]))
                return None
        key = fingerprint({kk: vv for kk, vv in h.__dict__.items()}) if hasattr(h, "__dict__") else 0
        menu = tuple(("match", nm, how, rad, mm) for nm in SECONDS for how in ("fresh-arrays", "same-arrays") for (rad, mm) in ((0.2, -1), (0.3, 1)))
        return (key, len(hist)), menu

    ctx.histories("one-shot-sequences", [(("new", 8),), (("new", 11),)], exec_oneshot, depth=ctx.pick(3, 4), nodedup_depth=ctx.pick(3, 4),
                  bounds=dict(second_sets=sorted(SECONDS), arrays=["fresh-arrays", "same-arrays"], radii_maxmatch=[(0.2, -1), (0.3, 1)], calls=ctx.pick(2, 3)))

    # ------------------------------------------------------------ parameters in other numeric types
    # radius, depth and maxmatch as narrow numpy integers / float32 / 0-d arrays / Python ints (values exactly
    # representable in every type used): the pairs must be those of the call with Python float / int parameters,
    # which the other parts compare with brute force
    def one_typed(case, rec):
        s1, s2, radv, depth, mm, what, form, route = case
        g = GEN
        p1, p2 = subset(s1, g), subset(s2, g)
        c1 = (np.array([p[0] for p in p1]), np.array([p[1] for p in p1]))
        c2 = (np.array([p[0] for p in p2]), np.array([p[1] for p in p2]))
        conv = {"i1": np.int8, "u1": np.uint8, "i2": np.int16, "i8": np.int64, "u8": np.uint64, "f4": np.float32, "f8": np.float64,
                "0d": lambda v: np.array(v), "pyint": int, "pyfloat": float, "bool": bool}[form]
        r2, d2, m2 = radv, depth, mm
        if what == "radius":
            r2 = conv(radv)
        elif what == "depth":
            d2 = conv(depth)
        else:
            m2 = conv(mm)
        fn = os.path.join(rec.tmp, "c12_typed.pairs")
        try:
            ref, _ = call(route, depth, c1, c2, float(radv), mm, fn)
            got, _ = call(route, d2, c1, c2, r2, m2, fn)
        except _Fail as ex:
            return rec.fail(case, "%s given as %s: %s" % (what, form, ex))
        except TypeError:
            # the wrapped C++ entry points take depth and maxmatch as Python ints only and say so: a loud rejection of
            # the TYPE is not a wrong answer (the statement quantifies over values); anything else is
            return rec.ok(case, outcome="typed:%s:%s:rejected-by-type" % (what, form), nontrivial=False, calls=1)
        except Exception as ex:
            return rec.fail(case, "%s given as %s (%r): match raised %s: %s" % (what, form, {"radius": r2, "depth": d2}.get(what, m2), type(ex).__name__, ex))
        msg = same_pairs(got, ref)
        if msg:
            return rec.fail(case, "%s given as %s differs from the call with Python numbers: %s" % (what, form, msg))
        if len(ref[0]) == 0:
            return rec.fail(case, "harness: no pair in the reference call")
        rec.ok(case, outcome="typed:%s:%s" % (what, form), nontrivial=True, calls=2)

    GEN = gen
    tyunits = []
    for (s1, s2) in (("bases", "dests"), ("all", "all")):
        for route in ("oneshot-mem", "matcher-mem", "matcher-file"):
            for radv in (2.0, 0.5):
                for form in ("f4", "f8", "0d", "i1", "u1", "i8", "pyint"):
                    if form in ("i1", "u1", "i8", "pyint") and radv != 2.0:
                        continue
                    tyunits.append((s1, s2, radv, 8, 2, "radius", form, route))
            for form in ("i1", "u1", "i2", "i8", "u8", "0d"):
                tyunits.append((s1, s2, 2.0, 8, 2, "depth", form, route))
            for mm in (-1, 0, 1, 2):
                for form in ("i1", "i2", "i8", "0d") + (("u1", "u8", "bool") if mm in (0, 1) else ()):
                    tyunits.append((s1, s2, 2.0, 8, mm, "maxmatch", form, route))
    ctx.lattice("typed-parameters", tyunits, one_typed, bounds=dict(parameters=["radius", "depth", "maxmatch"],
                                                                   types=["i1", "u1", "i2", "i8", "u8", "f4", "f8", "0-d array", "Python int", "bool"]))

    # ------------------------------------------------------- nearly equal per-point radii
    # one radius per first-set point, the radii nearly (but not exactly) equal: every first-set point has one
    # neighbour at separation s, its own radius is s*(1-g) ("lo", must not match) or s*(1+g) ("hi", must match); ALL
    # lo/hi vectors of 2..4 points, relative gaps g from 1e-7 to 1e-2, separations 1e-3 .. 30 degrees.  A matcher that
    # treats radii agreeing to some tolerance as one radius (or uses radius[0] / the last / the largest for all) loses
    # or invents a pair here.  Pairs inside the 1e-9 degree band (tiny s*g) are left unconstrained by Truth.
    NE_CENTRES = ((10.0, -20.0), (130.0, 5.0), (250.0, 40.0), (70.0, 62.0))
    NE_BEAR = (0.0, 200.0, 90.0, 315.0)

    def one_neareq(case, rec):
        s, g, pattern, depth, mm, variant = case
        n = len(pattern)
        p1 = NE_CENTRES[:n]
        p2 = tuple(destination(p1[i][0], p1[i][1], s, NE_BEAR[i]) for i in range(n))
        rvec = [s * (1.0 + g) if hi else s * (1.0 - g) for hi in pattern]
        T = Truth(p1, p2, np.array(rvec, dtype="f8"))
        k = run_routes(case, rec, T, depth, coords(p1), coords(p2), as_variant(rvec, variant), mm, ROUTES)
        if k is None:
            return
        rec.count("neareq-constrained" if T.n_margin == 0 else "neareq-in-band")
        rec.ok(case, outcome="neareq/g=%g/%s/%s" % (g, "mixed" if 0 < sum(pattern) < n else "uniform", mm_class(T, mm)),
               nontrivial=(T.n_margin == 0 and 0 < sum(pattern) < n), calls=k)

    NE_SEPS = [1.0, 1e-3, 30.0]
    NE_GAPS = [1e-2, 1e-3, 1e-4, 1e-5, 3e-6, 1e-6, 1e-7]
    NE_PATTERNS = [p for n in ctx.pick((2, 3), (2, 3, 4)) for p in itertools.product((0, 1), repeat=n)]
    neunits = [(s, g, p, d, mm, v) for s in NE_SEPS for g in NE_GAPS for p in NE_PATTERNS for d in (4, 10)
               for mm in (0, 1) for v in ("native", "list") if affordable(s * (1.0 + g), d)]
    ctx.lattice("near-equal-radii", neunits, one_neareq, envstrict=True,
                bounds=dict(separations=NE_SEPS, relative_gaps=NE_GAPS, points=max(len(p) for p in NE_PATTERNS),
                            patterns="all lo/hi vectors", depths=[4, 10], maxmatch=[0, 1], containers=["native", "list"]))

    # ------------------------------------------------------------ empty point sets
    # an empty first set, an empty matcher, both: no pair, count 0, the pair file created (replacing a stale one),
    # readable and empty, every file descriptor closed again - through every route, depth and limit
    def one_empty(case, rec):
        which, depth, mm, route, rad = case
        e = np.array([], dtype="f8")
        a, b = np.array([10.0, 20.0, 359.9]), np.array([1.0, -2.0, 89.0])
        c1 = (e, e) if which in ("first", "both") else (a, b)
        c2 = (e, e) if which in ("second", "both") else (a + 0.0001, b)
        radv = rad if rad != "per-point" else np.full(c1[0].size, 0.5)
        fn = os.path.join(rec.tmp, "c12_empty.pairs")
        try:
            out, k = call(route, depth, c1, c2, radv, mm, fn)
        except _Fail as ex:
            return rec.fail(case, "%s point set empty: %s" % (which, ex))
        except Exception as ex:
            return rec.fail(case, "%s point set empty: match raised %s: %s" % (which, type(ex).__name__, ex))
        if not (isinstance(out, tuple) and len(out) == 3 and all(np.asarray(v).shape == (0,) for v in out)):
            return rec.fail(case, "%s point set empty: result %r is not three empty arrays" % (which, out))
        if [np.asarray(v).dtype.kind for v in out] != ["i", "i", "f"]:
            return rec.fail(case, "%s point set empty: result arrays have types %r" % (which, [np.asarray(v).dtype.str for v in out]))
        rec.ok(case, outcome="empty:%s:%s" % (which, route), nontrivial=True, calls=k)

    emunits = [(w, d, mm, route, rad) for w in ("first", "second", "both") for d in (1, 8, 13) for mm in (-1, 0, 1, 2)
               for route in ("oneshot-mem", "matcher-mem", "oneshot-file", "matcher-file") for rad in (0.0, 1.0, 180.0, "per-point")
               if not (rad == 180.0 and d > 1)]          # (a half-sphere circle at depth 13 covers 5e8 triangles)
    ctx.lattice("empty-sets", emunits, one_empty, envstrict=True,
                bounds=dict(empty=["first", "second", "both"], depths=[1, 8, 13], maxmatch=[-1, 0, 1, 2], radii=[0.0, 1.0, 180.0, "per-point"],
                            routes=["oneshot-mem", "matcher-mem", "oneshot-file", "matcher-file"]))


class _Fail(Exception):
    """a route misbehaved in a way that is itself a violation"""

    def __init__(self, kind, msg):
        Exception.__init__(self, msg)
        self.kind = kind
