"""C09 - celestial coordinate conversions are invertible isometries with correct poles (E1 + E2)."""
import math
import os
import random
import traceback

import numpy as np

from mc.util import fingerprint, same_bits

RULE = (
    "euler-points: full product {6 selectors} x {J2000,B1950} x point set; the point set of a conversion "
    "A->B is BASE (both poles, lon 0/360/359.999999, octant corners, SDSS node/centre points, points 1e-9 "
    "deg from a pole, 3 seed-chosen generic points) + caps (centre + 11 distances 1e-9..10 deg x 4 (quick) "
    "/ 8 (thorough) bearings) around both poles of the SOURCE system and around both poles of the TARGET "
    "system (located with the reference rotation) + the poles of the third system; each case calls the "
    "wrapper, euler(select) and the inverse wrapper with python scalars.  non-trivial = the point is within "
    "10 deg of a source or target pole or has lon in {0,360}.  euler-arrays: the same points in windows of "
    "3 as ndarray/list input, compared bit-for-bit with the scalar calls.  euler-pairs: every unordered "
    "pair of points of each conversion (isometry); non-trivial = separation < 1e-3 or > 179 deg or a member "
    "within 1 deg of a target pole.  chains (histories): BFS over ALL conversion chains of length <= 4 "
    "(quick) / 6 (thorough; merged below depth 2 only when the reached arrays are bit-identical) in the "
    "frame graph eq/gal/ec (six euler wrappers) + eq<->sdss + eq<->xyz, from every start frame in "
    "{eq,gal,ec} x epoch x group of 4 start points (BASE + small caps around the poles of all three "
    "systems), arrays handed from one conversion to the next; every prefix is compared with the reference "
    "rotation of the start points, with the direct conversion, with the start when the chain closes, and "
    "all arrays handed out earlier must be bit-unchanged.  "
    "sdss / xyz: BASE + caps around the equatorial poles, the survey poles (95,0)/(275,0), the ceta=+-180 "
    "cut; direct (clambda,ceta) and (x,y,z) lattices for the inverse directions; windows; all pairs.  "
    "rotate: full product of Euler angles {0,+-10,8,90,123,180,270,360}^3 (thorough: + 33.3 and a seed-chosen "
    "angle) x (BASE + caps around the source and target poles of that rotation + the pole pre-images "
    "((90-phi)%360 | (270-phi)%360, +-(90-|theta|)) in plain decimal arithmetic); all pairs of a 16-point "
    "subset.  shiftlon: full product lon alphabet x shift alphabet (incl. None, int and float, |shift| > 360, "
    "shifts that leave lon-shift a tiny negative number) x wrap x {shiftlon,shiftra} x {scalar, ndarray "
    "windows, list}.  shiftlon-folds: shift alphabet (20 magnitudes x both signs, int and float, beyond one turn) "
    "x every double within 4 ulps of the fold point of that shift (shift mod 360), of 360 - fold, of 0 and of 360 "
    "(180 for the wrap) x {shiftlon,shiftra} x {scalar, whole ladder as ndarray, list}."
)
ASSUMPTIONS = [
    "reference rotations are built in 80-bit long double from the constants documented in the euler "
    "docstring (J2000: alphaG 192.85948, deltaG 27.12825, lomega 32.93192, eps 23.4392911111; for selectors "
    "5/6 additionally alphaE 180.02322, deltaE 29.811438523, Eomega 6.3839743) as basis vectors "
    "(pole, ascending node on the old equator, node longitude), not as the code's Euler-angle formula; "
    "B1950 constants are not documented in the docstring: the standard 192.25, 27.4, 33.0, 23.4457889 are used; "
    "selectors 5/6 are compared with the composition (eq->ec)(eq->gal)^-1 of the reference rotations",
    "all 'on the sky' distances are atan2(|a x b|, a.b) in long double",
    "tolerance 1e-5 deg for euler and its wrappers and for rotate, 1e-9 deg for the sdss and xyz conversions "
    "(property text); a chain is held to 1e-5 deg as soon as it contains one euler leg, else to 1e-9 deg, "
    "for every chain length within the depth bound (design: 3/4 legs; 4/6 are run, measured worst 3e-6 deg)",
    "documented ranges: euler family lon in [0,360), lat in [-90,90]; eq2sdss clambda in [-90,90], ceta in "
    "[-180,180]; sdss2eq and xyz2eq ra in [0,360] (their own atbound(0,360) and the eq2sdss argument check "
    "admit 360.0), dec in [-90,90]; rotate documents no range: [0,360) x [-90,90] of its (a+psi+4pi) mod 2pi "
    "form is demanded",
    "unit length: |x^2+y^2+z^2 - 1| <= 4 ulp (8.9e-16), evaluated in long double",
    "SDSS definition (module header of coords.py / SDSS): node ra 95 (= centre ra 185 - 90), eta pole offset "
    "= centre dec 32.5; x=-sin(clambda), y=cos(clambda)cos(ceta+32.5), z=cos(clambda)sin(ceta+32.5) in the "
    "frame whose x axis points to (ra 95, dec 0); stomp=True unit vectors are measured from ra 95",
    "the inverse of rotate(phi,theta,psi) is taken to be rotate(psi,-theta,phi) (inverse of the code's z-x-z "
    "composition; the docstring names no inverse); the property claims no particular sense/sign convention "
    "for rotate, so it is checked for finiteness, range, invertibility and isometry only, not against a matrix",
    "scalar and array forms must agree bit-for-bit element by element, and an input ndarray must be left "
    "unmodified (otherwise the caller's own round-trip comparison would be against altered data)",
    "shiftlon congruence: |out - (lon - shift) - 360k| <= 1e-12 deg (floating point rounding of the "
    "subtraction); shiftlon inputs are longitudes in [0,360) as its docstring requires; with shift given the "
    "wrap flag must have no effect; wrap=False without shift is the identity",
    "xyz2eq(units='rad') and the dtype= options are outside the quantifier (DESIGN D25) and are not exercised",
    "bounded: the statement holds on the listed lattices, not for all reals",
]

LD = np.longdouble
PI = 4 * np.arctan(LD(1))
D2R = PI / 180
TOL_ROT = 1e-5
TOL_EXACT = 1e-9
ULP4 = 4 * 2.220446049250313e-16

# ----------------------------------------------------------------------------
# reference model (long double)


def vec(lon, lat):
    """unit vectors (3,n) of lon/lat in degrees"""
    lon = np.atleast_1d(np.asarray(lon, dtype=LD)) * D2R
    lat = np.atleast_1d(np.asarray(lat, dtype=LD)) * D2R
    cl = np.cos(lat)
    return np.array([cl * np.cos(lon), cl * np.sin(lon), np.sin(lat)])


def sep(a, b):
    """angle in degrees between the columns of two (3,n) arrays (any length)"""
    a = np.asarray(a, dtype=LD).reshape(3, -1)
    b = np.asarray(b, dtype=LD).reshape(3, -1)
    cx = a[1] * b[2] - a[2] * b[1]
    cy = a[2] * b[0] - a[0] * b[2]
    cz = a[0] * b[1] - a[1] * b[0]
    return (np.arctan2(np.sqrt(cx * cx + cy * cy + cz * cz), (a * b).sum(0)) / D2R).astype("f8")


def lonlat(v):
    """python floats (lon in [0,360), lat) of one 3-vector"""
    v = np.asarray(v, dtype=LD).reshape(3)
    lon = float(np.arctan2(v[1], v[0]) / D2R) % 360.0
    lat = float(np.arctan2(v[2], np.sqrt(v[0] * v[0] + v[1] * v[1])) / D2R)
    return (lon, lat)


def _unit(v):
    return v / np.sqrt((v * v).sum())


def frame_rows(pole_lon, pole_lat, node_lon_new):
    """rows = basis vectors of the NEW system written in the OLD one.

    The new pole is at (pole_lon, pole_lat) of the old system; the ascending
    node of the new equator on the old equator has new longitude node_lon_new.
    """
    z = vec(pole_lon, pole_lat)[:, 0]
    zo = np.array([0, 0, 1], dtype=LD)
    n = _unit(np.cross(zo, z))          # ascending node, lies on both equators
    m = np.cross(z, n)                  # 90 deg further along the new equator
    a = LD(node_lon_new) * D2R
    x = n * np.cos(a) - m * np.sin(a)
    y = np.cross(z, x)
    return np.array([x, y, z])


CONST = {
    False: dict(aG=192.85948, dG=27.12825, lO=32.93192, eps=23.4392911111,
                aE=180.02322, dE=29.811438523, EO=6.3839743),
    True: dict(aG=192.25, dG=27.4, lO=33.0, eps=23.4457889),
}
NODE = 95.0       # SDSS survey node = centre ra 185 - 90
ETAPOLE = 32.5    # centre dec


def _rz(a):
    a = LD(a) * D2R
    c, s = np.cos(a), np.sin(a)
    return np.array([[c, s, 0], [-s, c, 0], [0, 0, 1]], dtype=LD)


def _rx(a):
    a = LD(a) * D2R
    c, s = np.cos(a), np.sin(a)
    return np.array([[1, 0, 0], [0, c, s], [0, -s, c]], dtype=LD)


def _frames(b1950):
    c = CONST[b1950]
    return {
        "eq": np.eye(3, dtype=LD),
        "gal": frame_rows(c["aG"], c["dG"], c["lO"]),
        "ec": frame_rows(270.0, 90.0 - c["eps"], 0.0),
        "sdss": _rz(NODE),      # cartesian survey frame: x axis at ra 95
        "xyz": np.eye(3, dtype=LD),
        "xyz-stomp": _rz(NODE),
    }


FRAMES = {False: _frames(False), True: _frames(True)}
# galactic basis written in J2000 ecliptic coordinates, from the documented alphaE/deltaE/Eomega
GAL_FROM_EC_DOC = frame_rows(CONST[False]["aE"], CONST[False]["dE"], CONST[False]["EO"])


def refmat(b1950, src, dst):
    """rotation taking cartesian vectors of system src to system dst"""
    F = FRAMES[b1950]
    return F[dst] @ F[src].T


def sdss_vec(cl, ce):
    """cartesian survey-frame vector of corrected survey coordinates"""
    cl = np.atleast_1d(np.asarray(cl, dtype=LD)) * D2R
    ce = (np.atleast_1d(np.asarray(ce, dtype=LD)) + LD(ETAPOLE)) * D2R
    return np.array([-np.sin(cl), np.cos(ce) * np.cos(cl), np.sin(ce) * np.cos(cl)])


def sdss_of_vec(v):
    """(clambda, ceta) python floats of a survey-frame vector (to build inputs only)"""
    v = np.asarray(v, dtype=LD).reshape(3)
    cl = float(-np.arctan2(v[0], np.sqrt(v[1] * v[1] + v[2] * v[2])) / D2R)
    ce = float(np.arctan2(v[2], v[1]) / D2R) - ETAPOLE
    while ce < -180.0:
        ce += 360.0
    while ce > 180.0:
        ce -= 360.0
    return (cl, ce)


# ----------------------------------------------------------------------------
# point sets (inputs only)

SEL = {1: ("eq", "gal", "eq2gal"), 2: ("gal", "eq", "gal2eq"), 3: ("eq", "ec", "eq2ec"),
       4: ("ec", "eq", "ec2eq"), 5: ("ec", "gal", "ec2gal"), 6: ("gal", "ec", "gal2ec")}
INV = {1: 2, 2: 1, 3: 4, 4: 3, 5: 6, 6: 5}

BASE = [
    (0.0, 0.0), (0.0, 90.0), (0.0, -90.0), (360.0, 0.0), (90.0, 0.0), (180.0, 0.0), (270.0, 0.0),
    (360.0, 90.0), (360.0, -90.0), (359.999999, 45.0), (359.999999, -45.0),
    (45.0, 35.264389682754654), (225.0, -35.264389682754654),
    (12.0, 89.999999999), (300.0, -89.999999999),
    (95.0, 0.0), (275.0, 0.0), (185.0, 32.5), (5.0, -32.5), (185.0, -57.5), (5.0, 57.5),
    (123.456, -12.34), (271.3, 66.6),
]
DISTS = [1e-9, 1e-8, 1e-7, 1e-6, 1e-5, 1e-4, 1e-3, 1e-2, 0.1, 1.0, 10.0]
BEARINGS4 = [10.0, 100.0, 190.0, 280.0]
BEARINGS8 = [10.0, 55.0, 100.0, 145.0, 190.0, 235.0, 280.0, 325.0]


def cap(center, dists, bearings):
    """centre + points at the given distances/bearings around it, python floats"""
    lon0, lat0 = center
    out = [(float(lon0), float(lat0))]
    if abs(lat0) == 90.0:
        s = 1.0 if lat0 > 0 else -1.0
        for d in dists:
            for b in bearings:
                out.append((float(b), s * (90.0 - d)))
        return out
    c = vec(lon0, lat0)[:, 0]
    u = np.array([0, 0, 1], dtype=LD) if abs(float(c[2])) < 0.9 else np.array([1, 0, 0], dtype=LD)
    e1 = _unit(np.cross(u, c))
    e2 = np.cross(c, e1)
    for d in dists:
        dd = LD(d) * D2R
        for b in bearings:
            bb = LD(b) * D2R
            p = c * np.cos(dd) + (e1 * np.cos(bb) + e2 * np.sin(bb)) * np.sin(dd)
            out.append(lonlat(p))
    return out


def dedupe(pts):
    seen = set()
    out = []
    for p in pts:
        if p not in seen:
            seen.add(p)
            out.append(p)
    return out


def seeded_points(seed):
    r = random.Random(1000 + seed)
    out = []
    for _ in range(3):
        lon = round(r.uniform(0.001, 359.999), 4)
        lat = round(math.degrees(math.asin(r.uniform(-0.999, 0.999))), 4)
        out.append((lon, lat))
    return out


def poles_of(b1950, frame, in_frame):
    """both poles of `frame` written in the coordinates of `in_frame` (reference rotation)"""
    if frame == in_frame:
        return [(0.0, 90.0), (0.0, -90.0)]
    M = refmat(b1950, frame, in_frame)
    z = np.array([0, 0, 1], dtype=LD)
    return [lonlat(M @ z), lonlat(M @ (-z))]


def euler_points(sel, b1950, gen, bearings, dists=DISTS):
    src, dst, _ = SEL[sel]
    third = [f for f in ("eq", "gal", "ec") if f not in (src, dst)][0]
    pts = list(BASE) + list(gen)
    for p in poles_of(b1950, src, src):
        pts += cap(p, dists, bearings)
    for p in poles_of(b1950, dst, src):
        pts += cap(p, dists, bearings)
    pts += poles_of(b1950, third, src)
    return dedupe(pts)


def windows(pts, n=3):
    return [tuple(pts[i:i + n]) for i in range(0, len(pts), n)]


def chunks(lst, n):
    return [lst[i:i + n] for i in range(0, len(lst), n)]


# ----------------------------------------------------------------------------


def _finite(*xs):
    return all(bool(np.all(np.isfinite(x))) for x in xs)


def _is1d(a, n):
    return isinstance(a, np.ndarray) and a.shape == (n,) and a.dtype == np.float64


def sepclass(d):
    if d == 0:
        return "sep=0"
    for lim in (1e-6, 1e-3, 1.0, 90.0, 179.0):
        if d < lim:
            return "sep<%g" % lim
    return "sep>=179"


def guarded(fn):
    """no esutil call of this property may raise on a valid input: report it on the case"""
    def one(case, rec):
        try:
            return fn(case, rec)
        except Exception as e:
            tb = traceback.extract_tb(e.__traceback__)[-1]
            rec.fail(case, "unexpected %s: %s [at %s:%d]" % (
                type(e).__name__, str(e)[:200], os.path.basename(tb.filename), tb.lineno))
    return one


def main(ctx):
    from mc.longarr import marks as _marks
    from mc.longarr import harvest_lengths
    from esutil import coords as _coords
    _hl, _hb = harvest_lengths([_coords])
    ctx.notes.append("long arrays: integer constants harvested from esutil.coords: %r" % (_hb,))
    LONG_EXTRA = tuple(m + d for m in _marks(ctx) for d in (0, 1)) + tuple(n for n in _hl if n >= 1000)      # universal marks + harvested, see mc/longarr.py
    from esutil import coords

    gen = seeded_points(ctx.seed)
    bearings = ctx.pick(BEARINGS4, BEARINGS8)

    # ------------------------------------------------------------ euler family
    def euler_call(name, lon, lat, b1950):
        return getattr(coords, name)(lon, lat, b1950=b1950)

    def check_lonlat(case, rec, what, a, b, n, lon_closed=False):
        """shape, finiteness and ranges of an (lon, lat) result; True if fine"""
        if not (_is1d(a, n) and _is1d(b, n)):
            rec.fail(case, "%s: result is not a pair of float64 arrays of length %d: %r %r" % (what, n, a, b))
            return False
        if not _finite(a, b):
            rec.fail(case, "%s: output not finite: lon=%r lat=%r" % (what, a.tolist(), b.tolist()))
            return False
        if n == 0:
            return True
        if a.min() < 0.0 or (a.max() > 360.0 if lon_closed else a.max() >= 360.0):
            rec.fail(case, "%s: longitude outside %s: %r" % (what, "[0,360]" if lon_closed else "[0,360)", a.tolist()))
            return False
        if b.min() < -90.0 or b.max() > 90.0:
            rec.fail(case, "%s: latitude outside [-90,90]: %r" % (what, b.tolist()))
            return False
        return True

    def one_euler(case, rec):
        kind = case[0]
        if kind == "pt":
            _, sel, b1950, lon, lat = case
            src, dst, name = SEL[sel]
            iname = SEL[INV[sel]][2]
            tag = "euler wrapper (%s b1950=%s)" % (name, b1950)
            ao, bo = euler_call(name, lon, lat, b1950)
            ae, be = coords.euler(lon, lat, sel, b1950=b1950)
            if not check_lonlat(case, rec, tag, ao, bo, 1):
                return
            if not (same_bits(ao, ae) and same_bits(bo, be)):
                return rec.fail(case, "%s differs from euler with select=%d: %r %r vs %r %r" % (
                    tag, sel, ao.tolist(), bo.tolist(), ae.tolist(), be.tolist()))
            vin = vec(lon, lat)
            vref = refmat(b1950, src, dst) @ vin
            vout = vec(ao, bo)
            e = float(sep(vout, vref)[0])
            if not e <= TOL_ROT:
                return rec.fail(case, "%s: result %r is %.3g deg away from the pole/node rotation %r" % (
                    tag, (float(ao[0]), float(bo[0])), e, lonlat(vref[:, 0])))
            if not b1950 and sel in (5, 6):
                M = GAL_FROM_EC_DOC if sel == 5 else GAL_FROM_EC_DOC.T
                e2 = float(sep(vout, M @ vin)[0])
                if not e2 <= TOL_ROT:
                    return rec.fail(case, "%s: result is %.3g deg away from the rotation given by the documented "
                                    "alphaE/deltaE/Eomega" % (tag, e2))
            ai, bi = euler_call(iname, float(ao[0]), float(bo[0]), b1950)
            if not check_lonlat(case, rec, "inverse (%s) after %s" % (iname, tag), ai, bi, 1):
                return
            e = float(sep(vec(ai, bi), vin)[0])
            if not e <= TOL_ROT:
                return rec.fail(case, "%s then its inverse (%s): round trip is off by %.3g deg on the sky: back at %r" % (
                    tag, iname, e, (float(ai[0]), float(bi[0]))))
            dsrc = 90.0 - abs(lat)
            dtgt = float(sep(vref, np.array([[0], [0], [1 if vref[2, 0] > 0 else -1]], dtype=LD))[0])
            cl = []
            if dsrc == 0:
                cl.append("at-source-pole")
            elif dsrc <= 10:
                cl.append("source-cap<=1e-3" if dsrc <= 1e-3 else "source-cap<=10")
            if dtgt <= 10:
                cl.append("target-cap<=1e-3" if dtgt <= 1e-3 else "target-cap<=10")
            if lon in (0.0, 360.0):
                cl.append("lon=%g" % lon)
            return rec.ok(case, outcome="+".join(cl) or "generic", nontrivial=bool(cl), calls=3)

        if kind == "arr" and case[3] == "long":
            # one long array (lengths at decimal and binary marks: conversions that work in blocks), compared with
            # the conversion of its first, middle and last elements
            _, sel, b1950, form, n = case
            src, dst, name = SEL[sel]
            lon = (np.arange(n) * 0.0036 * 7.0) % 360.0
            lat = ((np.arange(n) * 0.0018 * 13.0) % 180.0) - 90.0
            ao, bo = euler_call(name, lon, lat, b1950)
            if not check_lonlat(case, rec, "%s on %d points" % (name, n), ao, bo, n):
                return
            for i in (0, 1, n // 2, n - 2, n - 1):
                so, sb = euler_call(name, float(lon[i]), float(lat[i]), b1950)
                if not (same_bits(so, ao[i:i + 1]) and same_bits(sb, bo[i:i + 1])):
                    return rec.fail(case, "%s on %d points: element %d differs from the scalar call" % (name, n, i))
            return rec.ok(case, outcome="long-array", nontrivial=True, calls=6)

        if kind == "arr":
            _, sel, b1950, form, pts = case
            src, dst, name = SEL[sel]
            tag = "euler wrapper (%s b1950=%s, %s input)" % (name, b1950, form)
            lon = [p[0] for p in pts]
            lat = [p[1] for p in pts]
            flag = b1950
            if form == "list":
                alon, alat = list(lon), list(lat)
            else:
                alon, alat = np.array(lon, dtype="f8"), np.array(lat, dtype="f8")
                if form == "flag:numpy-bool":
                    flag = np.bool_(b1950)      # what a comparison or a boolean table column yields
                elif form == "flag:int":
                    flag = int(b1950)
            ao, bo = euler_call(name, alon, alat, flag)
            if not check_lonlat(case, rec, tag, ao, bo, len(pts)):
                return
            if form == "ndarray" and not (same_bits(alon, np.array(lon)) and same_bits(alat, np.array(lat))):
                return rec.fail(case, "%s: the input array was modified in place: %r %r" % (
                    tag, alon.tolist(), alat.tolist()))
            for i, (l, b) in enumerate(pts):
                so, sb = euler_call(name, l, b, b1950)
                if not (same_bits(so, ao[i:i + 1]) and same_bits(sb, bo[i:i + 1])):
                    return rec.fail(case, "%s: element %d of the array result %r differs from the scalar call %r" % (
                        tag, i, (float(ao[i]), float(bo[i])), (so.tolist(), sb.tolist())))
            return rec.ok(case, outcome="%s-of-%d" % (form, len(pts)), nontrivial=len(pts) > 1, calls=1 + len(pts))

        # pair: isometry
        _, sel, b1950, p, q = case
        src, dst, name = SEL[sel]
        tag = "euler wrapper (%s b1950=%s)" % (name, b1950)
        ao, bo = euler_call(name, np.array([p[0], q[0]]), np.array([p[1], q[1]]), b1950)
        if not check_lonlat(case, rec, tag, ao, bo, 2):
            return
        vin = vec([p[0], q[0]], [p[1], q[1]])
        vout = vec(ao, bo)
        din = float(sep(vin[:, 0], vin[:, 1])[0])
        dout = float(sep(vout[:, 0], vout[:, 1])[0])
        if not abs(din - dout) <= TOL_ROT:
            return rec.fail(case, "%s: separation %.12g deg became %.12g deg (changed by %.3g)" % (
                tag, din, dout, abs(din - dout)))
        zt = (refmat(b1950, src, dst) @ vin)[2]
        polar = bool(np.max(np.abs(zt)) >= math.cos(math.radians(1.0)))
        return rec.ok(case, outcome=sepclass(din) + ("+target-polar" if polar else ""),
                      nontrivial=bool(din < 1e-3 or din > 179 or polar), calls=1)

    eunits = []
    for b1950 in (False, True):
        for sel in (1, 2, 3, 4, 5, 6):
            pts = euler_points(sel, b1950, gen, bearings)
            for ch in chunks(pts, 40):
                eunits.append(("pts", sel, b1950, tuple(ch)))

    def expand_euler(u):
        _, sel, b1950, pts = u
        for (lon, lat) in pts:
            yield ("pt", sel, b1950, lon, lat)

    npts = len(euler_points(1, False, gen, bearings))
    ctx.lattice("euler-points", eunits, guarded(one_euler), expand=expand_euler,
                fpstrict=True, bounds=dict(selectors=6, epochs=["J2000", "B1950"], points_per_conversion=npts,
                            cap_distances_deg=DISTS, bearings=bearings, seeded_points=gen))

    aunits = []
    for b1950 in (False, True):
        for sel in (1, 2, 3, 4, 5, 6):
            pts = euler_points(sel, b1950, gen, bearings)
            for form in ("ndarray", "list"):
                for ch in chunks(windows(pts), 20):
                    aunits.append((sel, b1950, form, tuple(ch)))
            # the epoch flag as a numpy bool / an int (same truth value, same conversion); empty input
            for form in ("flag:numpy-bool", "flag:int"):
                aunits.append((sel, b1950, form, tuple(windows(pts)[:6])))
            aunits.append((sel, b1950, "ndarray", ((),)))
            if sel in (1, 4) and not b1950:
                aunits.append((sel, b1950, "long", (100000, 200000, 99999, 65536) + LONG_EXTRA))

    def expand_earr(u):
        sel, b1950, form, wins = u
        for w in wins:
            yield ("arr", sel, b1950, form, w)

    ctx.lattice("euler-arrays", aunits, guarded(one_euler), expand=expand_earr,
                fpstrict=True, bounds=dict(window=3, forms=["ndarray", "list", "epoch flag as numpy.bool_", "epoch flag as int", "empty arrays"]))

    # pairs: every unordered pair of the points of a conversion
    pdists = DISTS
    punits = []
    for b1950 in (False, True):
        for sel in (1, 2, 3, 4, 5, 6):
            pts = euler_points(sel, b1950, gen, bearings, dists=pdists)
            for i in range(1, len(pts)):
                punits.append((sel, b1950, pts[i], tuple(pts[:i])))

    def expand_epair(u):
        sel, b1950, p, qs = u
        for q in qs:
            yield ("pair", sel, b1950, q, p)

    ctx.lattice("euler-pairs", punits, guarded(one_euler), expand=expand_epair,
                bounds=dict(points_per_conversion=len(euler_points(1, False, gen, bearings, dists=pdists)),
                            cap_distances_deg=pdists))

    # ------------------------------------------------------------ sdss
    def sdss_fwd_checks(case, rec, cl, ce, n, what="eq2sdss"):
        if not (_is1d(cl, n) and _is1d(ce, n)):
            rec.fail(case, "%s: result is not a pair of float64 arrays of length %d: %r %r" % (what, n, cl, ce))
            return False
        if not _finite(cl, ce):
            rec.fail(case, "%s: output not finite: clambda=%r ceta=%r" % (what, cl.tolist(), ce.tolist()))
            return False
        if np.abs(cl).max() > 90.0:
            rec.fail(case, "%s: clambda outside [-90,90]: %r" % (what, cl.tolist()))
            return False
        if np.abs(ce).max() > 180.0:
            rec.fail(case, "%s: ceta outside [-180,180]: %r" % (what, ce.tolist()))
            return False
        return True

    def one_sdss(case, rec):
        kind = case[0]
        if kind == "long":
            # long arrays at decimal and binary marks through eq2sdss -> sdss2eq (and eq2xyz -> xyz2eq): every element
            # must equal its scalar conversion
            _, n = case
            ra = (np.arange(n) * 0.0036 * 7.0) % 360.0
            dec = ((np.arange(n) * 0.0018 * 13.0) % 179.0) - 89.5
            cl, ce = coords.eq2sdss(ra, dec)
            r2, d2 = coords.sdss2eq(cl, ce)
            x, y, z = coords.eq2xyz(ra, dec)
            if not (_is1d(cl, n) and _is1d(ce, n) and _is1d(r2, n) and _is1d(x, n)):
                return rec.fail(case, "conversions of %d points did not return arrays of %d elements" % (n, n))
            e = float(sep(vec(r2, d2), vec(ra, dec)).max())
            if not e <= TOL_EXACT:
                return rec.fail(case, "eq2sdss -> sdss2eq on %d points: round trip off by %.3g deg" % (n, e))
            for i in (0, n // 2, n - 1):
                scl, sce = coords.eq2sdss(float(ra[i]), float(dec[i]))
                if not (same_bits(scl, cl[i:i + 1]) and same_bits(sce, ce[i:i + 1])):
                    return rec.fail(case, "eq2sdss on %d points: element %d differs from the scalar call" % (n, i))
            return rec.ok(case, outcome="long-array", nontrivial=True, calls=6)
        if kind == "eq":
            _, ra, dec = case
            cl, ce = coords.eq2sdss(ra, dec)
            if not sdss_fwd_checks(case, rec, cl, ce, 1):
                return
            vin = vec(ra, dec)
            vsv = refmat(False, "eq", "sdss") @ vin
            e = float(sep(sdss_vec(cl, ce), vsv)[0])
            if not e <= TOL_EXACT:
                return rec.fail(case, "eq2sdss: result %r is %.3g deg away from the node/eta-pole definition %r" % (
                    (float(cl[0]), float(ce[0])), e, sdss_of_vec(vsv[:, 0])))
            r2, d2 = coords.sdss2eq(float(cl[0]), float(ce[0]))
            if not check_lonlat(case, rec, "sdss2eq after eq2sdss", r2, d2, 1, lon_closed=True):
                return
            e = float(sep(vec(r2, d2), vin)[0])
            if not e <= TOL_EXACT:
                return rec.fail(case, "eq2sdss then sdss2eq: round trip is off by %.3g deg on the sky: back at %r" % (
                    e, (float(r2[0]), float(d2[0]))))
            dpole = 90.0 - abs(dec)
            dsp = float(sep(vsv, np.array([[1 if vsv[0, 0] > 0 else -1], [0], [0]], dtype=LD))[0])
            cl_ = []
            if dpole <= 1e-3:
                cl_.append("eq-pole<=1e-3")
            elif dpole <= 10:
                cl_.append("eq-cap<=10")
            if dsp <= 1e-3:
                cl_.append("survey-pole<=1e-3")
            elif dsp <= 10:
                cl_.append("survey-cap<=10")
            if abs(float(ce[0])) > 179.0:
                cl_.append("ceta-cut")
            if ra in (0.0, 360.0):
                cl_.append("ra=%g" % ra)
            return rec.ok(case, outcome="eq:" + ("+".join(cl_) or "generic"), nontrivial=bool(cl_), calls=2)

        if kind == "sv":
            _, cl, ce = case
            ra, dec = coords.sdss2eq(cl, ce)
            if not check_lonlat(case, rec, "sdss2eq", ra, dec, 1, lon_closed=True):
                return
            vs = sdss_vec(cl, ce)
            veq = refmat(False, "sdss", "eq") @ vs
            e = float(sep(vec(ra, dec), veq)[0])
            if not e <= TOL_EXACT:
                return rec.fail(case, "sdss2eq: result %r is %.3g deg away from the node/eta-pole definition %r" % (
                    (float(ra[0]), float(dec[0])), e, lonlat(veq[:, 0])))
            c2, e2 = coords.eq2sdss(float(ra[0]), float(dec[0]))
            if not sdss_fwd_checks(case, rec, c2, e2, 1, "eq2sdss after sdss2eq"):
                return
            e = float(sep(sdss_vec(c2, e2), vs)[0])
            if not e <= TOL_EXACT:
                return rec.fail(case, "sdss2eq then eq2sdss: round trip is off by %.3g deg on the sky: back at %r" % (
                    e, (float(c2[0]), float(e2[0]))))
            cl_ = []
            if 90.0 - abs(cl) <= 1e-3:
                cl_.append("survey-pole<=1e-3")
            if 90.0 - abs(float(dec[0])) <= 1e-3:
                cl_.append("eq-pole<=1e-3")
            if abs(ce) == 180.0:
                cl_.append("ceta=+-180")
            return rec.ok(case, outcome="sv:" + ("+".join(cl_) or "generic"), nontrivial=bool(cl_), calls=2)

        if kind == "arr":
            _, form, pts = case
            ra = [p[0] for p in pts]
            dec = [p[1] for p in pts]
            if form == "ndarray":
                ara, adec = np.array(ra), np.array(dec)
            else:
                ara, adec = list(ra), list(dec)
            cl, ce = coords.eq2sdss(ara, adec)
            if not sdss_fwd_checks(case, rec, cl, ce, len(pts)):
                return
            cl0, ce0 = cl.copy(), ce.copy()
            r2, d2 = coords.sdss2eq(cl, ce)
            if not check_lonlat(case, rec, "sdss2eq (array)", r2, d2, len(pts), lon_closed=True):
                return
            if form == "ndarray" and not (same_bits(ara, np.array(ra)) and same_bits(adec, np.array(dec))):
                return rec.fail(case, "eq2sdss: the input array was modified in place: %r %r" % (
                    ara.tolist(), adec.tolist()))
            if not (same_bits(cl, cl0) and same_bits(ce, ce0)):
                return rec.fail(case, "sdss2eq: the input array was modified in place: %r %r" % (
                    cl.tolist(), ce.tolist()))
            for i, (a, d) in enumerate(pts):
                sc, se = coords.eq2sdss(a, d)
                if not (same_bits(sc, cl[i:i + 1]) and same_bits(se, ce[i:i + 1])):
                    return rec.fail(case, "eq2sdss: element %d of the array result %r differs from the scalar call %r" % (
                        i, (float(cl[i]), float(ce[i])), (sc.tolist(), se.tolist())))
                sr, sd = coords.sdss2eq(float(cl[i]), float(ce[i]))
                if not (same_bits(sr, r2[i:i + 1]) and same_bits(sd, d2[i:i + 1])):
                    return rec.fail(case, "sdss2eq: element %d of the array result %r differs from the scalar call %r" % (
                        i, (float(r2[i]), float(d2[i])), (sr.tolist(), sd.tolist())))
            return rec.ok(case, outcome="arr:%s-of-%d" % (form, len(pts)), nontrivial=len(pts) > 1,
                          calls=2 + 2 * len(pts))

        _, p, q = case
        cl, ce = coords.eq2sdss(np.array([p[0], q[0]]), np.array([p[1], q[1]]))
        if not sdss_fwd_checks(case, rec, cl, ce, 2):
            return
        vin = vec([p[0], q[0]], [p[1], q[1]])
        vout = vec(ce, cl)          # ceta is the longitude, clambda the latitude of the survey system
        din = float(sep(vin[:, 0], vin[:, 1])[0])
        dout = float(sep(vout[:, 0], vout[:, 1])[0])
        if not abs(din - dout) <= TOL_EXACT:
            return rec.fail(case, "eq2sdss: separation %.15g deg became %.15g deg (changed by %.3g)" % (
                din, dout, abs(din - dout)))
        return rec.ok(case, outcome="pair:" + sepclass(din), nontrivial=bool(din < 1e-3 or din > 179), calls=1)

    S = refmat(False, "sdss", "eq")
    spoles = [lonlat(S @ np.array([1, 0, 0], dtype=LD)), lonlat(S @ np.array([-1, 0, 0], dtype=LD))]
    sd_pts = list(BASE) + list(gen)
    for c in [(0.0, 90.0), (0.0, -90.0)] + spoles:
        sd_pts += cap(c, DISTS, bearings)
    cut = []
    for cl in (0.0, 45.0, -60.0, 89.0):
        for ce in (180.0, -180.0, 179.999999999, -179.999999999, 179.999999999999):
            cut.append(lonlat(S @ sdss_vec(cl, ce)[:, 0]))
    sd_pts = dedupe(sd_pts + cut)
    OFFS = [0.0, 1e-9, -1e-9, 1e-6, -1e-6, 1e-3, -1e-3]
    sv_pts = []
    for cl in (0.0, 90.0, -90.0, 89.999999999, -89.999999999, 89.999999, 89.999, 45.0, -33.3, gen[0][1]):
        for ce in (0.0, 180.0, -180.0, -32.5, 57.5, -122.5, 147.5, 179.999999999, -179.999999999,
                   gen[0][0] - 180.0):
            sv_pts.append((cl, ce))
    for ce0 in (57.5, -122.5):          # the equatorial poles in survey coordinates
        for dc in OFFS:
            for de in OFFS:
                sv_pts.append((dc, ce0 + de))
    sv_pts = dedupe(sv_pts)
    sd_pairs = sd_pts
    sunits = [("eq", tuple(ch)) for ch in chunks(sd_pts, 30)]
    sunits += [("sv", tuple(ch)) for ch in chunks(sv_pts, 30)]
    for form in ("ndarray", "list"):
        sunits += [("arr", form, tuple(ch)) for ch in chunks(windows(sd_pts), 10)]
    sunits += [("pair", sd_pairs[i], tuple(sd_pairs[:i])) for i in range(1, len(sd_pairs))]
    sunits += [("long", n) for n in (99999, 100000, 100001, 200000, 65536, 1000000) + LONG_EXTRA]

    def expand_sdss(u):
        if u[0] == "long":
            yield u
        elif u[0] in ("eq", "sv"):
            for p in u[1]:
                yield (u[0], p[0], p[1])
        elif u[0] == "arr":
            for w in u[2]:
                yield ("arr", u[1], w)
        else:
            for q in u[2]:
                yield ("pair", q, u[1])

    ctx.lattice("sdss", sunits, guarded(one_sdss), expand=expand_sdss,
                fpstrict=True, bounds=dict(eq_points=len(sd_pts), survey_points=len(sv_pts), pair_points=len(sd_pairs),
                            cap_distances_deg=DISTS, bearings=bearings))

    # ------------------------------------------------------------ unit vectors
    def one_xyz(case, rec):
        kind = case[0]
        if kind == "eq":
            _, stomp, ra, dec = case
            x, y, z = coords.eq2xyz(ra, dec, stomp=stomp)
            if not (_is1d(x, 1) and _is1d(y, 1) and _is1d(z, 1)):
                return rec.fail(case, "eq2xyz(stomp=%s): result is not three float64 arrays of length 1: %r" % (stomp, (x, y, z)))
            if not _finite(x, y, z):
                return rec.fail(case, "eq2xyz(stomp=%s): output not finite: %r" % (stomp, (x.tolist(), y.tolist(), z.tolist())))
            v = np.array([x, y, z], dtype=LD)
            n2 = float(abs((v * v).sum() - 1))
            if not n2 <= ULP4:
                return rec.fail(case, "eq2xyz(stomp=%s): |x^2+y^2+z^2 - 1| = %.3g exceeds 4 ulp" % (stomp, n2))
            vin = vec(ra, dec)
            vref = refmat(False, "eq", "xyz-stomp" if stomp else "xyz") @ vin
            e = float(sep(v, vref)[0])
            if not e <= TOL_EXACT:
                return rec.fail(case, "eq2xyz(stomp=%s): vector %r is %.3g deg away from the unit vector of the point" % (
                    stomp, v[:, 0].astype("f8").tolist(), e))
            r2, d2 = coords.xyz2eq(x, y, z, stomp=stomp)
            if not check_lonlat(case, rec, "xyz2eq(stomp=%s) after eq2xyz" % stomp, r2, d2, 1, lon_closed=True):
                return
            e = float(sep(vec(r2, d2), vin)[0])
            if not e <= TOL_EXACT:
                return rec.fail(case, "eq2xyz then xyz2eq (stomp=%s): round trip is off by %.3g deg on the sky: back at %r" % (
                    stomp, e, (float(r2[0]), float(d2[0]))))
            r3, d3 = coords.xyz2eq(float(x[0]), float(y[0]), float(z[0]), stomp=stomp)
            if not (same_bits(r3, r2) and same_bits(d3, d2)):
                return rec.fail(case, "xyz2eq(stomp=%s): scalar arguments give %r, length-1 arrays %r" % (
                    stomp, (r3.tolist(), d3.tolist()), (r2.tolist(), d2.tolist())))
            dpole = 90.0 - abs(dec)
            oc = "eq-pole<=1e-3" if dpole <= 1e-3 else ("eq-cap<=10" if dpole <= 10 else (
                "ra=%g" % ra if ra in (0.0, 360.0) else "generic"))
            return rec.ok(case, outcome="eq:%s%s" % (oc, "+stomp" if stomp else ""), nontrivial=oc != "generic", calls=3)

        if kind == "vec":
            _, stomp, x, y, z = case
            ra, dec = coords.xyz2eq(x, y, z, stomp=stomp)
            if not check_lonlat(case, rec, "xyz2eq(stomp=%s)" % stomp, ra, dec, 1, lon_closed=True):
                return
            v = np.array([[x], [y], [z]], dtype=LD)
            veq = refmat(False, "xyz-stomp" if stomp else "xyz", "eq") @ v
            e = float(sep(vec(ra, dec), veq)[0])
            if not e <= TOL_EXACT:
                return rec.fail(case, "xyz2eq(stomp=%s): result %r is %.3g deg away from the direction of the vector %r" % (
                    stomp, (float(ra[0]), float(dec[0])), e, lonlat(veq[:, 0])))
            x2, y2, z2 = coords.eq2xyz(float(ra[0]), float(dec[0]), stomp=stomp)
            e = float(sep(np.array([x2, y2, z2], dtype=LD), v)[0])
            if not e <= TOL_EXACT:
                return rec.fail(case, "xyz2eq then eq2xyz (stomp=%s): round trip is off by %.3g deg: back at %r" % (
                    stomp, e, (float(x2[0]), float(y2[0]), float(z2[0]))))
            oc = "ra=360" if float(ra[0]) == 360.0 else ("pole" if abs(float(dec[0])) == 90.0 else (
                "axis" if sorted(map(abs, (x, y, z)))[1] == 0 else "generic"))
            return rec.ok(case, outcome="vec:%s%s" % (oc, "+stomp" if stomp else ""), nontrivial=oc != "generic", calls=2)

        if kind == "arr":
            _, stomp, form, pts = case
            ra = [p[0] for p in pts]
            dec = [p[1] for p in pts]
            if form == "ndarray":
                ara, adec = np.array(ra), np.array(dec)
            else:
                ara, adec = list(ra), list(dec)
            x, y, z = coords.eq2xyz(ara, adec, stomp=stomp)
            n = len(pts)
            if not (_is1d(x, n) and _is1d(y, n) and _is1d(z, n)):
                return rec.fail(case, "eq2xyz(stomp=%s): result is not three float64 arrays of length %d: %r" % (stomp, n, (x, y, z)))
            keep = (x.copy(), y.copy(), z.copy())
            r2, d2 = coords.xyz2eq(x, y, z, stomp=stomp)
            if not check_lonlat(case, rec, "xyz2eq(stomp=%s, array)" % stomp, r2, d2, n, lon_closed=True):
                return
            if form == "ndarray" and not (same_bits(ara, np.array(ra)) and same_bits(adec, np.array(dec))):
                return rec.fail(case, "eq2xyz(stomp=%s): the input array was modified in place: %r %r" % (
                    stomp, ara.tolist(), adec.tolist()))
            if not (same_bits(x, keep[0]) and same_bits(y, keep[1]) and same_bits(z, keep[2])):
                return rec.fail(case, "xyz2eq(stomp=%s): the input array was modified in place: %r" % (
                    stomp, (x.tolist(), y.tolist(), z.tolist())))
            for i, (a, d) in enumerate(pts):
                sx, sy, sz = coords.eq2xyz(a, d, stomp=stomp)
                if not (same_bits(sx, x[i:i + 1]) and same_bits(sy, y[i:i + 1]) and same_bits(sz, z[i:i + 1])):
                    return rec.fail(case, "eq2xyz(stomp=%s): element %d of the array result differs from the scalar call: %r vs %r" % (
                        stomp, i, (float(x[i]), float(y[i]), float(z[i])), (sx.tolist(), sy.tolist(), sz.tolist())))
                sr, sd = coords.xyz2eq(sx, sy, sz, stomp=stomp)
                if not (same_bits(sr, r2[i:i + 1]) and same_bits(sd, d2[i:i + 1])):
                    return rec.fail(case, "xyz2eq(stomp=%s): element %d of the array result differs from the scalar call: %r vs %r" % (
                        stomp, i, (float(r2[i]), float(d2[i])), (sr.tolist(), sd.tolist())))
            return rec.ok(case, outcome="arr:%s-of-%d" % (form, n), nontrivial=n > 1, calls=2 + 2 * n)

        if kind == "rad":
            # the radians spelling of the same conversion, called twice with the SAME argument arrays
            _, stomp, pts = case
            ra = np.array([p[0] for p in pts])
            dec = np.array([p[1] for p in pts])
            ara, adec = np.deg2rad(ra), np.deg2rad(dec)
            k1, k2 = ara.copy(), adec.copy()
            x, y, z = coords.eq2xyz(ara, adec, units="rad", stomp=stomp)
            n = len(pts)
            if not (_is1d(x, n) and _is1d(y, n) and _is1d(z, n) and _finite(x, y, z)):
                return rec.fail(case, "eq2xyz(units='rad', stomp=%s): bad result %r" % (stomp, (x, y, z)))
            vref = refmat(False, "eq", "xyz-stomp" if stomp else "xyz") @ vec(ra, dec)
            e = float(sep(np.array([x, y, z], dtype=LD), vref).max())
            if not e <= TOL_EXACT:
                return rec.fail(case, "eq2xyz(units='rad', stomp=%s): vectors are up to %.3g deg away from the unit vectors of "
                                      "the points" % (stomp, e))
            if not (same_bits(ara, k1) and same_bits(adec, k2)):
                return rec.fail(case, "eq2xyz(units='rad', stomp=%s): the input array was modified in place" % stomp)
            x2, y2, z2 = coords.eq2xyz(ara, adec, units="rad", stomp=stomp)
            if not (same_bits(x, x2) and same_bits(y, y2) and same_bits(z, z2)):
                return rec.fail(case, "eq2xyz(units='rad', stomp=%s): a second call with the same arrays gives another result" % stomp)
            return rec.ok(case, outcome="rad-of-%d%s" % (n, "+stomp" if stomp else ""), nontrivial=True, calls=2)

        _, stomp, p, q = case
        x, y, z = coords.eq2xyz(np.array([p[0], q[0]]), np.array([p[1], q[1]]), stomp=stomp)
        if not (_is1d(x, 2) and _is1d(y, 2) and _is1d(z, 2) and _finite(x, y, z)):
            return rec.fail(case, "eq2xyz(stomp=%s): bad result for a pair: %r" % (stomp, (x, y, z)))
        vin = vec([p[0], q[0]], [p[1], q[1]])
        vout = np.array([x, y, z], dtype=LD)
        din = float(sep(vin[:, 0], vin[:, 1])[0])
        dout = float(sep(vout[:, 0], vout[:, 1])[0])
        if not abs(din - dout) <= TOL_EXACT:
            return rec.fail(case, "eq2xyz(stomp=%s): separation %.15g deg became %.15g deg (changed by %.3g)" % (
                stomp, din, dout, abs(din - dout)))
        return rec.ok(case, outcome="pair:" + sepclass(din), nontrivial=bool(din < 1e-3 or din > 179), calls=1)

    xy_pts = list(BASE) + list(gen)
    for c in [(0.0, 90.0), (0.0, -90.0)]:
        xy_pts += cap(c, DISTS, bearings)
    for c in [(0.0, 0.0), (180.0, 0.0), (95.0, 0.0), (275.0, 0.0)]:     # the ra cut of both conventions
        xy_pts += cap(c, [1e-9, 1e-6, 1e-3], bearings)
    # a fine ladder of longitudes next to the cuts (a snap-to-zero with an absolute tolerance eats everything below it)
    for cut in (0.0, 360.0, 95.0, 275.0, 180.0):
        for d in (2e-15, 1e-13, 1e-12, 1e-11, 1e-10, 3e-10, 2e-9, 4e-9, 8e-9, 2e-8, 5e-8, 1e-7):
            for dec_ in (0.0, 33.0):
                xy_pts.append((cut + d if cut < 360.0 else d, dec_))
                xy_pts.append(((cut - d) % 360.0, dec_))
    xy_pts = dedupe(xy_pts)
    r3 = 0.5773502691896258
    VECS = [(1.0, 0.0, 0.0), (0.0, 1.0, 0.0), (0.0, 0.0, 1.0), (-1.0, 0.0, 0.0), (0.0, -1.0, 0.0), (0.0, 0.0, -1.0),
            (1.0, -1e-17, 0.0), (1.0, 1e-17, 0.0), (-1.0, -1e-17, 0.0), (-1.0, 1e-17, 0.0), (1.0, -1e-300, 0.0),
            (1e-17, 0.0, 1.0), (0.0, -1e-17, -1.0), (1e-9, 1e-9, 1.0), (0.6, 0.8, 0.0), (0.6, 0.0, -0.8),
            (0.0, -0.6, 0.8), (r3, r3, r3), (-r3, r3, -r3), (1.0, 0.0, 1e-17), (1.0, 0.0, -1e-9)]
    for d in (0.0, 1e-14, -1e-14, 1e-9, -1e-9):   # the ra = 0/360 cut of the stomp convention
        v = vec(LD(-NODE) + LD(d), 0.0)[:, 0].astype("f8")
        VECS.append((float(v[0]), float(v[1]), float(v[2])))
    VECS = dedupe(VECS)
    xy_pairs = xy_pts
    xunits = []
    for stomp in (False, True):
        xunits += [("eq", stomp, tuple(ch)) for ch in chunks(xy_pts, 30)]
        xunits += [("vec", stomp, tuple(VECS))]
        for form in ("ndarray", "list"):
            xunits += [("arr", stomp, form, tuple(ch)) for ch in chunks(windows(xy_pts), 10)]
        xunits += [("pair", stomp, xy_pairs[i], tuple(xy_pairs[:i])) for i in range(1, len(xy_pairs))]
        xunits += [("rad", stomp, tuple(ch)) for ch in chunks(windows(xy_pts), 10)]
        xunits += [("arr", stomp, "ndarray", ((),))]      # empty arrays: eq2xyz -> xyz2eq of nothing is nothing

    def expand_xyz(u):
        if u[0] == "eq":
            for p in u[2]:
                yield ("eq", u[1], p[0], p[1])
        elif u[0] == "vec":
            for v in u[2]:
                yield ("vec", u[1], v[0], v[1], v[2])
        elif u[0] == "arr":
            for w in u[3]:
                yield ("arr", u[1], u[2], w)
        elif u[0] == "rad":
            for w in u[2]:
                yield ("rad", u[1], w)
        else:
            for q in u[3]:
                yield ("pair", u[1], q, u[2])

    ctx.lattice("xyz", xunits, guarded(one_xyz), expand=expand_xyz,
                fpstrict=True, bounds=dict(eq_points=len(xy_pts), vectors=len(VECS), pair_points=len(xy_pairs),
                            stomp=[False, True], units=["deg", "rad (eq2xyz only: forward, non-modification, repeatability)"]))

    # ------------------------------------------------------------ rotate
    # (angles beyond one turn too: an accumulated spin angle is a legitimate Euler angle)
    ANG = [0.0, 10.0, -10.0, 8.0, 90.0, 123.0, 180.0, 270.0, 360.0, 725.0, -1000.0] + ctx.pick([], [33.3, -round(gen[1][0] / 2, 1), 1234.5])
    RDISTS = [1e-9, 1e-6, 1e-3, 1.0]

    def rot_matrix(phi, theta, psi):
        """the code's z-x-z composition; used ONLY to place input points on the target poles"""
        return _rz(psi) @ _rx(-theta) @ _rz(-phi)

    def rot_points(phi, theta, psi):
        M = rot_matrix(phi, theta, psi)
        z = np.array([0, 0, 1], dtype=LD)
        pts = list(BASE) + list(gen)
        for c in [(0.0, 90.0), (0.0, -90.0), lonlat(M.T @ z), lonlat(M.T @ (-z))]:
            pts += cap(c, RDISTS, bearings)
        # the same pole pre-images in plain decimal arithmetic (exact when the angles are decimal)
        t = abs(theta) % 360.0
        for d in (90.0 - t, t - 90.0, 270.0 - t, t - 270.0):
            if abs(d) <= 90.0:
                pts += [((90.0 - phi) % 360.0, d), ((270.0 - phi) % 360.0, d)]
        return dedupe(pts)

    RPAIR = dedupe(list(BASE[:13]) + list(gen))

    def check_rot(case, rec, what, ro, do, n):
        if n is None:
            if not (np.ndim(ro) == 0 and np.ndim(do) == 0 and isinstance(ro, (float, np.floating))
                    and isinstance(do, (float, np.floating))):
                rec.fail(case, "%s: scalar input did not give a pair of scalars: %r %r" % (what, ro, do))
                return False
            ro, do = np.array([ro]), np.array([do])
        elif not (_is1d(ro, n) and _is1d(do, n)):
            rec.fail(case, "%s: result is not a pair of float64 arrays of length %d: %r %r" % (what, n, ro, do))
            return False
        if not _finite(ro, do):
            rec.fail(case, "%s: output not finite: ra=%r dec=%r" % (what, ro.tolist(), do.tolist()))
            return False
        if ro.min() < 0.0 or ro.max() >= 360.0:
            rec.fail(case, "%s: ra outside [0,360): %r" % (what, ro.tolist()))
            return False
        if np.abs(do).max() > 90.0:
            rec.fail(case, "%s: dec outside [-90,90]: %r" % (what, do.tolist()))
            return False
        return True

    def one_rot(case, rec):
        kind = case[0]
        phi, theta, psi = case[1]
        if kind == "pt":
            _, _, ra, dec = case
            ro, do = coords.rotate(phi, theta, psi, ra, dec)
            if not check_rot(case, rec, "rotate", ro, do, None):
                return
            rb, db = coords.rotate(psi, -theta, phi, ro, do)
            if not check_rot(case, rec, "inverse rotate", rb, db, None):
                return
            vin = vec(ra, dec)
            e = float(sep(vec(rb, db), vin)[0])
            if not e <= TOL_ROT:
                return rec.fail(case, "rotate then rotate with psi,-theta,phi: round trip is off by %.3g deg: "
                                "via %r back at %r" % (e, (float(ro), float(do)), (float(rb), float(db))))
            dt = 90.0 - abs(float(do))
            oc = "target-pole<=1e-3" if dt <= 1e-3 else ("target-cap<=10" if dt <= 10 else (
                "source-cap<=10" if 90.0 - abs(dec) <= 10 else "generic"))
            if theta in (0.0, 180.0, 360.0):
                oc += "+theta-multiple-of-180"
            return rec.ok(case, outcome="pt:" + oc, nontrivial=not oc.startswith("generic"), calls=2)
        if kind == "arr":
            _, _, form, pts = case
            ra = [p[0] for p in pts]
            dec = [p[1] for p in pts]
            if form == "ndarray":
                ara, adec = np.array(ra), np.array(dec)
            else:
                ara, adec = list(ra), list(dec)
            ro, do = coords.rotate(phi, theta, psi, ara, adec)
            if not check_rot(case, rec, "rotate (%s)" % form, ro, do, len(pts)):
                return
            if form == "ndarray" and not (same_bits(ara, np.array(ra)) and same_bits(adec, np.array(dec))):
                return rec.fail(case, "rotate: the input array was modified in place: %r %r" % (ara.tolist(), adec.tolist()))
            for i, (a, d) in enumerate(pts):
                so, sd = coords.rotate(phi, theta, psi, a, d)
                if not (same_bits(np.float64(so), ro[i]) and same_bits(np.float64(sd), do[i])):
                    return rec.fail(case, "rotate: element %d of the array result %r differs from the scalar call %r" % (
                        i, (float(ro[i]), float(do[i])), (float(so), float(sd))))
            return rec.ok(case, outcome="arr:%s-of-%d" % (form, len(pts)), nontrivial=len(pts) > 1, calls=1 + len(pts))
        _, _, p, q = case
        ro, do = coords.rotate(phi, theta, psi, np.array([p[0], q[0]]), np.array([p[1], q[1]]))
        if not check_rot(case, rec, "rotate (pair)", ro, do, 2):
            return
        vin = vec([p[0], q[0]], [p[1], q[1]])
        vout = vec(ro, do)
        din = float(sep(vin[:, 0], vin[:, 1])[0])
        dout = float(sep(vout[:, 0], vout[:, 1])[0])
        if not abs(din - dout) <= TOL_ROT:
            return rec.fail(case, "rotate: separation %.12g deg became %.12g deg (changed by %.3g)" % (
                din, dout, abs(din - dout)))
        return rec.ok(case, outcome="pair:" + sepclass(din), nontrivial=bool(din < 1e-3 or din > 179), calls=1)

    runits = [(a, b, c) for a in ANG for b in ANG for c in ANG]

    def expand_rot(u):
        pts = rot_points(*u)
        for (ra, dec) in pts:
            yield ("pt", u, ra, dec)
        wins = windows(pts)
        for w in wins[::ctx.pick(4, 1)]:
            yield ("arr", u, "ndarray", w)
        yield ("arr", u, "list", wins[0])
        for i in range(1, len(RPAIR)):
            for j in range(i):
                yield ("pair", u, RPAIR[j], RPAIR[i])

    ctx.lattice("rotate", runits, guarded(one_rot), expand=expand_rot,
                fpstrict=True, bounds=dict(angles=ANG, triples=len(runits), cap_distances_deg=RDISTS, bearings=bearings,
                            pair_points=len(RPAIR)))

    # ------------------------------------------------------------ shiftlon / shiftra
    LONS = [0.0, 1e-12, 0.3, 10.0, 179.9999, 180.0, 180.0001, 350.0, 359.999999999, gen[0][0], gen[1][0]]
    SHIFTS = [None, 0, 10, -10, 350, -350, 360, -360, 725, -725, 0.5, 1e-9, -1e-9, 10.0, -10.0, 180.0,
              0.30000000000000004, 1e-17, -1e-17,
              1000000.5, -1000000.5, round(gen[2][0], 2), -round(gen[2][0], 2)]

    def shift_oracle(case, rec, what, out, lons, shift, wrap):
        n = len(lons)
        if not _is1d(out, n):
            rec.fail(case, "%s: result is not a float64 array of length %d: %r" % (what, n, out))
            return None
        if not _finite(out):
            rec.fail(case, "%s: output not finite: %r" % (what, out.tolist()))
            return None
        cls = set()
        for lon, o in zip(lons, out.tolist()):
            if shift is not None:
                if not (0.0 <= o < 360.0):
                    rec.fail(case, "%s: result %r outside [0,360) for lon=%r" % (what, o, lon))
                    return None
                want = LD(lon) - LD(shift)
            elif wrap:
                if not (-180.0 <= o <= 180.0):
                    rec.fail(case, "%s: wrapped result %r outside [-180,180] for lon=%r" % (what, o, lon))
                    return None
                want = LD(lon)
            else:
                if o != lon:
                    rec.fail(case, "%s: wrap=False without shift changed lon=%r to %r" % (what, lon, o))
                    return None
                cls.add("identity")
                continue
            k = (LD(o) - want) / 360
            kr = np.round(k)
            if not float(abs(k - kr)) * 360.0 <= 1e-12:
                rec.fail(case, "%s: result %r for lon=%r is not lon - shift modulo 360 (off by %.3g deg)" % (
                    what, o, lon, float(abs(k - kr)) * 360.0))
                return None
            base = "shift" if shift is not None else "wrap"
            cls.add("%s:%s" % (base, "same-turn" if kr == 0 else ("turn+%d" % kr if kr > 0 else "turn%d" % kr))
                    if abs(kr) <= 1 else "%s:many-turns" % base)
        return cls

    def one_shift(case, rec):
        fname, form, lons, shift, wrap = case
        f = getattr(coords, fname)
        what = "%s(shift=%r, wrap=%r)" % (fname, shift, wrap)
        if form == "scalar":
            arg = lons[0]
        elif form == "ndarray":
            arg = np.array(lons)
        else:
            arg = list(lons)
        out = f(arg, shift=shift, wrap=wrap)
        cls = shift_oracle(case, rec, what, out, lons, shift, wrap)
        if cls is None:
            return
        if form == "ndarray" and not same_bits(arg, np.array(lons)):
            return rec.fail(case, "%s: the input array was modified in place: %r" % (what, arg.tolist()))
        ncall = 1
        if form != "scalar":
            for i, lon in enumerate(lons):
                s = f(lon, shift=shift, wrap=wrap)
                ncall += 1
                if not same_bits(s, out[i:i + 1]):
                    return rec.fail(case, "%s: element %d of the array result %r differs from the scalar call %r" % (
                        what, i, float(out[i]), s.tolist()))
        if shift is not None:
            # the wrap flag has no effect when a shift is given
            o2 = f(arg, shift=shift, wrap=not wrap)
            ncall += 1
            if not same_bits(o2, out):
                return rec.fail(case, "%s: result %r changes to %r with wrap=%r" % (what, out.tolist(), o2.tolist(), not wrap))
        oc = "+".join(sorted(cls))
        return rec.ok(case, outcome=oc, nontrivial=oc not in ("shift:same-turn", "wrap:same-turn", "identity"),
                      calls=ncall)

    shunits = []
    for fname in ("shiftlon", "shiftra"):
        for shift in SHIFTS:
            for wrap in (True, False):
                shunits.append((fname, shift, wrap))

    def expand_shift(u):
        fname, shift, wrap = u
        for lon in LONS:
            yield (fname, "scalar", (lon,), shift, wrap)
        for w in [tuple(LONS[i:i + 3]) for i in range(0, len(LONS), 3)] + [tuple(LONS)]:
            yield (fname, "ndarray", w, shift, wrap)
        yield (fname, "list", tuple(LONS[:4]), shift, wrap)

    ctx.lattice("shiftlon", shunits, guarded(one_shift), expand=expand_shift,
                fpstrict=True, bounds=dict(lons=LONS, shifts=[repr(s) for s in SHIFTS], wrap=[True, False],
                            functions=["shiftlon", "shiftra"]))

    # ------------------------------------------------------------ shiftlon / shiftra next to the fold
    # For every shift of a small alphabet (both signs, int and float, beyond one turn, fractions that are not
    # binary) the longitudes 0..FOLD_ULPS representable doubles below and above the FOLD POINT of that shift (the
    # longitude at which lon - shift reaches a multiple of 360: the result has to jump from just under 360 to 0
    # there), plus the same ladder at the ends of the input interval (0 and the double below 360) and, for the
    # wrap, around 180.  The sum/difference near 360 is rounded on a coarser grid than the input, so a decision
    # taken on anything but the final value shows up only on this ladder.  Reference: the same shift_oracle
    # (long double congruence, half-open range) - never esutil.
    FOLD_ULPS = 4
    FOLD_MAGS = [10, 90, 180, 260, 310, 350, 359, 725, 980, 7.5, 352.5, 0.1, 0.3, 1e-3, 123.456, 33.3, 299.7,
                 359.9, 1082.5, round(gen[2][0], 2)]
    FOLD_SHIFTS = []
    for m in FOLD_MAGS:
        FOLD_SHIFTS += [m, -m]
        if isinstance(m, int):
            FOLD_SHIFTS += [float(m), -float(m)]

    def ulp_ladder(x, k):
        """x and its k neighbours on each side, kept inside [0,360); python floats"""
        out = [x] if 0.0 <= x < 360.0 else []
        lo = hi = x
        for _ in range(k):
            lo = math.nextafter(lo, -math.inf)
            hi = math.nextafter(hi, math.inf)
            if 0.0 <= lo < 360.0:
                out.insert(0, lo)
            if 0.0 <= hi < 360.0:
                out.append(hi)
        return out

    def fold_lons(shift):
        if shift is None:
            centres = [180.0, 0.0, 360.0]
        else:
            f = math.fmod(float(shift), 360.0)      # exact
            if f < 0:
                f += 360.0                          # exact or the nearest double to the fold
            centres = [f, 0.0, 360.0]
            if f != 0.0:
                centres.append(360.0 - f)           # fold point of the opposite shift: result lands next to 2f/0
        lons = []
        for c in centres:
            lons += ulp_ladder(c, FOLD_ULPS)
        return dedupe(lons)

    funits = [(fname, shift) for fname in ("shiftlon", "shiftra") for shift in [None] + FOLD_SHIFTS]

    def expand_fold(u):
        fname, shift = u
        lons = fold_lons(shift)
        for wrap in ((True, False) if shift is None else (True,)):
            for lon in lons:
                yield (fname, "scalar", (lon,), shift, wrap)
            # the ladder as one array (the fold decision is taken per element), framed by ordinary values
            yield (fname, "ndarray", tuple([1.0] + lons + [200.0]), shift, wrap)
            yield (fname, "list", tuple(lons[:5]), shift, wrap)

    ctx.lattice("shiftlon-folds", funits, guarded(one_shift), expand=expand_fold,
                fpstrict=True, bounds=dict(shifts=[repr(s) for s in [None] + FOLD_SHIFTS], ulps_each_side=FOLD_ULPS,
                            ladders="fold point (shift mod 360), 360 - fold point, 0, 360 (inside [0,360)); 180 for the wrap",
                            functions=["shiftlon", "shiftra"], forms=["scalar", "ndarray", "list"]))

    # ------------------------------------------------------------ chains (E2)
    EDGES = {
        ("eq", "gal"): "eq2gal", ("gal", "eq"): "gal2eq", ("eq", "ec"): "eq2ec", ("ec", "eq"): "ec2eq",
        ("ec", "gal"): "ec2gal", ("gal", "ec"): "gal2ec",
        ("eq", "sdss"): "eq2sdss", ("sdss", "eq"): "sdss2eq", ("eq", "xyz"): "eq2xyz", ("xyz", "eq"): "xyz2eq",
    }
    EULER_EDGES = ("eq2gal", "gal2eq", "eq2ec", "ec2eq", "ec2gal", "gal2ec")
    MENU = {f: tuple(("to", d) for (s, d) in EDGES if s == f) for f in ("eq", "gal", "ec", "sdss", "xyz")}

    def convert(name, arrs, b1950):
        f = getattr(coords, name)
        if name in EULER_EDGES:
            return tuple(f(arrs[0], arrs[1], b1950=b1950))
        return tuple(f(*arrs))

    def cart(frame, arrs):
        """cartesian vectors, in the frame's own axes, of a result"""
        if frame == "sdss":
            return sdss_vec(arrs[0], arrs[1])
        if frame == "xyz":
            return np.array(arrs, dtype=LD)
        return vec(arrs[0], arrs[1])

    def execute(hist, rec):
        (_, b1950, frame0, pts) = hist[0]
        n = len(pts)
        start = (np.array([p[0] for p in pts]), np.array([p[1] for p in pts]))
        held = [(start, tuple(a.copy() for a in start), "the start arrays")]
        frame = frame0
        cur = start
        names = []
        for k, ev in enumerate(hist[1:]):
            name = EDGES[(frame, ev[1])]
            try:
                out = convert(name, cur, b1950)
            except Exception as e:
                rec.fail(hist, "chain (%s): %s raised %s: %s" % ("->".join([frame0] + [e_[1] for e_ in hist[1:k + 2]]),
                                                                name, type(e).__name__, str(e)[:200]))
                return None
            names.append(name)
            held.append((out, tuple(np.array(a, copy=True) for a in out), "the result of step %d (%s)" % (k + 1, name)))
            cur = out
            frame = ev[1]
        path = "(%s b1950=%s)" % ("->".join([frame0] + [e_[1] for e_ in hist[1:]]), b1950)
        tol = TOL_ROT if any(nm in EULER_EDGES for nm in names) else TOL_EXACT
        if names:
            last = names[-1]
            # shape / finiteness / ranges of the last result
            if frame == "xyz":
                if not (len(cur) == 3 and all(_is1d(a, n) for a in cur)):
                    rec.fail(hist, "chain %s: %s did not return three float64 arrays of length %d" % (path, last, n))
                    return None
                if not _finite(*cur):
                    rec.fail(hist, "chain %s: %s output not finite: %r" % (path, last, [a.tolist() for a in cur]))
                    return None
                v = np.array(cur, dtype=LD)
                if not float(np.abs((v * v).sum(0) - 1).max()) <= ULP4:
                    rec.fail(hist, "chain %s: %s vectors are not of unit length within 4 ulp" % (path, last))
                    return None
            elif frame == "sdss":
                if not sdss_fwd_checks(hist, rec, cur[0], cur[1], n, "chain %s: %s" % (path, last)):
                    return None
            else:
                if not check_lonlat(hist, rec, "chain %s: %s" % (path, last), cur[0], cur[1], n,
                                    lon_closed=last in ("sdss2eq", "xyz2eq")):
                    return None
            vcur = cart(frame, cur)
            vstart = vec(start[0], start[1])
            # (a) the reference rotation applied to the start points
            e = sep(vcur, refmat(b1950, frame0, frame) @ vstart)
            if not float(e.max()) <= tol:
                i = int(e.argmax())
                rec.fail(hist, "chain %s: point %d ends %.3g deg away from the reference rotation of the start point" % (
                    path, i, float(e.max())))
                return None
            # (b) the direct conversion / the start point when the chain closes
            if frame == frame0:
                e = sep(vcur, vstart)
                if not float(e.max()) <= tol:
                    rec.fail(hist, "closed chain %s: point %d ends %.3g deg away from where it started" % (
                        path, int(e.argmax()), float(e.max())))
                    return None
                rec.count("closed chains")
            elif (frame0, frame) in EDGES and len(names) > 1:
                direct = convert(EDGES[(frame0, frame)], start, b1950)
                e = sep(vcur, cart(frame, direct))
                if not float(e.max()) <= tol:
                    rec.fail(hist, "chain %s: point %d ends %.3g deg away from the direct conversion (%s)" % (
                        path, int(e.argmax()), float(e.max()), EDGES[(frame0, frame)]))
                    return None
                rec.count("chains compared with the direct conversion")
            # (c) nothing handed out or taken in earlier was modified by a later conversion
            for arrs, copies, what in held:
                for a, c in zip(arrs, copies):
                    if not same_bits(a, c):
                        rec.fail(hist, "chain %s: %s changed after later conversions: %r, was %r" % (
                            path, what, np.asarray(a).tolist(), c.tolist()))
                        return None
        key = fingerprint(b1950, frame0, frame, [np.asarray(a) for a in cur], pts)
        return key, MENU[frame]

    clen = ctx.pick(4, 6)
    roots = []
    cb = ctx.pick(BEARINGS4[:2], BEARINGS4)
    for b1950 in (False, True):
        for frame0 in ("eq", "gal", "ec"):
            pts = list(BASE) + list(gen)
            for f in ("eq", "gal", "ec"):
                for p in poles_of(b1950, f, frame0):
                    pts += cap(p, ctx.pick([1e-9, 1e-6, 1e-3], [1e-9, 1e-7, 1e-5, 1e-3, 0.1]), cb)
            pts = dedupe(pts)
            for g in chunks(pts, 4):
                roots.append((("start", b1950, frame0, tuple(g)),))
    ctx.histories("chains", roots, execute, depth=clen + 1, nodedup_depth=2,
                  bounds=dict(max_chain_length=clen, roots=len(roots), group_size=4,
                              frames=["eq", "gal", "ec", "sdss", "xyz"], edges=sorted(EDGES.values())))

    # ------------------------------------------------------------ many distinct rotations, then each of them again
    from mc.worlds import revisit
    from esutil import coords as _cr
    TRIPLES = [(round(7.5 * k, 3), round(-80.0 + 4.1 * k, 3), round(360.0 - 11.0 * k, 3)) for k in range(45)]
    PRA, PDEC = np.array([10.0, 200.0, 359.5]), np.array([20.0, -45.0, 89.0])
    revisit(ctx, "revisit-after-many-distinct-calls", {
        "rotate(45 Euler triples)": (lambda: None, [("rotate",) + t for t in TRIPLES], lambda o, c: list(_cr.rotate(c[1], c[2], c[3], PRA.copy(), PDEC.copy()))),
        "euler(6 selections x epochs, shifted inputs)": (lambda: None, [("euler", 1 + (k % 6), bool(k % 2), 0.37 * k) for k in range(48)],
                                                         lambda o, c: list(_cr.euler(PRA + c[3], PDEC * 0.5, c[1], b1950=c[2]))),
        "eq2sdss/sdss2eq(45 inputs)": (lambda: None, [("sdss", 3.3 * k) for k in range(45)], lambda o, c: list(_cr.eq2sdss(PRA + c[1], PDEC * 0.9)) + list(_cr.sdss2eq(PRA * 0.1 - 20 + c[1] * 0.1, PDEC * 0.3))),
    })
