"""C02 - row/column subset reads equal indexing the fully-read table (E1 + E2)."""
import itertools
import os

import numpy as np

from mc.oracle import table as T

RULE = (
    "stored 4-field table (i4, f8 (2,), S3, i2; little- and big-endian variants; a variant with other item sizes; a variant whose string cells contain every delimiter character) with n rows, binary "
    "and text; rows: every scalar in [-n-2,n+2], every sequence over [0,n] of length <=L (n = the "
    "out-of-range row) as list/tuple/i8/i4/u2 array, every slice(a,b,s) with a,b in {None} U [-n-2,n+2], "
    "s in {None,1,2,3}; columns: every ordered non-empty subset of the 4 names as list/tuple/array, "
    "every scalar name, one unknown name; every access style; rows and columns crossed pairwise "
    "(all rows x 5 column representatives, all columns x 5 row representatives); histories: every "
    "ordered pair (thorough: triple) of reads from a selection alphabet on one open handle vs fresh "
    "handles.  non-trivial = the selection is a proper subset, is unordered/has repeats, uses a "
    "negative or out-of-range bound, or must be rejected."
)
ASSUMPTIONS = [
    "row lists containing negative members and the empty row list are not constrained by the statement and are not enumerated",
    "an out-of-range scalar row is treated as the one-element out-of-range row list and must be rejected",
    "cell values are exactly representable in text (integers, dyadic floats, space-free strings) so binary and text results can be compared bit-for-bit after byte-order normalisation",
]

NAMES = ["a", "x", "s", "h"]
DT = {
    "le": [("a", "<i4"), ("x", "<f8", (2,)), ("s", "S3"), ("h", "<i2")],
    "be": [("a", ">i4"), ("x", ">f8", (2,)), ("s", "S3"), ("h", ">i2")],
    # different item sizes / sub-array rank: other skip distances in the column readers
    "mix": [("a", "<u8"), ("x", "<f4", (2, 2)), ("s", "S1"), ("h", "i1")],
    # string cells that contain every delimiter character, blanks and NULs (fixed-width strings may): a text
    # reader that SKIPS this column must still skip exactly its width
    "hostile": [("a", "<i4"), ("x", "<f8", (2,)), ("s", "S5"), ("h", "<i2")],
    # very long text rows (a 70x70 sub-array: about 40 kB per row): readers that skip rows with a fixed-size
    # line buffer break only beyond that size
    "long": [("a", "<i4"), ("x", "<f8", (70, 70)), ("s", "S3"), ("h", "<i2")],
}
HOSTILE = [b"a,b:c", b"x\ty z", b"q,,,,", b"r::\t ", b"k , :", b"ab"]


def mk(tid, n):
    d = np.zeros(n, dtype=DT[tid])
    d["a"] = np.arange(n) + 100
    per = int(np.prod(d.dtype["x"].shape))
    d["x"] = (np.arange(per * n) / 4 + 0.5).reshape((n,) + d.dtype["x"].shape)
    if tid == "hostile":
        d["s"] = [HOSTILE[i % len(HOSTILE)] for i in range(n)]
    elif d.dtype["s"].itemsize == 1:
        d["s"] = [bytes([97 + i % 26]) for i in range(n)]
    else:
        d["s"] = [("r%d" % i).encode() for i in range(n)]
    d["h"] = -np.arange(n) - 1
    return d


def native(descr):
    out = []
    for d in descr:
        t = d[1]
        if t[0] == ">":
            t = "<" + t[1:]
        out.append((d[0], t) + tuple(d[2:]))
    return out


def build_rows(rsel):
    """literal -> python object handed to esutil"""
    if rsel is None:
        return None
    kind = rsel[0]
    if kind == "scalar":
        return rsel[1]
    if kind == "npscalar":
        return np.int64(rsel[1])
    if kind == "list":
        return list(rsel[1])
    if kind == "tuple":
        return tuple(rsel[1])
    if kind in ("i8", "i4", "u2"):
        return np.array(rsel[1], dtype=kind)
    if kind == "slice":
        return slice(rsel[1], rsel[2], rsel[3])
    raise ValueError(rsel)


def build_cols(csel):
    if csel is None:
        return None
    kind = csel[0]
    if kind == "scalar":
        return csel[1]
    if kind == "list":
        return list(csel[1])
    if kind == "tuple":
        return tuple(csel[1])
    if kind == "array":
        return np.array(csel[1])
    raise ValueError(csel)


def expected(Tab, rsel, csel, post):
    """-> ('reject',) | ('value', obj) | ('free',)   obj: array or tuple of arrays"""
    n = Tab.size
    # rows
    if rsel is None:
        rows = Tab
    elif rsel[0] in ("scalar", "npscalar"):
        r = rsel[1]
        if not (-n <= r < n):
            return ("reject",)
        rows = Tab[[r % n]]
    elif rsel[0] == "slice":
        rows = Tab[slice(rsel[1], rsel[2], rsel[3])]
    else:
        seq = list(rsel[1])
        if len(seq) == 0 or min(seq) < 0:
            return ("free",)
        if max(seq) >= n:
            return ("reject",)
        rows = Tab[sorted(set(seq))]
    # columns
    if csel is None:
        val = rows
        names = list(NAMES)
        scalar = False
    elif csel[0] == "scalar":
        if csel[1] not in NAMES:
            return ("reject",)
        val = np.ascontiguousarray(rows[csel[1]])
        names = [csel[1]]
        scalar = True
    else:
        if any(c not in NAMES for c in csel[1]):
            return ("reject",)
        names = [nm for nm in NAMES if nm in csel[1]]
        val = T.extract_columns(rows, names)
        scalar = False
    if post == "split":
        if scalar:
            return ("free",)
        return ("value", tuple(np.ascontiguousarray(val[nm]) for nm in names))
    if post == "reduce":
        if not scalar and len(names) == 1:
            return ("value", np.ascontiguousarray(val[names[0]]))
    return ("value", val)


# style -> (needs rows kind, supports slices, supports cols=None, post)
STYLES = {
    "R.read":            dict(slices=False),
    "R.read(fields)":    dict(slices=False),
    "R.get_subset":      dict(slices=False),
    "R[]":               dict(slices=True),
    "R[c].read(rows)":   dict(slices=False, needcols=True),
    "SF.read":           dict(slices=False),
    "SF[]":              dict(slices=True),
    "sfile.read":        dict(slices=False),
    "io.read":           dict(slices=False),
    "R.read(split)":     dict(slices=False, post="split"),
    "SF.read(split)":    dict(slices=False, post="split"),
    "SF.read(reduce)":   dict(slices=False, post="reduce"),
    "sfile.read(split)": dict(slices=False, post="split"),
    "sfile.read(reduce)": dict(slices=False, post="reduce"),
    # the same column selection given through the fields= keyword (a synonym of columns=)
    "SF.read(fields)":           dict(slices=False),
    "SF.read(fields,reduce)":    dict(slices=False, post="reduce"),
    "SF.read(fields,split)":     dict(slices=False, post="split"),
    "sfile.read(fields,reduce)": dict(slices=False, post="reduce"),
}


def main(ctx):
    # every lattice part once more under FP traps + warnings-as-errors (clean on the unchanged tree, see DESIGN section 0)
    ctx.envstrict_all = "small"
    import esutil
    from esutil import sfile

    files = {}

    def get_file(rec, tid, n, delim):
        key = (tid, n, delim, rec.tmp)
        if key not in files:
            fn = os.path.join(rec.tmp, "c02_%s_%d_%s.rec" % (tid, n, "bin" if delim is None else ord(delim)))
            Tab = mk(tid, n)
            sfile.write(fn, Tab, delim=delim)
            if delim is not None:
                Tab = Tab.astype(native(DT[tid]))
            files[key] = (fn, Tab)
        return files[key]

    def run_style(style, fn, sf, rows, cols):
        R = sf._robj
        if style == "R.read":
            return R.read(rows=rows, columns=cols)
        if style == "R.read(fields)":
            return R.read(rows=rows, fields=cols)
        if style == "R.get_subset":
            return R.get_subset(rows=rows, columns=cols).read()
        if style == "R[]":
            if cols is None:
                return R[rows]
            return R[cols][slice(None) if rows is None else rows]
        if style == "R[c].read(rows)":
            return R[cols].read(rows=rows)
        if style == "SF.read":
            return sf.read(rows=rows, columns=cols)
        if style == "SF.read(fields)":
            return sf.read(rows=rows, fields=cols)
        if style == "SF.read(fields,reduce)":
            return sf.read(rows=rows, fields=cols, reduce=True)
        if style == "SF.read(fields,split)":
            return sf.read(rows=rows, fields=cols, split=True)
        if style == "sfile.read(fields,reduce)":
            return sfile.read(fn, rows=rows, fields=cols, reduce=True)
        if style == "SF[]":
            if cols is None:
                return sf[rows]
            return sf[cols][slice(None) if rows is None else rows]
        if style == "sfile.read":
            return sfile.read(fn, rows=rows, columns=cols)
        if style == "io.read":
            return esutil.io.read(fn, rows=rows, columns=cols)
        if style == "R.read(split)":
            return R.read(rows=rows, columns=cols, split=True)
        if style == "SF.read(split)":
            return sf.read(rows=rows, columns=cols, split=True)
        if style == "SF.read(reduce)":
            return sf.read(rows=rows, columns=cols, reduce=True)
        if style == "sfile.read(split)":
            return sfile.read(fn, rows=rows, columns=cols, split=True)
        if style == "sfile.read(reduce)":
            return sfile.read(fn, rows=rows, columns=cols, reduce=True)
        raise ValueError(style)

    def compare(got, exp):
        if isinstance(exp, tuple):
            if not isinstance(got, (tuple, list)) or len(got) != len(exp):
                return "expected a tuple of %d arrays, got %r" % (len(exp), type(got).__name__)
            for g, e in zip(got, exp):
                m = T.same_plain(np.ascontiguousarray(g), e)
                if m:
                    return "split element: " + m
            return None
        if exp.dtype.names is None:
            if got is None:
                return "result is None"
            return T.same_plain(np.ascontiguousarray(got), exp)
        return T.same_table(got, exp)

    def one(case, rec):
        tid, n, delim, style, rsel, csel = case
        fn, Tab = get_file(rec, tid, n, delim)
        post = STYLES[style].get("post")
        exp = expected(Tab, rsel, csel, post)
        if exp[0] == "free":
            return
        rows = build_rows(rsel)
        cols = build_cols(csel)
        with sfile.SFile(fn) as sf:
            try:
                got = run_style(style, fn, sf, rows, cols)
                err = None
            except Exception as e:
                got = None
                err = "%s: %s" % (type(e).__name__, str(e)[:120])
        sel_nt = not (rsel is None and csel is None)
        if exp[0] == "reject":
            if err is None:
                return rec.fail(case, "out-of-range/unknown selection was accepted and returned %r" % (got,))
            return rec.ok(case, outcome="rejected", nontrivial=True)
        if err is not None:
            return rec.fail(case, "raised %s; expected %r" % (err, exp[1]))
        m = compare(got, exp[1])
        if m:
            return rec.fail(case, "%s; got %r expected %r" % (m, got, exp[1]))
        oc = "rows:%s cols:%s" % ("all" if rsel is None else rsel[0], "all" if csel is None else csel[0])
        rec.ok(case, outcome=oc, nontrivial=sel_nt)

    # ---------------------------------------------------------------- selections
    def row_selections(n, L):
        out = [None]
        for r in range(-n - 2, n + 3):
            out.append(("scalar", r))
        out.append(("npscalar", n - 1))
        out.append(("npscalar", n))
        for k in range(1, L + 1):
            for seq in itertools.product(range(0, n + 1), repeat=k):
                out.append(("list", seq))
        # other containers: all sequences up to length 2, plus the length-L ones with repeats
        for cont in ("tuple", "i8", "i4", "u2"):
            for k in range(1, min(L, 2) + 1):
                for seq in itertools.product(range(0, n + 1), repeat=k):
                    out.append((cont, seq))
            out.append((cont, tuple(range(n - 1, -1, -1))))
        return out

    def slice_selections(n):
        B = [None] + list(range(-n - 2, n + 3))
        return [("slice", a, b, s) for a in B for b in B for s in (None, 1, 2, 3)]

    def col_selections():
        out = [None]
        for nm in NAMES:
            out.append(("scalar", nm))
        out.append(("scalar", "zz"))
        for k in range(1, 5):
            for cols in itertools.permutations(NAMES, k):
                for cont in ("list", "tuple", "array"):
                    out.append((cont, cols))
        out.append(("list", ("a", "zz")))
        out.append(("array", ("zz",)))
        return out

    COL_REPS = [None, ("scalar", "x"), ("list", ("s", "a")), ("tuple", ("h",)), ("array", ("x", "h", "a"))]

    def row_reps(n):
        return [None, ("scalar", n - 1), ("list", (n - 1, 0, 0)), ("i4", (0,)), ("slice", 1, None, 2)]

    tids = ctx.pick(["le", "mix", "hostile"], ["le", "be", "mix", "hostile"])
    ns = ctx.pick([1, 3, 4], [1, 2, 3, 4, 6])
    ns_for = {"le": ns, "be": ns, "mix": ctx.pick([3], [1, 4]), "hostile": ctx.pick([3], [2, 6])}
    delims = ctx.pick([None, ","], [None, ",", ":", "\t", " "])
    L = ctx.pick(3, 4)

    units = [(tid, n, delim, style) for tid in tids for n in ns_for[tid] for delim in delims for style in STYLES]

    def expand(u):
        tid, n, delim, style = u
        st = STYLES[style]
        rs = row_selections(n, L) + (slice_selections(n) if st["slices"] else [])
        cs = col_selections()
        for rsel in rs:
            for csel in COL_REPS:
                if st.get("needcols") and csel is None:
                    continue
                yield (tid, n, delim, style, rsel, csel)
        for csel in cs:
            if st.get("needcols") and csel is None:
                continue
            for rsel in row_reps(n):
                if rsel is not None and rsel[0] == "slice" and not st["slices"]:
                    continue
                yield (tid, n, delim, style, rsel, csel)

    # longer row lists on a longer table: every 4-subset of 8 rows (ascending and one scrambled order) - fast paths
    # that classify a row list (evenly spaced? contiguous?) from a few of its elements need this many
    def expand_rl(u):
        tid, n, delim, style = u
        for comb in itertools.combinations(range(n), 4):
            yield (tid, n, delim, style, ("list", comb), None)
            yield (tid, n, delim, style, ("i8", (comb[2], comb[0], comb[3], comb[1])), ("list", ("h", "a")))
        for comb in itertools.combinations(range(n), 5):
            yield (tid, n, delim, style, ("list", comb), None)

    rlunits = [("le", 8, delim, style) for delim in (None, ",") for style in ("R.read", "SF[]", "sfile.read(split)")]
    ctx.lattice("row-lists-of-8", rlunits, one, expand=expand_rl, bounds=dict(rows=8, list_lengths=[4, 5]))

    # column names that differ only in case ('z' / 'Z', 'e1' / 'E1'): each name is its own column
    CASE_DT = [("z", "<i4"), ("Z", "<f8"), ("e1", "S3"), ("E1", "<i2")]

    def one_case(case, rec):
        delim, style, cols, rows = case
        key = ("case", delim, rec.tmp)
        if key not in files:
            fnc = os.path.join(rec.tmp, "c02_case_%s.rec" % ("bin" if delim is None else ord(delim)))
            tc = np.zeros(4, dtype=CASE_DT)
            tc["z"] = [1, 2, 3, 4]
            tc["Z"] = [10.5, 20.5, 30.5, 40.5]
            tc["e1"] = [b"a", b"b", b"c", b"d"]
            tc["E1"] = [-1, -2, -3, -4]
            sfile.write(fnc, tc, delim=delim)
            files[key] = (fnc, tc)
        fnc, tc = files[key]
        sub = tc if rows is None else tc[list(rows)]
        if isinstance(cols, str):
            exp = sub[cols]
        else:
            exp = T.extract_columns(sub, [c for c in tc.dtype.names if c in cols])
        if STYLES[style].get("post") == "split":
            exp = tuple(np.ascontiguousarray(exp[c]) for c in exp.dtype.names) if not isinstance(cols, str) else (exp,)
        try:
            with sfile.SFile(fnc) as sf:
                got = run_style(style, fnc, sf, None if rows is None else list(rows), cols if isinstance(cols, str) else list(cols))
        except Exception as e:
            return rec.fail(case, "raised %s: %s" % (type(e).__name__, str(e)[:150]))
        m = compare(got, exp)
        if m:
            return rec.fail(case, "columns %r of a table with fields z, Z, e1, E1: %s; got %r" % (cols, m, got))
        rec.ok(case, outcome="case-names", nontrivial=True)

    cnames = [d[0] for d in CASE_DT]
    csels = list(cnames) + [c for k in (2, 3) for c in itertools.permutations(cnames, k)]
    caseunits = [(delim, style, cs, rs) for delim in (None, ",") for style in ("R.read", "SF[]", "sfile.read", "R.read(split)")
                 for cs in csels for rs in (None, (1, 3)) if not (isinstance(cs, str) and style == "R.read(split)")]
    ctx.lattice("case-differing-names", caseunits, one_case, bounds=dict(fields=cnames, selections=len(csels)))

    # a large binary table (70000 rows of 16 bytes = 1.07 MiB): slices, row lists and column subsets that start, end
    # or step across the 64 KiB / 1 MiB marks - readers that fetch rows in blocks fail at particular boundaries only
    def one_big(case, rec):
        n, style, rsel, csel = case
        key = ("big", n, rec.tmp)
        if key not in files:
            fnb = os.path.join(rec.tmp, "c02_big_%d.rec" % n)
            tb = np.zeros(n, dtype=[("a", "<i8"), ("x", "<f8")])
            tb["a"] = np.arange(n) * 3 + 1
            tb["x"] = np.arange(n) / 8.0 - 5.0
            sfile.write(fnb, tb)
            files[key] = (fnb, tb)
        fnb, tb = files[key]
        rows = build_rows(rsel)
        cols = build_cols(csel)
        ex = expected(tb, rsel, csel, STYLES[style].get("post"))
        if ex[0] != "value":
            return
        exp = ex[1]
        try:
            with sfile.SFile(fnb) as sf:
                got = run_style(style, fnb, sf, rows, cols)
        except Exception as e:
            return rec.fail(case, "raised %s: %s" % (type(e).__name__, str(e)[:150]))
        m = compare(got, exp)
        if m:
            return rec.fail(case, "%s (large table, %d rows)" % (m, n))
        rec.ok(case, outcome="big:%s" % rsel[0] if rsel else "big:all", nontrivial=True)

    # long selections that agree on every cheap summary (length, first and last entries, minimum, maximum, sum, the
    # abbreviated text form numpy prints for arrays of more than 1000 entries) and differ only in the middle, read
    # one after the other on ONE handle: a reader that remembers its last selection by such a summary serves the
    # second read from the first (round 8)
    def lookalike(name, L):
        base = np.arange(0, L, dtype="i8") * 2            # even rows 0 .. 2L-2
        v = base.copy()
        mid = L // 2
        if name == "base":
            pass
        elif name == "one-middle-entry":
            v[mid] += 1
        elif name == "same-sum":
            v[mid - 1] -= 1
            v[mid + 1] += 1
        elif name == "middle-block-shifted":
            v[mid - 50:mid + 50] += 1
        elif name == "middle-swapped":
            v[mid - 3], v[mid + 3] = v[mid + 3], v[mid - 3]
        else:
            raise ValueError(name)
        return v

    LOOK = ["base", "one-middle-entry", "same-sum", "middle-block-shifted", "middle-swapped"]

    def one_lookalike(case, rec):
        n, L, style, first, second, container, csel = case
        key = ("big", n, rec.tmp)
        if key not in files:
            fnb = os.path.join(rec.tmp, "c02_big_%d.rec" % n)
            tb = np.zeros(n, dtype=[("a", "<i8"), ("x", "<f8")])
            tb["a"] = np.arange(n) * 3 + 1
            tb["x"] = np.arange(n) / 8.0 - 5.0
            sfile.write(fnb, tb)
            files[key] = (fnb, tb)
        fnb, tb = files[key]
        cols = build_cols(csel)
        calls = 0
        try:
            with sfile.SFile(fnb) as sf:
                for nm in (first, second, first):
                    r = lookalike(nm, L)
                    rows = r if container == "ndarray" else (r.astype("i4") if container == "i4" else [int(q) for q in r])
                    got = run_style(style, fnb, sf, rows, cols)
                    calls += 1
                    ex = expected(tb, ("i8", tuple(int(q) for q in r)), csel, None)
                    m = compare(got, ex[1])
                    if m:
                        return rec.fail(case, "selection %r (%d rows) read after %r on the same handle: %s" % (nm, L, first if nm == second else second, m))
        except Exception as e:
            return rec.fail(case, "raised %s: %s" % (type(e).__name__, str(e)[:150]))
        rec.ok(case, outcome="lookalike:%s/%s" % (first, second), nontrivial=first != second, calls=calls)

    lkunits = [(4200, L, style, a, b, cont, cs) for L in (1001, 1100, 2000) for style in ("SF[]", "SF.read", "R.read")
               for a in LOOK for b in LOOK if a != b for cont in ("ndarray", "list", "i4")
               for cs in (None, ("scalar", "x")) if not (cont != "ndarray" and (L != 1100 or cs is not None))]
    ctx.lattice("lookalike-selections-on-one-handle", lkunits, one_lookalike,
                bounds=dict(rows=4200, lengths=[1001, 1100, 2000], variants=LOOK, containers=["ndarray", "list", "i4"]))

    NB = 70000
    marks = [4096, 65536, 65537, 131072 // 2 - 1]
    bsel = [None, ("slice", 0, 65536, None), ("slice", 1, 65537, None), ("slice", 4095, 4097, None), ("slice", 65535, None, None),
            ("slice", 0, None, 4096), ("slice", 3, None, 65536), ("slice", NB - 1, None, None), ("slice", 0, NB, 7),
            ("list", (0, 4095, 4096, 65535, 65536, NB - 1)), ("list", (65536,)), ("i8", tuple(range(65530, 65545))),
            ("scalar", 65536), ("scalar", -1)]
    bigunits = [(NB, style, rs, cs) for style in ("R[]", "SF[]", "sfile.read") for rs in bsel
                for cs in (None, ("scalar", "x"), ("list", ("a",))) if not (rs is not None and rs[0] == "slice" and style == "sfile.read")]
    ctx.lattice("large-table-reads", bigunits, one_big, bounds=dict(rows=NB, row_bytes=16, selections=len(bsel)))

    # offsets beyond 2^31 and 2^32 bytes: a SPARSE header-less binary file of 1 MiB rows (only a handful of rows is
    # ever written, the file occupies a few pages), read by row lists / scalars / column subsets whose first row or
    # whose gaps are more than 2 GiB / 4 GiB into the file - byte distances kept in a 32-bit int wrap here
    def one_huge(case, rec):
        from esutil import recfile
        style, rows, col = case
        dt = np.dtype([("a", "<i8"), ("pad", "S1048560"), ("b", "<i8")])      # 1 MiB per row
        NR = 4200
        key = ("huge", rec.tmp)
        marked = (0, 1, 2047, 2048, 2049, 4095, 4096, 4199)
        if key not in files:
            fnh = os.path.join(rec.tmp, "c02_huge.bin")
            with open(fnh, "wb") as f:
                f.truncate(NR * dt.itemsize)
                for r in marked:
                    f.seek(r * dt.itemsize)
                    f.write(np.int64(1000 + r).tobytes())
                    f.seek(r * dt.itemsize + dt.itemsize - 8)
                    f.write(np.int64(-(1000 + r)).tobytes())
            files[key] = fnh
        fnh = files[key]
        want = [1000 + r for r in sorted(set(rows))]
        try:
            with recfile.Recfile(fnh, mode="r", dtype=dt, nrows=NR) as R:
                if style == "read":
                    got = R.read(rows=list(rows), columns=col)
                elif style == "bracket":
                    got = R[col][list(rows)]
                else:
                    got = np.array([R.read(rows=r, columns=col)[0] if np.ndim(R.read(rows=r, columns=col)) else R.read(rows=r, columns=col)
                                    for r in sorted(set(rows))])
        except Exception as e:
            return rec.fail(case, "raised %s: %s" % (type(e).__name__, str(e)[:150]))
        got = np.asarray(got).reshape(-1).tolist()
        exp = want if col == "a" else [-v for v in want]
        if got != exp:
            return rec.fail(case, "rows %r, column %r of a sparse 4.1 GiB table: got %r, expected %r" % (rows, col, got, exp))
        rec.ok(case, outcome="huge:%s" % style, nontrivial=True)

    hsel = [(0,), (2048,), (4199,), (0, 2048), (1, 2049), (0, 4096), (2047, 2048), (0, 1, 4199), (4095, 4096), (2048, 4199)]
    hunits = [(style, rows, col) for style in ("read", "bracket", "scalar") for rows in hsel for col in ("a", "b")]
    ctx.lattice("offsets-beyond-4GiB", hunits, one_huge, bounds=dict(row_bytes=1048576, rows=4200, selections=len(hsel)))

    # header-less TEXT tables whose size in bytes is exactly a block mark (and one row less / more), opened without
    # nrows= so that the library counts the rows itself: counting or reading in blocks goes wrong at exact multiples
    def one_textsize(case, rec):
        from esutil import recfile
        mark, rowlen, extra, entry = case
        n = mark // rowlen + extra
        key = ("tsize", mark, rowlen, extra, rec.tmp)
        dt = np.dtype([("s", "S%d" % (rowlen - 3)), ("d", "<i2")])
        if key not in files:
            tb = np.zeros(n, dtype=dt)
            w = rowlen - 3
            idx = np.arange(n)
            tb["s"] = np.char.zfill((idx % 10 ** min(w, 9)).astype("U"), w).astype("S%d" % w)
            tb["d"] = idx % 10
            fnt = os.path.join(rec.tmp, "c02_ts_%d_%d_%d.txt" % (mark, rowlen, extra))
            recfile.write(fnt, tb, delim=",")
            if os.path.getsize(fnt) != n * rowlen:
                return rec.fail(case, "harness: text file has %d bytes, expected %d" % (os.path.getsize(fnt), n * rowlen))
            files[key] = (fnt, tb)
        fnt, tb = files[key]
        try:
            if entry == "recfile.read(rows=-1)":
                got = [(-1, recfile.read(fnt, dt, delim=",", rows=-1))]
                nr = n
            else:
                with recfile.Recfile(fnt, mode="r", dtype=dt, delim=",") as R:
                    nr = R.nrows
                    if entry == "R[-1]":
                        got = [(-1, R[-1]), (-n, R[-n]), (n - 1, R[n - 1])]
                    elif entry == "R[:]":
                        got = [(slice(None), R[:]), (slice(-2, None), R[-2:]), (slice(n - 2, n + 2), R[n - 2:n + 2])]
                    else:
                        got = [(slice(None), R.read())]
                        for bad in (n, -n - 1):
                            try:
                                r = R[bad]
                            except Exception:
                                continue
                            return rec.fail(case, "row %d of a %d-row text table was not rejected but returned %r" % (bad, n, r))
        except Exception as e:
            return rec.fail(case, "%s on a text table of %d bytes (%d rows) raised %s: %s" % (entry, n * rowlen, n, type(e).__name__, str(e)[:150]))
        if nr != n:
            return rec.fail(case, "row count of a text table of %d bytes is %r, %d rows written" % (n * rowlen, nr, n))
        for sel, g in got:
            e = np.atleast_1d(tb[sel])        # a scalar row comes back as a one-row array (checked by the other parts)
            g = np.atleast_1d(np.asarray(g))
            if g.shape != np.shape(e) or g.tobytes() != np.asarray(e).astype(g.dtype).tobytes():
                return rec.fail(case, "%s selection %r of a text table of %d bytes (%d rows): got %r rows ending %r, expected %r ending %r" % (
                    entry, sel, n * rowlen, n, g.shape, g.reshape(-1)[-1:].tolist(), np.shape(e), np.asarray(e).reshape(-1)[-1:].tolist()))
        rec.ok(case, outcome="textsize:%s" % entry, nontrivial=(extra == 0))

    tmarks = [(4096, 8), (8192, 8), (65536, 8), (100000, 10), (1000000, 10), (1048576, 8)] + ctx.pick([], [(2000000, 10), (2097152, 8), (4194304, 8), (10000000, 10)])
    tsunits = [(m, rl, ex, en) for (m, rl) in tmarks for ex in (-1, 0, 1) for en in ("R.read", "R[-1]", "R[:]", "recfile.read(rows=-1)")]
    ctx.lattice("text-sizes-at-block-marks", tsunits, one_textsize, bounds=dict(marks=[m for m, _ in tmarks], rows_relative_to_mark=[-1, 0, 1],
                                                                              entry_points=["R.read", "R[-1]", "R[:]", "recfile.read(rows=-1)"]))

    # the long-row table: text only, three access styles, every row selection
    LONG_STYLES = ["R.read", "SF[]", "sfile.read"]
    lunits = [("long", 3, delim, style) for delim in ctx.pick([","], [",", " ", "\t"]) for style in LONG_STYLES]
    ctx.lattice("long-rows", lunits, one, expand=expand, bounds=dict(row_bytes="about 40 kB", styles=LONG_STYLES))

    ctx.lattice("subsets", units, one, expand=expand,
                bounds=dict(tables=tids, nrows=ns, delims=[repr(d) for d in delims], max_rowlist_len=L,
                            styles=list(STYLES), column_reps=len(COL_REPS)))

    # ---------------------------------------------- E2: reads on one open handle
    SEL = []
    for rsel in (None, ("scalar", 0), ("scalar", -1), ("list", (2, 0)), ("list", (1,)), ("i8", (3, 3, 1)),
                 ("slice", None, None, None), ("slice", 1, 3, None), ("slice", 0, None, 2), ("slice", -2, None, None)):
        for csel in (None, ("scalar", "x"), ("list", ("s", "a")), ("scalar", "h")):
            SEL.append((rsel, csel))
    # selections that must be REJECTED: after the error the handle has to serve the next read correctly
    SEL += [(("scalar", 7), None), (None, ("scalar", "zz")), (("list", (1, 9)), ("scalar", "a")), (("scalar", -9), ("list", ("s", "a")))]
    SEL = tuple(SEL)

    def execute_for(delim):
        def execute(hist, rec):
            from mc.util import fingerprint

            fn, Tab = get_file(rec, "le", 4, delim)
            results = []
            with sfile.SFile(fn) as sf:
                for (rsel, csel) in hist:
                    rejected = expected(Tab, rsel, csel, None)[0] == "reject"
                    try:
                        results.append(run_style("SF[]", fn, sf, build_rows(rsel), build_cols(csel)))
                        if rejected:
                            rec.fail(hist, "out-of-range/unknown selection %r was accepted" % ((rsel, csel),))
                            return None
                    except Exception as e:
                        if rejected:
                            results.append(None)
                            continue
                        rec.fail(hist, "read %r raised %s: %s" % ((rsel, csel), type(e).__name__, e))
                        return None
                if hist and results[-1] is not None:
                    rsel, csel = hist[-1]
                    exp = expected(Tab, rsel, csel, None)
                    m = compare(results[-1], exp[1])
                    if m:
                        rec.fail(hist, "last read %r after %r: %s; got %r expected %r"
                                 % (hist[-1], hist[:-1], m, results[-1], exp[1]))
                        return None
                    for (r2, c2), got in zip(hist[:-1], results[:-1]):
                        if got is None:
                            continue
                        e2 = expected(Tab, r2, c2, None)
                        if compare(got, e2[1]):
                            rec.fail(hist, "an earlier result (%r) changed after later reads" % ((r2, c2),))
                            return None
                key = fingerprint({k: v for k, v in sf.__dict__.items() if k not in ("_robj", "_filename")},
                                  {k: v for k, v in sf._robj.__dict__.items() if k not in ("robj", "filename")})
            return (key, len(hist)), SEL
        return execute

    depth = ctx.pick(2, 3)
    for delim in (None, ","):
        ctx.histories("reads-on-one-handle(%s)" % ("binary" if delim is None else "text"), [()],
                      execute_for(delim), depth=depth, nodedup_depth=depth,
                      bounds=dict(selection_alphabet=len(SEL), depth=depth))

    # ------------------------------------------- several handles open at once (process-wide state)
    from mc.handles import several_handles
    several_handles(ctx, "several-handles", ctx.pick(["bin", "colon", "comma"], ["bin", "colon", "comma", "pipe"]),
                    depth=ctx.pick(4, 5), nodedup_depth=ctx.pick(3, 4))

    # ------------------------------------------------ one Recfile object used for several files (mc/sfreuse.py)
    from mc.sfreuse import reused_recfile_world
    reused_recfile_world(ctx, "one-recfile-object-several-files", depth=ctx.pick(7, 9))

    # ------------------------------------------------ wide tables (more than 32 and more than 64 columns)
    # column bookkeeping kept in a machine word (a bit mask, a fixed-size array of column numbers) goes wrong beyond
    # the 32nd / 64th column only: tables of 40 and 70 columns, binary and text, subsets that include late columns
    def one_wide(case, rec):
        from esutil import recfile
        ncol, delim, entry, cols, rows = case
        key = ("wide", ncol, delim, rec.tmp)
        if key not in files:
            dt = [("c%02d" % j, "<i4" if j % 3 else "<f8") for j in range(ncol)]
            tb = np.zeros(6, dtype=dt)
            for j in range(ncol):
                tb["c%02d" % j] = np.arange(6) * 100 + j
            fnw = os.path.join(rec.tmp, "c02_wide_%d_%s.rec" % (ncol, "b" if delim is None else str(ord(delim))))
            sfile.write(fnw, tb, delim=delim)
            files[key] = (fnw, tb)
        fnw, tb = files[key]
        names = ["c%02d" % j for j in cols]
        rsel = None if rows is None else list(rows)
        try:
            if entry == "sfile.read":
                got = sfile.read(fnw, columns=names, rows=rsel)
            elif entry == "SF[]":
                with sfile.SFile(fnw) as sf:
                    got = sf[names][:] if rsel is None else sf[names][rsel]
            else:
                with sfile.SFile(fnw) as sf:
                    hd = sf.get_header()
                    off = sf._data_start
                with recfile.Recfile(fnw, mode="r", dtype=tb.dtype, delim=delim, nrows=6, offset=off) as R:
                    got = R.read(columns=names, rows=rsel)
        except Exception as e:
            return rec.fail(case, "%d-column table, columns %r rows %r via %s raised %s: %s" % (ncol, cols, rows, entry, type(e).__name__, str(e)[:150]))
        ordered = [n for n in tb.dtype.names if n in names]
        exp = tb if rsel is None else tb[sorted(set(rsel))]
        if len(names) == 1 and got.dtype.names is None:
            ok = np.array_equal(np.asarray(got), exp[names[0]])
        else:
            ok = got.dtype.names is not None and list(got.dtype.names) == ordered and got.shape == exp.shape and all(np.array_equal(got[n], exp[n]) for n in ordered)
        if not ok:
            return rec.fail(case, "%d-column %s table, columns %r rows %r via %s: got fields %r first row %r, expected fields %r first row %r" % (
                ncol, "binary" if delim is None else "text", cols, rows, entry, got.dtype.names, np.asarray(got).reshape(-1)[:1].tolist(), ordered,
                [exp[n][0].item() for n in ordered][:6]))
        rec.ok(case, outcome="wide:%d:%s" % (ncol, entry), nontrivial=True, calls=1)

    wsel = {40: [(35,), (0, 35), (31, 32, 33), tuple(range(30, 40)), (39, 3), (32,), tuple(range(0, 40, 3)), (38, 39, 0, 1)],
            70: [(65,), (0, 33, 66), (63, 64, 65), tuple(range(60, 70)), (69, 31, 32), tuple(range(0, 70, 7)), (64,)]}
    wunits = [(nc, dl, en, cs, rs) for nc in (40, 70) for dl in (None, ",", " ") for en in ("sfile.read", "SF[]", "Recfile") for cs in wsel[nc] for rs in (None, (1, 4), (5,))]
    ctx.lattice("wide-tables", wunits, one_wide, bounds=dict(columns=[40, 70], delims=["binary", ",", "space"], selections={str(k): [list(c) for c in v] for k, v in wsel.items()}))
