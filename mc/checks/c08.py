"""C08 - angular separations (sphdist, gcirc) equal the true great-circle angle (E1)."""
import functools
import math
import random

import numpy as np

RULE = (
    "point set P = fixed boundary points (both poles, a pole written with another longitude, (0,0), "
    "(360,0), (359.999999,+-45), octant corners and an octant centre, points 1e-9 deg from each pole; "
    "thorough: more near-pole/seam/negative/>360 longitudes) + seed-chosen generic points.  For every "
    "p in P the partners {p itself, p with ra+-360, the exact antipode written two ways, every q in P, "
    "the destination point from p at every separation of SEPS (1e-12 .. 180 deg, both sides of the "
    "dsq=3.99 branch boundary, 180-1e-3 .. 180-1e-9, 180) in every bearing of BEARINGS, with the "
    "longitude both wrapped to [0,360) and unwrapped}.  pairs: full product pair x input form "
    "{length-1 f8 arrays, python floats, python ints (integral pairs), numpy float64 scalars, 0-d arrays, "
    "lists, length-1 f4 arrays, python-float point against length-1 arrays} x function/units "
    "{sphdist default, deg/deg, rad/rad, deg/rad, rad/deg; gcirc}; every case calls f(a,b), f(b,a), "
    "f(a+360,b), f(a,b+360), f(a+360,b+360), f(a,a), f(b,b) and the same pair as length-1 f8 arrays.  "
    "rings: the same cases for every point of a dense latitude sweep (every degree; thorough every 0.25 deg) "
    "x 2-3 longitudes against {itself, ra+-360, exact antipode, fans at the near-coincident and near-antipodal "
    "separations in 8 bearings} x forms {length-1 arrays, python floats} x all function/units variants.  "
    "arrays: every p-block of pairs as one long array (f8, f4, lists, one scalar point broadcast against "
    "the partner arrays in three scalar forms), every cyclic window of 3 consecutive and of 3 spread-out "
    "pairs of each block as length-3 arrays, and the whole lattice as one array; every element is "
    "compared with the reference and bit-for-bit with the call on that element alone.  non-trivial = the "
    "pair is identical / the same point written differently / closer than 1e-3 deg / on the cross-product "
    "branch (>= 174.27 deg) / within 1e-3 deg of antipodal, or a point is within 1e-3 deg of a pole, or "
    "the two longitudes differ by more than 180 deg as written (0/360 seam or +-360)."
)
ASSUMPTIONS = [
    "reference model: atan2(|a x b|, a.b) of the unit vectors in 80-bit long double, from the float64 inputs "
    "taken as exact; cross-checked on every evaluation against the Vincenty form of the same angle (also long "
    "double); the check aborts (harness error) if the two differ by more than 1e-16 rad or if long double has "
    "less than 63 mantissa bits; estimated oracle error < 1e-17 deg",
    "tolerances are the statement's: sphdist 1e-11 deg, gcirc 2e-6 deg (converted to radians when the output "
    "is radians); the same tolerance is used for symmetry |f(a,b)-f(b,a)| and for 'unchanged by +360'",
    "'+360 deg' is ra+360.0 (or ra+2*pi for radian input) evaluated in float64; its rounding (<= 6e-14 deg) "
    "is charged to the tolerance; the shifted call must be within tolerance of the true angle of the "
    "unshifted pair and of the unshifted result; for f4 input the shift is only applied when ra+360 is exact in f4",
    "'the same for scalar and array inputs' is read as: bit-identical to the result of the call on length-1 "
    "float64 arrays (array elements: to the call on that element alone); the returned container of a scalar "
    "call may be a scalar or any size-1 array",
    "range: [0, 180.0] for degree output, [0, float64(pi)] for radian output",
    "radian inputs are math.radians(degrees) of the lattice point (float64) and are then taken as exact; "
    "f4 inputs are the lattice pair rounded to float32 and are then taken as exact (f4 only with degree input, "
    "rounding radians to f4 can leave [-pi/2, pi/2]); python-int inputs only for integral pairs in degrees",
    "gcirc is called without getangle (the position angle is not part of the statement)",
    "lattice statement only: holds on every listed pair, not for all reals",
]

LD = np.longdouble
PI = LD(4) * np.arctan(LD(1))
D2R = PI / LD(180)
ORACLE_SELF_TOL = LD(1e-16)      # rad; the two reference formulas must agree to this

TOL_DEG = {"sphdist": 1e-11, "gcirc": 2e-6}      # verbatim from the statement

# separation where sphdist switches to the cross-product branch (dsq = 3.99)
SB = math.degrees(2 * math.asin(math.sqrt(3.99) / 2))

# ----------------------------------------------------------------------------
# reference model


def _rad(v, unit):
    v = np.asarray(v, dtype=LD)
    return v * D2R if unit == "deg" else v


def true_sep(ra1, dec1, ra2, dec2, unit):
    """true great-circle angle (long double radians) of the given float inputs"""
    if np.finfo(LD).nmant < 63:
        raise AssertionError("long double is not wider than float64 on this platform")
    l1, b1, l2, b2 = (_rad(v, unit) for v in (ra1, dec1, ra2, dec2))
    c1, s1, c2, s2 = np.cos(b1), np.sin(b1), np.cos(b2), np.sin(b2)
    x1, y1, z1 = c1 * np.cos(l1), c1 * np.sin(l1), s1
    x2, y2, z2 = c2 * np.cos(l2), c2 * np.sin(l2), s2
    cx = y1 * z2 - z1 * y2
    cy = z1 * x2 - x1 * z2
    cz = x1 * y2 - y1 * x2
    t = np.arctan2(np.sqrt(cx * cx + cy * cy + cz * cz), x1 * x2 + y1 * y2 + z1 * z2)
    # independent second formula (Vincenty)
    dl = l2 - l1
    cdl = np.cos(dl)
    num = np.hypot(c2 * np.sin(dl), c1 * s2 - s1 * c2 * cdl)
    den = s1 * s2 + c1 * c2 * cdl
    t2 = np.arctan2(num, den)
    d = np.max(np.abs(t - t2))
    if not d <= ORACLE_SELF_TOL:
        raise AssertionError("reference self-check failed: the two formulas differ by %g rad" % float(d))
    return t


@functools.lru_cache(maxsize=4096)
def true_sep1(vals, unit):
    return true_sep(vals[0], vals[1], vals[2], vals[3], unit)[()]


def destination(ra, dec, sep, pa):
    """point at angle sep from (ra,dec) in bearing pa (all degrees): (unwrapped lon, lat) long double degrees"""
    l, b, s, a = (LD(v) * D2R for v in (ra, dec, sep, pa))
    sb, cb, ss, cs, sa, ca = np.sin(b), np.cos(b), np.sin(s), np.cos(s), np.sin(a), np.cos(a)
    if pa == 0.0:
        sa, ca = LD(0), LD(1)
    elif pa == 180.0:
        sa, ca = LD(0), LD(-1)
    y = ss * sa
    x = cb * cs - sb * ss * ca
    z = sb * cs + cb * ss * ca
    dl = np.arctan2(y, x)
    lat = np.arctan2(z, np.hypot(x, y))
    return LD(ra) + dl / D2R, lat / D2R


@functools.lru_cache(maxsize=None)
def partners(p, P, seps, bearings):
    ra, dec = p
    out = [p, (ra + 360.0, dec), (ra - 360.0, dec), (ra + 180.0, 0.0 - dec), (ra - 180.0, 0.0 - dec)]
    out.extend(P)
    for s in seps:
        for a in bearings:
            lon, lat = destination(ra, dec, s, a)
            d = min(90.0, max(-90.0, float(lat)))
            w = float(lon % LD(360))
            u = float(lon)
            out.append((w, d))
            if u != w:
                out.append((u, d))
    seen = set()
    res = []
    for q in out:
        if q not in seen:
            seen.add(q)
            res.append(q)
    return tuple(res)


def family(pair, td):
    """(label, nontrivial) of a pair given in degrees with true separation td degrees"""
    ra1, dec1, ra2, dec2 = pair
    if ra1 == ra2 and dec1 == dec2:
        fam = "identical-inputs"
    elif td < 1e-13:
        fam = "same-point-written-differently"
    elif td < 1e-3:
        fam = "near-coincident"
    elif td < 1.0:
        fam = "small"
    elif td < SB:
        fam = "chord-branch"
    elif td <= 180 - 1e-3:
        fam = "cross-branch"
    elif td < 180 - 1e-13:
        fam = "near-antipodal"
    else:
        fam = "antipodal"
    tags = ""
    if max(abs(dec1), abs(dec2)) >= 90 - 1e-3:
        tags += "+polar"
    if abs(ra1 - ra2) > 180:
        tags += "+seam"
    return fam + tags, not (fam in ("small", "chord-branch") and not tags)


# ----------------------------------------------------------------------------
# alphabets

P_FIXED = [
    (0.0, 90.0), (0.0, -90.0), (0.0, 0.0), (360.0, 0.0), (359.999999, 45.0), (359.999999, -45.0),
    (90.0, 0.0), (180.0, 0.0), (270.0, 0.0), (45.0, 35.264389682754654),
    (12.0, 90 - 1e-9), (300.0, -90 + 1e-9), (123.0, 90.0),
]
P_FIXED_T = [
    (77.0, 90 - 1e-12), (200.0, 90 - 1e-6), (33.0, -90 + 1e-3), (250.0, 89.0), (180.0, -90.0),
    (1e-9, 20.0), (360 - 1e-9, -20.0), (0.0, 45.0), (720.5, 30.0), (-30.0, 10.0), (-359.5, -70.0),
    (135.0, -35.264389682754654), (225.0, 35.264389682754654), (315.0, -35.264389682754654),
]
# a geometric ladder towards 180 degrees (the branch switch of the chord formula may sit anywhere in there)
SEPS_Q = (1e-12, 1e-9, 1e-6, 1e-5, 1e-4, 1e-3, 0.01, 0.03, 0.1, 0.3, 1.0, 3.0, 10.0, 30.0, 60.0, 90.0, SB - 1e-6, SB + 1e-6, 176.0, 178.0, 179.0, 179.5, 179.8, 179.9,
          179.95, 179.98, 179.99, 179.995, 180 - 1e-3, 180 - 1e-4, 180 - 1e-6, 180 - 1e-9, 180.0)
SEPS_T = tuple(sorted(set(SEPS_Q + (
    1e-13, 1e-11, 1e-10, 1e-8, 1e-7, 1e-5, 1e-4, 1e-2, 0.1, 10.0, 30.0, 45.0, 89.999999, 120.0, 150.0,
    170.0, 174.0, 175.0, 179.9, 179.99, 180 - 1e-4, 180 - 1e-5, 180 - 1e-7, 180 - 1e-8, 180 - 1e-10,
    180 - 1e-12))))

RING_SEPS_Q = (1e-12, 1e-9, 1e-6, 180 - 1e-6, 180 - 1e-9, 180.0)
RING_SEPS_T = (1e-12, 1e-11, 1e-10, 1e-9, 1e-6, 1e-3, 180 - 1e-3, 180 - 1e-6, 180 - 1e-9, 180 - 1e-12, 180.0)
RING_FORMS = ["len1", "pyfloat"]

VARIANTS = [("sphdist", None), ("sphdist", ("deg", "deg")), ("sphdist", ("rad", "rad")),
            ("sphdist", ("deg", "rad")), ("sphdist", ("rad", "deg")), ("gcirc", None)]
PAIR_FORMS = ["len1", "pyfloat", "pyint", "npfloat", "0d", "list", "f4", "mixed"]
BLOCK_FORMS = ["f8", "f4", "list", "bcast-pyfloat", "bcast-0d", "bcast-len1"]


def generic_points(seed, n):
    rng = random.Random(1000003 * seed + 8)
    out = []
    while len(out) < n:
        ra = round(rng.uniform(0.0, 360.0), 6)
        dec = round(math.degrees(math.asin(rng.uniform(-1.0, 1.0))), 6)
        if abs(dec) < 85 and 1 < ra < 359:
            out.append((ra, dec))
    return out


def f4round(v):
    return float(np.float32(v))


def units_of(fn, units):
    if fn == "gcirc":
        return "deg", "rad"
    return tuple(units) if units is not None else ("deg", "deg")


def scalar_in(form, v):
    if form in ("len1", "f8"):
        return np.array([v], dtype="f8")
    if form in ("pyfloat", "bcast-pyfloat"):
        return float(v)
    if form == "pyint":
        return int(v)
    if form == "npfloat":
        return np.float64(v)
    if form in ("0d", "bcast-0d"):
        return np.array(v, dtype="f8")
    if form == "list":
        return [float(v)]
    if form == "f4":
        return np.array([v], dtype="f4")
    if form == "bcast-len1":
        return np.array([v], dtype="f8")
    raise ValueError(form)


def main(ctx):
    from esutil import coords

    def call(fn, units, a, b):
        if fn == "gcirc":
            return coords.gcirc(a[0], a[1], b[0], b[1])
        if units is None:
            return coords.sphdist(a[0], a[1], b[0], b[1])
        return coords.sphdist(a[0], a[1], b[0], b[1], units=list(units))

    def limits(fn, uout):
        tol = TOL_DEG[fn]
        if uout == "deg":
            return LD(tol), 180.0
        return LD(tol) * D2R, float(np.pi)

    # ------------------------------------------------------------ single pairs
    def one_pair(case, rec):
        fn, units, form, pair = case
        uin, uout = units_of(fn, units)
        vals = tuple(pair) if uin == "deg" else tuple(math.radians(v) for v in pair)
        shift = 360.0 if uin == "deg" else 2 * math.pi
        t = true_sep1(vals, uin)
        tout = t / D2R if uout == "deg" else t
        tol, vmax = limits(fn, uout)
        ident = vals[0] == vals[2] and vals[1] == vals[3]
        fa = "pyfloat" if form == "mixed" else form
        fb = "len1" if form == "mixed" else form

        def mk():
            return ((scalar_in(fa, vals[0]), scalar_in(fa, vals[1])),
                    (scalar_in(fb, vals[2]), scalar_in(fb, vals[3])))

        A, B = mk()
        ncall = [0]
        tag = "form=%s units=%r" % (form, units)

        def bad(msg):
            A0, B0 = mk()
            try:
                same = all(np.array_equal(np.asarray(u), np.asarray(v))
                           for X, Y in ((A, A0), (B, B0)) for u, v in zip(X, Y))
            except Exception:
                same = True
            if not same:
                msg += " [note: the calls modified their input arrays in place]"
            rec.fail(case, "%s: %s" % (fn, msg))
            return None

        def run(which, a, b):
            """value of one call after the per-result checks, or None (already reported)"""
            ncall[0] += 1
            try:
                r = call(fn, units, a, b)
            except Exception as e:
                return bad("raised %s: %s (call %s, %s, inputs %r)" % (type(e).__name__, e, which, tag, vals))
            arr = np.asarray(r)
            if arr.size != 1 or arr.dtype.kind != "f":
                return bad("result is not one float: shape %r dtype %s (call %s, %s, inputs %r)"
                           % (arr.shape, arr.dtype, which, tag, vals))
            v = float(arr.reshape(-1)[0])
            if not math.isfinite(v):
                return bad("result not finite: %r, true angle %.17g deg (call %s, %s, inputs %r)"
                           % (v, float(t / D2R), which, tag, vals))
            if not 0.0 <= v <= vmax:
                return bad("result outside the range: %r not in 0..%r (call %s, %s, inputs %r)"
                           % (v, vmax, which, tag, vals))
            return v

        def acc(which, v, truth):
            if abs(LD(v) - truth) > tol:
                bad("result differs from the true angle by more than the tolerance: got %.17g, true %.17g, "
                    "|diff| %.3g > %.3g %s (call %s, %s, inputs %r)"
                    % (v, float(truth), float(abs(LD(v) - truth)), float(tol), uout, which, tag, vals))
                return False
            return True

        r = run("f(a,b)", A, B)
        if r is None:
            return
        if not acc("f(a,b)", r, tout):
            return
        if ident and r != 0.0:
            return bad("identical inputs but result %r is not exactly zero (%s, inputs %r)" % (r, tag, vals))
        # symmetry
        rs = run("f(b,a)", B, A)
        if rs is None:
            return
        if not acc("f(b,a)", rs, tout):
            return
        if abs(LD(rs) - LD(r)) > tol:
            return bad("not symmetric: f(a,b)=%.17g f(b,a)=%.17g (%s, inputs %r)" % (r, rs, tag, vals))
        # identical inputs -> exactly zero
        for which, X in (("f(a,a)", A), ("f(b,b)", B)):
            z = run(which, X, X)
            if z is None:
                return
            if z != 0.0:
                return bad("identical inputs but result %r is not exactly zero (call %s, %s, inputs %r)"
                           % (z, which, tag, vals))
        # + 360 degrees
        if form == "pyint":
            a3, b3 = int(vals[0]) + 360, int(vals[2]) + 360
        else:
            a3, b3 = vals[0] + shift, vals[2] + shift
        do_shift = True
        if form == "f4" and not (f4round(a3) == a3 and f4round(b3) == b3):
            do_shift = False
            rec.count("f4_shift_not_representable")
        if do_shift:
            A3 = (scalar_in(fa, a3), A[1])
            B3 = (scalar_in(fb, b3), B[1])
            for which, X, Y in (("f(a+360,b)", A3, B), ("f(a,b+360)", A, B3), ("f(a+360,b+360)", A3, B3)):
                v = run(which, X, Y)
                if v is None:
                    return
                if not acc(which, v, tout):
                    return
                if abs(LD(v) - LD(r)) > tol:
                    return bad("changed by adding 360 deg to a longitude: f(a,b)=%.17g %s=%.17g (%s, inputs %r)"
                               % (r, which, v, tag, vals))
                if ident and which == "f(a+360,b+360)" and v != 0.0:
                    return bad("identical inputs but result %r is not exactly zero (call %s, %s, inputs %r)"
                               % (v, which, tag, vals))
        # scalar == array
        if form != "len1":
            A1 = (scalar_in("len1", vals[0]), scalar_in("len1", vals[1]))
            B1 = (scalar_in("len1", vals[2]), scalar_in("len1", vals[3]))
            v = run("f(length-1 arrays)", A1, B1)
            if v is None:
                return
            if v != r:
                return bad("scalar and array inputs give different results: %s input %.17g, length-1 float64 "
                           "arrays %.17g (%s, inputs %r)" % (form, r, v, tag, vals))
        oc, nt = family(pair, float(t / D2R))
        rec.ok(case, outcome=oc, nontrivial=nt, calls=ncall[0])

    # ------------------------------------------------------------------ arrays
    def spec_pairs(spec):
        kind = spec[0]
        if kind == "pairs":
            return [tuple(pr) for pr in spec[1]]
        if kind == "fan":
            _, p, P, seps, bearings = spec
            return [tuple(p) + q for q in partners(tuple(p), tuple(map(tuple, P)), tuple(seps), tuple(bearings))]
        if kind == "lattice":
            _, P, seps, bearings = spec
            P = tuple(map(tuple, P))
            out = []
            for p in P:
                out.extend(p + q for q in partners(p, P, tuple(seps), tuple(bearings)))
            return out
        raise ValueError(kind)

    def one_array(case, rec):
        fn, units, form, spec = case
        uin, uout = units_of(fn, units)
        pairs = spec_pairs(spec)
        if form == "f4":
            pairs = [tuple(f4round(v) for v in pr) for pr in pairs]
        n = len(pairs)
        if uin == "deg":
            V = np.array(pairs, dtype="f8").reshape(n, 4)
        else:
            V = np.array([[math.radians(v) for v in pr] for pr in pairs], dtype="f8").reshape(n, 4)
        shift = 360.0 if uin == "deg" else 2 * math.pi
        t = true_sep(V[:, 0], V[:, 1], V[:, 2], V[:, 3], uin)
        tout = t / D2R if uout == "deg" else t
        tol, vmax = limits(fn, uout)
        ident = (V[:, 0] == V[:, 2]) & (V[:, 1] == V[:, 3])
        tag = "form=%s units=%r n=%d" % (form, units, n)
        bcast = form.startswith("bcast")
        if bcast and not (np.all(V[:, 0] == V[0, 0]) and np.all(V[:, 1] == V[0, 1])):
            raise ValueError("broadcast form needs a common first point")

        def col(j, add=0.0):
            c = V[:, j] + add
            if bcast and j < 2:
                return scalar_in(form, float(c[0]))
            if form == "f4":
                return c.astype("f4")
            if form == "list":
                return c.tolist()
            return c.copy()

        def mk(adda=0.0, addb=0.0):
            return (col(0, adda), col(1)), (col(2, addb), col(3))

        A, B = mk()
        ncall = [0]

        def bad(msg):
            A0, B0 = mk()
            same = all(np.array_equal(np.asarray(u), np.asarray(v))
                       for X, Y in ((A, A0), (B, B0)) for u, v in zip(X, Y))
            if not same:
                msg += " [note: the calls modified their input arrays in place]"
            rec.fail(case, "%s: %s" % (fn, msg))
            return None

        def where(i):
            return "element %d inputs %r" % (i, tuple(V[i].tolist()))

        def run(which, a, b, nexp):
            ncall[0] += 1
            try:
                r = call(fn, units, a, b)
            except Exception as e:
                return bad("raised %s: %s (array call %s, %s, first %s)" % (type(e).__name__, e, which, tag, where(0)))
            arr = np.asarray(r)
            if arr.shape != (nexp,) or arr.dtype.kind != "f":
                return bad("result of an array call has shape %r dtype %s, expected shape %r (call %s, %s)"
                           % (arr.shape, arr.dtype, (nexp,), which, tag))
            arr = arr.astype("f8")
            w = ~np.isfinite(arr)
            if w.any():
                i = int(np.nonzero(w)[0][0])
                return bad("result not finite: %r (array call %s, %s, %s)" % (float(arr[i]), which, tag, where(i % n)))
            w = ~((arr >= 0.0) & (arr <= vmax))
            if w.any():
                i = int(np.nonzero(w)[0][0])
                return bad("result outside the range: %r not in 0..%r (array call %s, %s, %s)"
                           % (float(arr[i]), vmax, which, tag, where(i % n)))
            return arr

        def acc(which, arr, truth):
            d = np.abs(arr.astype(LD) - truth)
            w = d > tol
            if w.any():
                i = int(np.nonzero(w)[0][0])
                bad("result differs from the true angle by more than the tolerance: got %.17g, true %.17g, "
                    "|diff| %.3g > %.3g %s (array call %s, %s, %s; %d of %d elements)"
                    % (arr[i], float(truth[i]), float(d[i]), float(tol), uout, which, tag, where(i),
                       int(w.sum()), n))
                return False
            return True

        r = run("f(A,B)", A, B, n)
        if r is None:
            return
        if not acc("f(A,B)", r, tout):
            return
        w = ident & (r != 0.0)
        if w.any():
            i = int(np.nonzero(w)[0][0])
            return bad("identical inputs but result %r is not exactly zero (array call, %s, %s)" % (float(r[i]), tag, where(i)))
        rs = run("f(B,A)", B, A, n)
        if rs is None:
            return
        if not acc("f(B,A)", rs, tout):
            return
        w = np.abs(rs.astype(LD) - r.astype(LD)) > tol
        if w.any():
            i = int(np.nonzero(w)[0][0])
            return bad("not symmetric: f(a,b)=%.17g f(b,a)=%.17g (array call, %s, %s)" % (r[i], rs[i], tag, where(i)))
        for which, X in (("f(A,A)", A), ("f(B,B)", B)):
            z = run(which, X, X, 1 if (bcast and X is A) else n)
            if z is None:
                return
            if np.any(z != 0.0):
                i = int(np.nonzero(z != 0.0)[0][0])
                return bad("identical inputs but result %r is not exactly zero (array call %s, %s, %s)"
                           % (float(z[i]), which, tag, where(i)))
        if form != "f4":
            A3, _ = mk(adda=shift)
            _, B3 = mk(addb=shift)
            for which, X, Y in (("f(A+360,B)", A3, B), ("f(A,B+360)", A, B3), ("f(A+360,B+360)", A3, B3)):
                v = run(which, X, Y, n)
                if v is None:
                    return
                if not acc(which, v, tout):
                    return
                w = np.abs(v.astype(LD) - r.astype(LD)) > tol
                if w.any():
                    i = int(np.nonzero(w)[0][0])
                    return bad("changed by adding 360 deg to a longitude: f(a,b)=%.17g %s=%.17g (array call, %s, %s)"
                               % (r[i], which, v[i], tag, where(i)))
                if which == "f(A+360,B+360)" and np.any(ident & (v != 0.0)):
                    i = int(np.nonzero(ident & (v != 0.0))[0][0])
                    return bad("identical inputs but result %r is not exactly zero (array call %s, %s, %s)"
                               % (float(v[i]), which, tag, where(i)))
        # every element equals the call on that element alone
        for i in range(n):
            ncall[0] += 1
            a1 = (np.array([V[i, 0]]), np.array([V[i, 1]]))
            b1 = (np.array([V[i, 2]]), np.array([V[i, 3]]))
            try:
                v = np.asarray(call(fn, units, a1, b1)).reshape(-1)
                ok = v.size == 1 and (v[0] == r[i])
            except Exception as e:
                return bad("raised %s: %s (length-1 call, %s, %s)" % (type(e).__name__, e, tag, where(i)))
            if not ok:
                return bad("scalar and array inputs give different results: element of the array result %.17g, "
                           "the same pair as length-1 arrays %r (%s, %s)" % (r[i], v.tolist(), tag, where(i)))
        td = (t / D2R).astype("f8")
        cross = td >= SB
        fams = [family(pairs[i], float(td[i])) for i in range(n)]
        nt = any(f[1] for f in fams)
        if spec[0] == "pairs":
            oc = "len%d:cross-branch-mask=%s" % (n, "".join("FT"[int(c)] for c in cross))
            if ident.any():
                oc += "+identical"
        else:
            oc = "%s:%s" % (spec[0], form)
        rec.count("array_elements", n)
        rec.ok(case, outcome=oc, nontrivial=nt, calls=ncall[0])

    # ------------------------------------------------------------------- units
    ngen = ctx.pick(3, 13)
    P = tuple(P_FIXED + (P_FIXED_T if not ctx.quick else []) + generic_points(ctx.seed, ngen))
    seps = ctx.pick(SEPS_Q, SEPS_T)
    nb = ctx.pick(8, 24)
    bearings = tuple(360.0 * k / nb for k in range(nb))

    def variants_for(form):
        for fn, units in VARIANTS:
            if form in ("f4", "pyint") and units is not None and units[0] == "rad":
                continue
            yield fn, units

    units1 = [(form, p, P, seps, bearings) for p in P for form in PAIR_FORMS]

    def expand1(u):
        form, p, PP, ss, bb = u
        seen = set()
        for q in partners(p, PP, ss, bb):
            pair = p + q
            if form == "f4":
                pair = tuple(f4round(v) for v in pair)
            elif form == "pyint" and not all(float(v).is_integer() for v in pair):
                continue
            if pair in seen:
                continue
            seen.add(pair)
            for fn, un in variants_for(form):
                yield (fn, un, form, pair)

    ctx.lattice("pairs", units1, one_pair, expand=expand1,
                bounds=dict(points=list(P), separations=list(seps), bearings=list(bearings),
                            forms=PAIR_FORMS, variants=[list(map(str, v)) for v in VARIANTS],
                            calls_per_case="f(a,b) f(b,a) f(a,a) f(b,b) 3x(+360) length-1 arrays"))

    # dense latitude sweep of the two ill-conditioned families (near-coincident, near-antipodal):
    # whether the rounded cosine / chord leaves its domain depends on the latitude
    ring_decs = ctx.pick([float(d) for d in range(-89, 90)],
                         [d / 4.0 for d in range(-359, 360)])
    gen_ra = generic_points(ctx.seed, 1)[0][0]
    ring_ras = ctx.pick((0.0, gen_ra), (0.0, 359.999999, gen_ra))
    ring_seps = ctx.pick(RING_SEPS_Q, RING_SEPS_T)
    ring_bearings = tuple(45.0 * k for k in range(8))
    units_r = [(form, (ra, dec), (), ring_seps, ring_bearings)
               for dec in ring_decs for ra in ring_ras for form in RING_FORMS]
    # (rings: also with numpy's FP error handling switched off - identical and antipodal pairs are where a cosine rounds
    # one ulp outside [-1, 1])
    ctx.lattice("rings", units_r, one_pair, expand=expand1, fpignore=True,
                bounds=dict(latitudes="%g..%g step %g" % (ring_decs[0], ring_decs[-1], ring_decs[1] - ring_decs[0]),
                            longitudes=list(ring_ras), separations=list(ring_seps),
                            bearings=list(ring_bearings), forms=RING_FORMS,
                            partners="self, ra+-360, exact antipode (two ways), fan"))

    units2 = []
    for p in P:
        units2.append(("win3", p, P, seps, bearings))
        for form in BLOCK_FORMS:
            units2.append(("fan", form, p, P, seps, bearings))
    units2.append(("lattice", P, seps, bearings))

    def expand2(u):
        if u[0] == "win3":
            _, p, PP, ss, bb = u
            L = [p + q for q in partners(p, PP, ss, bb)]
            n = len(L)
            k = max(1, n // 3)
            for i in range(n):
                for idx in ((i, (i + 1) % n, (i + 2) % n), (i, (i + k) % n, (i + 2 * k) % n)):
                    trip = tuple(L[j] for j in idx)
                    for fn, un in VARIANTS:
                        yield (fn, un, "f8", ("pairs", trip))
        elif u[0] == "fan":
            _, form, p, PP, ss, bb = u
            for fn, un in variants_for(form):
                yield (fn, un, form, ("fan", p, PP, ss, bb))
        else:
            _, PP, ss, bb = u
            for fn, un in VARIANTS:
                yield (fn, un, "f8", ("lattice", PP, ss, bb))

    ctx.lattice("arrays", units2, one_array, expand=expand2,
                bounds=dict(points=len(P), separations=len(seps), bearings=len(bearings),
                            block_forms=BLOCK_FORMS, window_length=3,
                            windows="cyclic (i,i+1,i+2) and (i,i+n/3,i+2n/3) over each block",
                            variants=[list(map(str, v)) for v in VARIANTS]))

    # ------------------------------------------------------------ call sequences
    # sequences of sphdist/gcirc calls in one process with the same argument objects and all unit settings
    # (mc/worlds.py call_sequences): unit vectors memoised without the unit in the key, results that are
    # views of a module-level work array, scratch state left by the large-angle branch
    from mc.worlds import call_sequences

    def seq_pool():
        return dict(ra=np.array([1.0, 0.5, 3.0]), dec=np.array([0.5, -0.3, 1.2]),
                    ra2=np.array([1.1, 3.6, 0.2]), dec2=np.array([0.4, 0.3, -1.2]))

    SEQ_CALLS = [("sphdist", "arr", ("deg", "deg")), ("sphdist", "arr", ("rad", "rad")), ("sphdist", "arr", ("rad", "deg")),
                 ("sphdist", "scalar", ("deg", "deg")), ("sphdist", "scalar", ("rad", "rad")),
                 ("sphdist", "scalar", ("deg", "rad")), ("sphdist", "antipode", ("deg", "deg")),
                 ("gcirc", "arr"), ("gcirc", "arr2"), ("gcirc", "scalar")]

    def seq_run(c, pool):
        if c[0] == "sphdist":
            if c[1] == "arr":
                return [np.asarray(coords.sphdist(pool["ra"], pool["dec"], pool["ra2"], pool["dec2"], units=list(c[2])))]
            if c[1] == "antipode":
                return [np.asarray(coords.sphdist(10.0, 20.0, np.array([190.0, 10.0, 190.000001]), np.array([-20.0, 20.0, -20.0])))]
            return [np.asarray(coords.sphdist(1.0, 0.5, 1.1, 0.4, units=list(c[2])))]
        if c[1] == "arr":
            return [np.asarray(coords.gcirc(pool["ra"], pool["dec"], pool["ra2"], pool["dec2"]))]
        if c[1] == "arr2":
            return [np.asarray(coords.gcirc(pool["ra2"], pool["dec2"], pool["ra"], pool["dec"] * 0.5))]
        return [np.asarray(coords.gcirc(1.0, 0.5, 1.1, 0.4))]

    def seq_mut(m, pool):
        pool[m[0]][:] = pool[m[0]][::-1].copy()

    call_sequences(ctx, "call-sequences", seq_pool, SEQ_CALLS, seq_run, lambda: [coords], depth=ctx.pick(3, 4),
                   mutations=[("ra",)], mutate=seq_mut, nodedup_depth=3)

    # ------------------------------------------------------------ long arrays (block-wise evaluation)
    # one call on millions of rows: a base block of pairs (all separations, identical pairs, antipodes) tiled with a
    # period coprime to every decimal/binary block size, so identical pairs and large separations sit at every
    # residue of any block boundary; each element against the long-double truth of its base pair
    def one_long(case, rec):
        fn, units, n, form = case
        uin, uout = units_of(fn, units)
        base = []
        for p in P[:6]:
            for q in partners(p, tuple(P[:3]), (1e-9, 0.03, 1.0, 90.0, 179.0, 180 - 1e-6), (0.0, 77.0)):
                base.append((p[0], p[1], q[0], q[1]))
        base = np.array(base[:199], dtype="f8")            # 199 is prime
        if uin == "rad":
            base = np.radians(base)
        t = true_sep(base[:, 0], base[:, 1], base[:, 2], base[:, 3], uin)
        tout = t / D2R if uout == "deg" else t
        tol, vmax = limits(fn, uout)
        ident = (base[:, 0] == base[:, 2]) & (base[:, 1] == base[:, 3])
        idx = np.arange(n) % base.shape[0]
        cols = [np.ascontiguousarray(base[idx, j]) for j in range(4)]
        if form == "centre":                                # scalar first point against a long array containing it
            k = int(np.nonzero(ident)[0][0])
            a = (float(base[k, 0]), float(base[k, 1]))
            b = (cols[2], cols[3])
            t = true_sep(np.full(base.shape[0], a[0]), np.full(base.shape[0], a[1]), base[:, 2], base[:, 3], uin)
            tout = t / D2R if uout == "deg" else t
            ident = (base[:, 2] == a[0]) & (base[:, 3] == a[1])
        else:
            a, b = (cols[0], cols[1]), (cols[2], cols[3])
        keep = [c.copy() for c in cols]
        try:
            out = np.asarray(call(fn, units, a, b))
        except Exception as e:
            return rec.fail(case, "%s on %d rows raised %s: %s" % (fn, n, type(e).__name__, e))
        if out.shape != (n,):
            return rec.fail(case, "%s on %d rows returned shape %r" % (fn, n, out.shape))
        for c, k0 in zip(cols, keep):
            if not np.array_equal(c, k0):
                return rec.fail(case, "%s on %d rows modified an input array" % (fn, n))
        err = np.abs(out.astype(LD) - tout[idx])
        badm = ~(err <= tol) | ~(out >= 0) | ~(out <= vmax) | (ident[idx] & (out != 0))
        if badm.any():
            i = int(np.nonzero(badm)[0][0])
            return rec.fail(case, "%s%s on %d rows (%s): row %d (base pair %r) is %.17g, true %.17g, identical=%s; %d rows wrong" % (
                fn, "" if units is None else list(units), n, form, i, base[idx[i]].tolist(), float(out[i]), float(tout[idx[i]]),
                bool(ident[idx[i]]), int(badm.sum())))
        rec.ok(case, outcome="long:%s:%s" % (fn, form), nontrivial=bool(ident.any()))

    # each length = a decimal or binary mark + more than one base period, so every base pair also sits beyond the mark
    from mc.longarr import marks as _marks
    from mc.longarr import harvest_lengths
    # ... plus lengths derived from the integer constants of the code under test (a block size comes as a literal)
    hl, hblocks = harvest_lengths([coords])
    long_ns = tuple(m + 200 for m in _marks(ctx)) + ctx.pick((), (65736, 1000200)) + tuple(n for n in hl if n >= 1000)
    ctx.notes.append("long-arrays: integer constants harvested from esutil.coords: %r" % (hblocks,))
    lunits = [(fn, un, n, form) for n in long_ns for fn, un in (("sphdist", None), ("sphdist", ("rad", "deg")), ("gcirc", None))
              for form in ("arrays", "centre")]
    ctx.lattice("long-arrays", lunits, one_long, bounds=dict(lengths=list(long_ns), base_period=199, forms=["arrays", "centre"]))

    # ------------------------------------------------------------ arguments that are views of ONE buffer
    # the four coordinate arguments as the same objects, overlapping windows, strided and reversed views of one
    # array: the answer is that of independent copies, and the buffer is untouched
    def one_alias(case, rec):
        fn, un, vname = case
        buf = np.array([10.0, 20.0, 30.0, 40.0, 50.0, 60.0, 15.5, 80.0, 10.0, 20.0, 200.0, 20.0])
        views = {"same-objects": (buf[:6], buf[6:], buf[:6], buf[6:]), "ra-is-dec": (buf[:6], buf[:6], buf[6:], buf[6:]),
                 "overlap": (buf[0:6], buf[3:9], buf[2:8], buf[5:11]), "strided": (buf[::2], buf[1::2], buf[1::2], buf[::2]),
                 "reversed": (buf[:6], buf[6:], buf[:6][::-1], buf[6:][::-1]), "one-array-four-times": (buf[:6], buf[:6], buf[:6], buf[:6])}
        a1, d1, a2, d2 = views[vname]
        if un is not None and un[0] == "rad":
            return rec.ok(case, outcome="alias:skipped", nontrivial=False)
        d1c, d2c = np.clip(d1, -90, 90), np.clip(d2, -90, 90)
        if not (np.array_equal(d1, d1c) and np.array_equal(d2, d2c)):
            # latitudes beyond 90 are not positions: use the same views of a buffer scaled into range
            buf = buf * 0.4
            views = {"same-objects": (buf[:6], buf[6:], buf[:6], buf[6:]), "ra-is-dec": (buf[:6], buf[:6], buf[6:], buf[6:]),
                     "overlap": (buf[0:6], buf[3:9], buf[2:8], buf[5:11]), "strided": (buf[::2], buf[1::2], buf[1::2], buf[::2]),
                     "reversed": (buf[:6], buf[6:], buf[:6][::-1], buf[6:][::-1]), "one-array-four-times": (buf[:6], buf[:6], buf[:6], buf[:6])}
            a1, d1, a2, d2 = views[vname]
        keep = buf.copy()
        try:
            got = np.asarray(call(fn, un, (a1, d1), (a2, d2)))
            ref = np.asarray(call(fn, un, (a1.copy(), d1.copy()), (a2.copy(), d2.copy())))
        except Exception as e:
            return rec.fail(case, "%s on %s views of one buffer raised %s: %s" % (fn, vname, type(e).__name__, e))
        if buf.tobytes() != keep.tobytes():
            return rec.fail(case, "%s on %s views modified the buffer" % (fn, vname))
        if got.shape != ref.shape or not np.array_equal(got, ref):
            return rec.fail(case, "%s on %s views of one buffer gives %r, on independent copies %r" % (fn, vname, got.tolist(), ref.tolist()))
        t = true_sep(a1, d1, a2, d2, "deg")
        tol, vmax = limits(fn, units_of(fn, un)[1])
        tout = t / D2R if units_of(fn, un)[1] == "deg" else t
        if not np.all(np.abs(got.astype(LD) - tout) <= tol):
            return rec.fail(case, "%s on %s views: %r, true %r" % (fn, vname, got.tolist(), [float(v) for v in tout]))
        rec.ok(case, outcome="alias:%s" % vname, nontrivial=True, calls=2)

    aunits = [(fn, un, v) for fn, un in VARIANTS for v in ("same-objects", "ra-is-dec", "overlap", "strided", "reversed", "one-array-four-times")]
    ctx.lattice("aliased-arguments", aunits, one_alias, bounds=dict(views=["same-objects", "ra-is-dec", "overlap", "strided", "reversed", "one-array-four-times"]))

    # ------------------------------------------------------------ raw radian longitudes far outside [0, 2 pi)
    # longitudes given in radians whose raw difference is a whole number of DEGREE turns (360.0, 720.0 rad), of radian
    # turns (2 pi k) or neither, at equal and at different latitudes: nothing about 360 applies to radian input
    def one_rawrad(case, rec):
        un, l1, b1, dl, db = case
        l2, b2 = l1 + dl, b1 + db
        t = true_sep(np.array([l1]), np.array([b1]), np.array([l2]), np.array([b2]), "rad")[0]
        uout = un[1]
        tol, vmax = limits("sphdist", uout)
        tout = t / D2R if uout == "deg" else t
        for form in ("scalar", "array"):
            try:
                if form == "scalar":
                    got = coords.sphdist(l1, b1, l2, b2, units=list(un))
                else:
                    got = coords.sphdist(np.array([l1, l1]), np.array([b1, b1]), np.array([l2, l2]), np.array([b2, b2]), units=list(un))
            except Exception as e:
                return rec.fail(case, "sphdist raised %s: %s" % (type(e).__name__, e))
            g = float(np.asarray(got).reshape(-1)[0])
            if not abs(LD(g) - tout) <= max(tol, LD(4e-13) * abs(LD(dl)) / (D2R if uout == "deg" else 1)):
                return rec.fail(case, "sphdist(%r, %r, %r, %r, units=%r) [%s] = %r, true %r" % (l1, b1, l2, b2, list(un), form, g, float(tout)))
        rec.ok(case, outcome="rawrad", nontrivial=True, calls=2)

    rrunits = [(un, l1, b1, dl, db) for un in (("rad", "rad"), ("rad", "deg")) for l1 in (0.0, 1.5, -2.0, 5.0) for b1 in (0.3, -0.2, 0.0)
               for dl in (360.0, -360.0, 720.0, 180.0, 90.0, 2 * math.pi, 4 * math.pi, 359.0) for db in (0.0, 0.25)]
    ctx.lattice("raw-radian-longitudes", rrunits, one_rawrad, bounds=dict(differences=[360.0, -360.0, 720.0, 180.0, 90.0, "2 pi", "4 pi", 359.0], units=["rad->rad", "rad->deg"]))
