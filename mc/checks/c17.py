"""C17 - Gauss-Legendre rules are exact to degree 2n-1 and the integrators use them (E1 + E2)."""
import bisect
import functools
import math
import random
import struct
from fractions import Fraction

import numpy as np
import numpy.polynomial.legendre as npleg

from mc.util import fingerprint

RULE = (
    "rule: every (n, interval) with n = 1..200 and the listed larger n (up to 2000) x the fixed "
    "interval alphabet (unit, offset negative, tiny, denormal-scale tiny, huge, reversed a>b, "
    "offset-tiny for n<=20, two seed-chosen generic intervals); non-trivial = n is 1 or odd "
    "(middle node written twice by the mirrored fill) or the interval is not (-1,1).  "
    "exact: every basis polynomial s^k, P_k(s), t^k, k = 0..2n-1, n <= 30, x interval, plus "
    "fixed/seed coefficient vectors of degree 2n-1; non-trivial = degree >= n (beyond what any "
    "n-point interpolatory rule does).  integrate: full product entry point {QGauss(n).integrate, "
    "QGauss().integrate(npts=n), qgauss (after a qgauss call with another point count), "
    "integrate_func/integrate_data} x npts alphabet x {integrand x interval x container | table}; "
    "non-trivial = everything except the constant integrand.  qgauss2: all (nx,ny) x integrand x "
    "range pair x container, each followed by a call on another range and a bit-identical repeat; "
    "non-trivial = nx != ny or x-range != y-range.  histories: BFS over ALL sequences (no merging "
    "below the depth bound) of integrate calls (two functions and a bound method on three intervals, "
    "one of them reversed; two tables; npts in {None,2,5,9,seed}) on one QGauss(None|5); every call "
    "of every history is compared bit-for-bit with the same call on a fresh object built with the "
    "effective point count, and with the reference rule."
)
ASSUMPTIONS = [
    "reference rule: numpy.polynomial.legendre.leggauss (Golub-Welsch eigenvalues) polished by Newton steps "
    "on the three-term recurrence in 80-bit long double; the check aborts (harness error) if the two "
    "disagree by more than 1e-12, so the oracle is two independent computations that agree",
    "a>b: the statement's 'ascending' and 'positive' are read as 'monotone from a to b' and 'sign of b-a' "
    "(the rule of the oriented integral); (b-a) in every tolerance means |b-a|",
    "abscissa agreement / symmetry tolerance (not in the statement): 1e-12*|b-a|/2 + 4 ulp(max(|a|,|b|))",
    "weight agreement tolerance (not in the statement): 1e-9*|b-a| absolute per weight; weight symmetry 1e-12*|b-a|",
    "sum of weights: 1e-9*|b-a|, i.e. the statement's polynomial bound for p = 1",
    "integrators: |result - sum W f(X)| <= 1e-9*|b-a|*max_i|f(X_i)| (2-d: |area|), the statement's polynomial "
    "bound applied to the integrand values at the nodes; X, W the mapped reference rule",
    "max|p| of a coefficient-vector polynomial is taken over 2001 equally spaced points and the nodes",
    "strict interiority is only decidable when the outermost node is more than an ulp of the end point away "
    "from it: offset tiny intervals are enumerated for n <= 20 only",
    "a QGauss object that never received a point count must raise ValueError from integrate (the code's "
    "documented behaviour; the statement is silent) and stay unchanged",
    "tabulated data: numpy arrays with strictly ascending x (what interplin/searchsorted require); the float32 "
    "table has dyadic values so that its differences are exact in float32; "
    "integrands passed to integrate() are python functions or bound methods (the dispatch is on FunctionType/MethodType)",
    "lattice statement only: holds on every listed (n, interval, integrand) point, not for all reals",
]

LD = np.longdouble

# ----------------------------------------------------------------------------
# reference model


@functools.lru_cache(maxsize=None)
def ref_rule(n):
    """Gauss-Legendre rule on [-1,1], ascending: (x, w) long double arrays"""
    x0, w0 = npleg.leggauss(n)
    z = x0.astype(LD)

    def pn(z):
        p1 = np.ones_like(z)
        p2 = np.zeros_like(z)
        for j in range(1, n + 1):
            p3 = p2
            p2 = p1
            p1 = ((2 * j - 1) * z * p2 - (j - 1) * p3) / j
        return p1, n * (z * p1 - p2) / (z * z - 1)

    for _ in range(3):
        p, dp = pn(z)
        z = z - p / dp
    p, dp = pn(z)
    w = 2 / ((1 - z * z) * dp * dp)
    # self-check of the oracle: two independent computations must agree
    ex = float(np.abs(z - x0).max())
    ew = float(np.abs(w - w0).max())
    if not (ex < 1e-12 and ew < 1e-12 and abs(float(w.sum()) - 2.0) < 1e-15 * max(n, 8)
            and (n == 1 or bool(np.all(np.diff(z) > 0)))):
        raise AssertionError("reference rule self-check failed for n=%d: dx=%g dw=%g" % (n, ex, ew))
    z.setflags(write=False)
    w.setflags(write=False)
    return z, w


def mapped_ref(a, b, n):
    """reference rule on the oriented interval a->b in long double (monotone from a to b)"""
    z, w = ref_rule(n)
    m = (LD(a) + LD(b)) / 2
    h = (LD(b) - LD(a)) / 2
    return m + h * z, h * w


def lin_interp(xs, ys, u):
    """piecewise linear interpolant of the table (xs ascending) at the points u inside it"""
    out = []
    for t in u:
        k = bisect.bisect_right(xs, t) - 1
        k = min(max(k, 0), len(xs) - 2)
        out.append(ys[k] + (t - xs[k]) * (ys[k + 1] - ys[k]) / (xs[k + 1] - xs[k]))
    return out


def bits(v):
    return struct.pack("<d", float(v))


# ----------------------------------------------------------------------------
# alphabets

N_LARGE_Q = [250, 300, 500, 750, 1000, 1250, 1500, 1750, 2000]
N_LARGE_T = list(range(201, 601)) + list(range(625, 2001, 25))

INTERVALS = [(-1.0, 1.0), (0.0, 1.0), (-3.0, -1.0), (0.0, 1e-9), (0.0, 1e-300),
             (-1e6, 1e6), (2.0, 1.0)]
INTERVALS_T = [(1e-300, 0.0), (-1e300, 1e300), (1.0, 1e6), (-0.1, 0.2)]
INTERVALS_SMALL_N = [(5.0, 5.0 + 1e-9), (1e10, 1e10 + 1.0),      # n <= 20 only
                     # narrow windows at large, non-dyadic offsets (a Julian-date window, a frequency band): the
                     # half width must not be taken from a rounded midpoint
                     (1e6 + 0.1, 1e6 + 0.1 + 1e-3), (123456.789, 123456.79), (2459000.5123, 2459000.5124),
                     # widths whose half is a SUBNORMAL number (below 2.2e-308), with subnormal and with normal end points:
                     # a process in flush-to-zero mode (an extension linked with -ffast-math switches the whole process
                     # to it when it is loaded) collapses these rules to zero
                     (0.0, 1e-310), (1e-308, 3e-308), (-2e-308, 2e-308), (3e-308, 1e-308)]
SMALL_N = 20

EXACT_NMAX = 30
EXACT_INTERVALS = [(-1.0, 1.0), (0.0, 2.0), (-3.0, -1.0), (2.0, 1.0)]
EXACT_INTERVALS_SCALED = [(0.0, 1e-9), (-1e6, 1e6)]               # families in s only


def fixed_coefs(n):
    d = 2 * n
    return [
        ("leg", tuple(1.0 / (1 + k) for k in range(d))),
        ("pow", tuple(float((-1) ** k * (1 + k % 3)) for k in range(d))),
        ("leg", tuple(round(math.cos(k * k + 1.0), 6) for k in range(d))),
    ]


class _Methods(object):
    """integrand given as a bound method (the MethodType branch of the dispatch)"""

    def __init__(self, s):
        self.s = s

    def gauss(self, x):
        return np.exp(-0.5 * (x / self.s) ** 2)


_M = _Methods(0.7)

FUNCS = {
    "const": lambda x: 0.0 * x + 2.5,
    # integrands that return ONE number for the whole array of abscissae (a flat background): the weighted sum of a
    # constant c is c * (b - a)
    "scalar-const": lambda x: 2.5,
    "npscalar-const": lambda x: np.float64(-1.25),
    "cubic": lambda x: x ** 3 - 2.0 * x + 1.0,
    "exp": lambda x: np.exp(x),
    "cos3": lambda x: np.cos(3.0 * x),
    "runge": lambda x: 1.0 / (1.0 + 25.0 * x * x),
    "sqrt5": lambda x: np.sqrt(x + 5.0),
    "gauss-method": _M.gauss,
}


def _f1_pointwise(x):
    x = np.asarray(x, dtype="f8")
    return np.array([math.cos(3.0 * float(t)) + float(t) for t in x.ravel()]).reshape(x.shape)


def _f1_prealloc(x):
    x = np.asarray(x, dtype="f8")
    out = np.empty(x.shape)
    out[...] = np.cos(3.0 * x) + x
    return out


def _f1_list(x):
    return [math.cos(3.0 * float(t)) + float(t) for t in np.asarray(x, dtype="f8").ravel()] if np.ndim(x) else math.cos(3.0 * float(x)) + float(x)


# the same integrand in the styles user code comes in (point by point, preallocated output, a plain list returned)
FUNCS.update({"style:pointwise": _f1_pointwise, "style:prealloc": _f1_prealloc, "style:list": _f1_list})
F_INTERVALS = [(0.0, 1.0), (-1.0, 1.0), (-3.0, -1.0), (2.0, 1.0), (0.0, 1e-9),
               (5.0, 5.0 + 1e-9), (-1e6, 1e6)]
F_SKIP = {("exp", (-1e6, 1e6)), ("cos3", (-1e6, 1e6)), ("sqrt5", (-1e6, 1e6))}
XKINDS = ["list", "tuple", "array"]

TABLES = [
    # (dtype x, dtype y, xs, ys)
    ("f8", "f8", tuple(round(0.1 * i, 12) for i in range(11)),
     tuple(round(math.sin(2 * math.pi * 0.1 * i) + 0.1 * i, 12) for i in range(11))),
    ("f8", "f8", (0.0, 0.1, 0.15, 0.7, 2.0, 2.5), (1.0, 3.0, -2.0, 0.5, 4.0, 4.0)),
    ("f8", "f8", (-1.0, 3.0), (2.0, 5.0)),
    ("f8", "f8", (0.0, 1.0, 2.0), (0.0, 1.0, 0.0)),
    ("f8", "f8", (-5.5, -4.0, -3.75, -1.0), (0.0, -1.0, -1.0, 2.0)),
    ("i8", "i8", (0, 1, 2, 4, 8), (1, 0, 3, 2, 5)),
    ("f4", "f4", (0.0, 0.25, 1.5, 2.0), (1.0, -1.0, 0.5, 2.0)),
    ("f8", "f8", (0.0, 2.5e-10, 1e-9), (1.0, 2.0, 0.0)),
    ("f8", "f8", (-1e6, 0.0, 10.0, 1e6), (0.0, 1.0, 3.0, -2.0)),
    # same size and end points as table 1, other interior spacing (a bracket cache keyed by size/ends must not mix them)
    ("f8", "f8", (0.0, 0.6, 1.1, 1.2, 1.9, 2.5), (1.0, 3.0, -2.0, 0.5, 4.0, 4.0)),
    # unevenly spaced tables that look regular to a cheap test (first step == last step == mean step, interior uneven)
    ("f8", "f8", (0.0, 1.0, 1.5, 3.5, 4.0, 5.0), (0.0, 3.0, -1.0, 2.0, 5.0, 1.0)),
    ("f8", "f8", (2.0, 4.0, 5.0, 6.0, 7.0, 8.0, 14.0, 16.0), (1.0, 0.0, 4.0, -2.0, 3.0, 9.0, 0.5, 2.0)),
    ("f8", "f8", (0.0, 1.0, 1.25, 2.75, 3.0, 4.0), (1.0, 2.0, 10.0, -3.0, 0.0, 1.0)),
]

NPTS = [1, 2, 3, 4, 5, 8, 16, 33, 64, 100, 200]
ENTRIES = ["ctor", "call", "qgauss", "direct"]

F2 = {
    "expcos+xy": lambda x, y: np.exp(x) * np.cos(y) + x * y,
    "x+10y": lambda x, y: x + 10.0 * y,
    "x2y3": lambda x, y: x ** 2 * (y ** 3 + 1.0),
    "scalar-const": lambda x, y: 1.5,
    "runge2": lambda x, y: 1.0 / (1.0 + x * x + 4.0 * y * y),
}


# the same integrand written in the styles user code comes in: the library calls it with two arrays of equal shape (or
# two scalars); an integrand need not be a pure broadcasting expression
def _g2(x, y):
    return np.cos(x) * y + x * x + 0.25 * y


def _f2_stack(x, y):
    p = np.stack([np.asarray(x, dtype="f8"), np.asarray(y, dtype="f8")])          # position vectors
    return np.cos(p[0]) * p[1] + p[0] * p[0] + 0.25 * p[1]


def _f2_prealloc(x, y):
    x = np.asarray(x, dtype="f8")
    out = np.empty(x.shape)
    out[...] = _g2(x, np.asarray(y, dtype="f8"))
    return out


def _f2_pointwise(x, y):
    x, y = np.asarray(x, dtype="f8"), np.asarray(y, dtype="f8")
    return np.array([float(_g2(a, b)) for a, b in zip(x.ravel(), y.ravel())]).reshape(x.shape)


def _f2_masked(x, y):
    x, y = np.asarray(x, dtype="f8"), np.asarray(y, dtype="f8")
    out = np.zeros_like(x)
    m = y > -1e300
    out[m] = _g2(x[m], y[m])
    return out


class _Memo2(object):
    """an integrand that keeps what it computed (a model evaluated once per grid) and hands the SAME array out again"""

    def __init__(self):
        self.cache = {}

    def __call__(self, x, y):
        if np.ndim(x) == 0:
            return _g2(x, y)
        key = (np.asarray(x).tobytes(), np.asarray(y).tobytes())
        if key not in self.cache:
            self.cache[key] = np.asarray(_g2(np.asarray(x, dtype="f8"), np.asarray(y, dtype="f8")), dtype="f8")
        return self.cache[key]


class _Memo1(object):
    def __init__(self):
        self.cache = {}

    def __call__(self, x):
        if np.ndim(x) == 0:
            return math.cos(3.0 * float(x)) + float(x)
        key = np.asarray(x).tobytes()
        if key not in self.cache:
            self.cache[key] = np.cos(3.0 * np.asarray(x, dtype="f8")) + np.asarray(x, dtype="f8")
        return self.cache[key]


def _f1_mutates(x):
    if np.ndim(x) == 0:
        return float(x) * float(x) + 1.0
    x *= x                       # works on the array it was handed (it is the integrand's to use)
    x += 1.0
    return x


def _f2_mutates(x, y):
    if np.ndim(x) == 0:
        return float(x) * float(y) + 2.0
    x *= y
    x += 2.0
    return x


F2.update({"style:mutates-its-arguments": _f2_mutates})
FUNCS.update({"style:mutates-its-argument": _f1_mutates})
F2.update({"style:memoised": _Memo2()})
FUNCS.update({"style:memoised": _Memo1().__call__})     # (QGauss.integrate takes functions and bound methods; other callables are data to it)
F2.update({"style:stack": _f2_stack, "style:prealloc": _f2_prealloc, "style:pointwise": _f2_pointwise, "style:masked": _f2_masked})

RANGES2 = [((0.0, 2.0), (-1.0, 3.0)), ((-1.0, 1.0), (-1.0, 1.0)), ((1.0, 0.0), (0.0, 2.0)),
           ((0.0, 1e-9), (-1e3, 1e3)), ((-3.0, -1.0), (2.0, 1.0)),
           ((2.0, 0.0), (3.0, -1.0)), ((1.0, -1.0), (1.0, -1.0))]          # BOTH ranges reversed: the signs cancel

H_FUNC_EVENTS = [("func", "exp", (0.0, 2.0)), ("func", "runge", (-1.0, 0.5)),
                 ("func", "gauss-method", (1.0, -1.0))]
H_TABLES = [1, 3, 9]        # indices into TABLES (9 = twin of 1: same size and end points)
H_NPTS = [None, 2, 5, 9]


def interval_class(a, b):
    lo, hi = min(a, b), max(a, b)
    wdt = hi - lo
    big = max(abs(a), abs(b))
    c = []
    if a > b:
        c.append("reversed")
    if wdt <= 1e-6 * big:
        c.append("offset-tiny")
    elif wdt <= 1e-6:
        c.append("tiny")
    elif wdt >= 1e6:
        c.append("huge")
    elif (a, b) == (-1.0, 1.0):
        c.append("canonical")
    else:
        c.append("plain")
    return "+".join(c)


def n_class(n):
    if n == 1:
        return "n=1"
    if n > 200:
        return "n>200"
    return "odd" if n % 2 else "even"


# ----------------------------------------------------------------------------


def main(ctx):
    # every lattice part once more under FP traps + warnings-as-errors (clean on the unchanged tree, see DESIGN section 0)
    ctx.envstrict_all = True
    from esutil import integrate
    from esutil.integrate import QGauss, QGauss2, gauleg, qgauss

    rnd = random.Random(1000 + ctx.seed)
    seed_intervals = []
    a0 = round(rnd.uniform(-10, 10), 3)
    seed_intervals.append((a0, round(a0 + 10 ** rnd.uniform(-2, 2), 4)))
    a1 = round(rnd.uniform(-10, 10), 3)
    seed_intervals.append((round(a1 + 10 ** rnd.uniform(-2, 2), 4), a1))
    seed_ns = sorted(rnd.sample(range(201, 2000), 2))
    seed_npts = rnd.randrange(6, 61)
    seed_hnpts = rnd.choice([3, 4, 6, 7, 8, 12, 17, 30])
    ctx.notes.append("seed-chosen generic symbols: intervals %r, n %r, npts %d, history npts %d"
                     % (seed_intervals, seed_ns, seed_npts, seed_hnpts))

    # ------------------------------------------------------------------ rule
    def get_rule(case, rec, a, b, n):
        """call gauleg and do the structural checks; returns (x, w) or None after rec.fail"""
        try:
            r = gauleg(a, b, n)
        except Exception as e:
            rec.fail(case, "gauleg raised %s: %s" % (type(e).__name__, e))
            return None
        if not (isinstance(r, tuple) and len(r) == 2):
            rec.fail(case, "gauleg did not return a pair: %r" % (r,))
            return None
        x, w = r
        for nm, v in (("abscissae", x), ("weights", w)):
            if not (isinstance(v, np.ndarray) and v.dtype == np.float64 and v.shape == (n,)):
                rec.fail(case, "gauleg %s are not a float64 array of n elements: %r" % (nm, v))
                return None
            if not np.all(np.isfinite(v)):
                rec.fail(case, "gauleg %s not finite: %r" % (nm, v[:6].tolist()))
                return None
        return x, w

    def one_rule(case, rec):
        a, b, n = case
        r = get_rule(case, rec, a, b, n)
        if r is None:
            return
        x, w = r
        wid = abs(b - a)
        sgn = 1.0 if b > a else -1.0
        lo, hi = min(a, b), max(a, b)
        tolx = 1e-12 * wid / 2 + 4 * float(np.spacing(max(abs(a), abs(b))))
        if not (np.all(x > lo) and np.all(x < hi)):
            return rec.fail(case, "abscissae not strictly inside the interval: min-lo=%r hi-max=%r"
                            % (float(x.min() - lo), float(hi - x.max())))
        if n > 1 and not np.all(np.diff(x) * sgn > 0):
            return rec.fail(case, "abscissae not strictly monotone from a to b")
        if not np.all(w * sgn > 0):
            return rec.fail(case, "weights do not all have the sign of b-a: %r" % (w[:6].tolist(),))
        xl = x.astype(LD)
        sym = float(np.abs((xl + xl[::-1]) - (LD(a) + LD(b))).max())
        if not sym <= 2 * tolx:
            return rec.fail(case, "abscissae not symmetric about the midpoint: worst x_i+x_(n-1-i)-(a+b) = %r" % sym)
        wsym = float(np.abs(w - w[::-1]).max())
        if not wsym <= 1e-12 * wid:
            return rec.fail(case, "weights not symmetric: worst |w_i-w_(n-1-i)|/|b-a| = %r" % (wsym / wid))
        ssum = math.fsum(w.tolist())
        if not abs(ssum - (b - a)) <= 1e-9 * wid:
            return rec.fail(case, "weights do not sum to b-a: relative error %r" % (abs(ssum - (b - a)) / wid))
        X, W = mapped_ref(a, b, n)
        ex = float(np.abs(xl - X).max())
        if not ex <= tolx:
            return rec.fail(case, "abscissae differ from the reference rule: worst %r (tolerance %r)" % (ex, tolx))
        ew = float(np.abs(w.astype(LD) - W).max())
        if not ew <= 1e-9 * wid:
            return rec.fail(case, "weights differ from the reference rule: worst |dw|/|b-a| = %r" % (ew / wid))
        rec.ok(case, outcome="%s/%s" % (interval_class(a, b), n_class(n)),
               nontrivial=bool(n == 1 or n % 2 == 1 or (a, b) != (-1.0, 1.0)), calls=1)

    ns = list(range(1, 201)) + ctx.pick(N_LARGE_Q, N_LARGE_T)
    ns = sorted(set(ns) | set(seed_ns))
    ivs = INTERVALS + ctx.pick([], INTERVALS_T) + seed_intervals

    def expand_rule(n):
        for (a, b) in ivs:
            yield (a, b, n)
        if n <= SMALL_N:
            for (a, b) in INTERVALS_SMALL_N:
                yield (a, b, n)

    ctx.lattice("rule", ns, one_rule, expand=expand_rule,
                bounds=dict(n="1..200 + %r" % (sorted(set(ns) - set(range(1, 201))),),
                            intervals=ivs, intervals_n_le_20=INTERVALS_SMALL_N))

    # ------------------------------------------------------------ parameters in other numeric types
    # n as numpy integers of every width / 0-d array / integral float where accepted, the end points as float32, Python
    # and numpy integers: abscissae and weights must be bit-identical to the call with Python int / float of the same
    # value (a type that is loudly rejected with TypeError is not a wrong answer)
    def one_rule_typed(case, rec):
        a, b, n, what, form = case
        conv = {"i1": np.int8, "u1": np.uint8, "i2": np.int16, "i4": np.int32, "i8": np.int64, "u8": np.uint64, "f4": np.float32, "f8": np.float64,
                "0d": lambda v: np.array(v), "pyint": int}[form]
        try:
            xr, wr = gauleg(float(a), float(b), int(n))
        except Exception as e:
            return rec.fail(case, "reference call raised %s: %s" % (type(e).__name__, e))
        args = [a, b, n]
        if what == "n":
            args[2] = conv(n)
        else:
            args[0], args[1] = conv(a), conv(b)
        try:
            x, w = gauleg(*args)
        except TypeError:
            return rec.ok(case, outcome="typed:%s:%s:rejected-by-type" % (what, form), nontrivial=False, calls=2)
        except Exception as e:
            return rec.fail(case, "gauleg with %s given as %s raised %s: %s" % (what, form, type(e).__name__, e))
        x, w = np.asarray(x), np.asarray(w)
        if x.shape != xr.shape or x.dtype != np.float64 or w.dtype != np.float64 or not (np.array_equal(x, xr) and np.array_equal(w, wr)):
            return rec.fail(case, "gauleg with %s given as %s differs from the call with Python numbers: x %r vs %r" % (what, form, x[:3].tolist(), xr[:3].tolist()))
        rec.ok(case, outcome="typed:%s:%s" % (what, form), nontrivial=True, calls=2)

    tunits = [(a, b, n, "n", f) for (a, b) in ((-1.0, 1.0), (0.0, 3.0)) for n in (1, 2, 5, 20, 100, 127) for f in ("i1", "u1", "i2", "i4", "i8", "u8", "0d")]
    tunits += [(a, b, 200, "n", f) for (a, b) in ((-1.0, 1.0),) for f in ("u1", "i2", "i8", "u8")]
    tunits += [(a, b, n, "ab", f) for (a, b) in ((-1.0, 1.0), (0.0, 3.0), (2.0, -4.0), (0.5, 100.0)) for n in (1, 4, 33) for f in ("f4", "f8", "0d")]
    tunits += [(a, b, n, "ab", f) for (a, b) in ((-1.0, 1.0), (0.0, 3.0), (2.0, -4.0)) for n in (1, 4, 33) for f in ("i1", "i8", "pyint")]
    ctx.lattice("rule-typed-parameters", tunits, one_rule_typed, bounds=dict(types=["i1", "u1", "i2", "i4", "i8", "u8", "f4", "f8", "0-d array", "Python int"]))

    # ----------------------------------------------------------------- exact
    def one_exact(case, rec):
        a, b, n, fam, spec = case
        r = get_rule(case, rec, a, b, n)
        if r is None:
            return
        x, w = r
        wid = abs(b - a)
        m = (a + b) / 2.0
        h = (b - a) / 2.0
        s = (x - m) / h
        if fam == "mono-s":
            k = spec
            vals = s ** k
            exact = h * (1 + (-1) ** k) / (k + 1.0)
            pmax = 1.0
            deg = k
        elif fam == "leg-s":
            k = spec
            c = np.zeros(k + 1)
            c[k] = 1.0
            vals = npleg.legval(s, c)
            exact = 2.0 * h if k == 0 else 0.0
            pmax = 1.0
            deg = k
        elif fam == "mono-t":
            k = spec
            vals = np.array([float(t) ** k for t in x.tolist()])
            fa, fb = Fraction(a), Fraction(b)
            exact = float((fb ** (k + 1) - fa ** (k + 1)) / (k + 1))
            pmax = max(abs(a), abs(b)) ** k
            deg = k
        elif fam == "coef":
            basis, c = spec
            c = np.array(c, dtype="f8")
            grid = np.concatenate([np.linspace(-1.0, 1.0, 2001), s])
            if basis == "leg":
                vals = npleg.legval(s, c)
                gv = npleg.legval(grid, c)
                exact = 2.0 * h * float(c[0])
            else:
                vals = np.polynomial.polynomial.polyval(s, c)
                gv = np.polynomial.polynomial.polyval(grid, c)
                exact = h * math.fsum(float(c[k]) * 2.0 / (k + 1) for k in range(0, len(c), 2))
            pmax = float(np.abs(gv).max())
            deg = len(c) - 1
        else:
            raise ValueError(fam)
        got = math.fsum((w * vals).tolist())
        err = abs(got - exact)
        if not err < 1e-9 * wid * pmax:
            return rec.fail(case, "rule not exact for a polynomial of degree %d <= 2n-1, family %s: "
                            "error/((b-a) max|p|) = %r" % (deg, fam, err / (wid * pmax)))
        rec.ok(case, outcome="%s:%s" % (fam, "deg>=n" if deg >= n else "deg<n"),
               nontrivial=deg >= n, calls=1)

    nmax = EXACT_NMAX
    seed_coefs = {}
    for n in range(1, nmax + 1):
        r2 = random.Random(77 * ctx.seed + n)
        seed_coefs[n] = ("pow", tuple(round(r2.uniform(-1, 1), 6) for _ in range(2 * n)))

    exact_scaled = EXACT_INTERVALS_SCALED + seed_intervals + ctx.pick([], [(1.0, 1e6), (-0.1, 0.2), (0.0, 1e-300)])

    def expand_exact(n):
        for (a, b) in EXACT_INTERVALS + exact_scaled:
            scaled_only = (a, b) in exact_scaled
            for k in range(2 * n):
                yield (a, b, n, "mono-s", k)
                yield (a, b, n, "leg-s", k)
                if not scaled_only:
                    yield (a, b, n, "mono-t", k)
            for spec in fixed_coefs(n) + [seed_coefs[n]]:
                yield (a, b, n, "coef", spec)
                if n > 1:
                    # same vector truncated to degree n (a degree strictly between n-1 and 2n-1)
                    yield (a, b, n, "coef", (spec[0], spec[1][:n + 1]))

    ctx.lattice("exact", list(range(1, nmax + 1)), one_exact, expand=expand_exact,
                bounds=dict(n_max=nmax, intervals=EXACT_INTERVALS, intervals_scaled_families=exact_scaled,
                            families=["mono-s: ((t-m)/h)^k", "leg-s: P_k((t-m)/h)", "mono-t: t^k (exact value by Fraction)",
                                      "coef: 3 fixed + 1 seed coefficient vectors, degree 2n-1 and n"]))

    # ------------------------------------------------------------- integrate
    def run_entry(entry, n, xarg, yarg, isfunc):
        if entry == "ctor":
            return QGauss(n).integrate(xarg, yarg)
        if entry == "call":
            return QGauss().integrate(xarg, yarg, npts=n)
        if entry == "qgauss":
            # qgauss has no object the caller could keep; a call with another point count first,
            # so that "does not depend on point counts used in earlier calls" is exercised
            # deterministically and not only through the order in which a worker meets the cases
            qgauss(xarg, yarg, n + 3)
            return qgauss(xarg, yarg, n)
        q = QGauss(n)
        return q.integrate_func(xarg, yarg) if isfunc else q.integrate_data(xarg, yarg)

    def func_args(fname, iv, xkind):
        a, b = iv
        if xkind == "list":
            xarg = [a, b]
        elif xkind == "tuple":
            xarg = (a, b)
        else:
            xarg = np.array([a, b])
        return xarg, FUNCS[fname]

    def func_expected(fname, iv, n):
        a, b = iv
        X, W = mapped_ref(a, b, n)
        Xd = X.astype("f8")
        vals = np.asarray(FUNCS[fname](Xd), dtype="f8")
        if vals.ndim == 0:
            vals = np.full(Xd.shape, float(vals))
        exp = math.fsum((W.astype("f8") * vals).tolist())
        return exp, 1e-9 * abs(b - a) * float(np.abs(vals).max())

    def table_args(tab):
        dx, dy, xs, ys = tab
        return np.array(xs, dtype=dx), np.array(ys, dtype=dy)

    def table_expected(tab, n):
        dx, dy, xs, ys = tab
        xs = [float(v) for v in np.array(xs, dtype=dx).tolist()]
        ys = [float(v) for v in np.array(ys, dtype=dy).tolist()]
        a, b = xs[0], xs[-1]
        X, W = mapped_ref(a, b, n)
        u = np.clip(X.astype("f8"), a, b).tolist()
        vals = lin_interp(xs, ys, u)
        exp = math.fsum(wi * vi for wi, vi in zip(W.astype("f8").tolist(), vals))
        return exp, 1e-9 * abs(b - a) * max(abs(v) for v in vals)

    def one_integrate(case, rec):
        entry, n, kind, spec = case
        if kind == "func":
            fname, iv, xkind = spec
            xarg, yarg = func_args(fname, iv, xkind)
            exp, tol = func_expected(fname, iv, n)
            oc = "func:%s/%s" % (interval_class(*iv), "method" if fname.endswith("-method") else "function")
            nontriv = fname != "const"
        else:
            xarg, yarg = table_args(spec)
            keep = (xarg.copy(), yarg.copy())
            exp, tol = table_expected(spec, n)
            dxs = np.diff(np.array(spec[2], dtype="f8"))
            even = len(dxs) < 2 or bool(np.all(np.abs(dxs - dxs[0]) <= 1e-9 * abs(dxs[0])))
            oc = "data:%s/%s/%s" % ("2-point" if len(spec[2]) == 2 else ("even" if even else "uneven"),
                                    spec[0], interval_class(float(spec[2][0]), float(spec[2][-1])))
            nontriv = True
        try:
            got = run_entry(entry, n, xarg, yarg, kind == "func")
        except Exception as e:
            return rec.fail(case, "integrator raised (entry %s) %s: %s" % (entry, type(e).__name__, e))
        try:
            gotf = float(got)
        except Exception:
            return rec.fail(case, "integrator returned a non-scalar (entry %s): %r" % (entry, got))
        if not math.isfinite(gotf):
            return rec.fail(case, "integrator result is not finite (entry %s, %s: %r)" % (entry, kind, gotf))
        if not abs(gotf - exp) <= tol:
            return rec.fail(case, "integrator result differs from the weighted sum over the reference rule "
                            "(entry %s, %s): got %r, expected %r, tolerance %r" % (entry, kind, gotf, exp, tol))
        if kind == "data" and not (np.array_equal(xarg, keep[0]) and np.array_equal(yarg, keep[1])):
            return rec.fail(case, "integrator modified the caller's table (entry %s)" % entry)
        rec.ok(case, outcome=oc + ("/n=1" if n == 1 else ""), nontrivial=nontriv,
               calls=2 if entry == "qgauss" else 1)

    npts_alpha = sorted(set(NPTS + [seed_npts] + ctx.pick([], [6, 7, 9, 10, 32, 50, 127, 500, 1000])))
    funcspecs = []
    for fname in FUNCS:
        for iv in F_INTERVALS:
            if (fname, iv) in F_SKIP:
                continue
            for xkind in XKINDS:
                funcspecs.append((fname, iv, xkind))
    units_i = [(entry, n) for entry in ENTRIES for n in npts_alpha]

    def expand_integrate(u):
        entry, n = u
        for spec in funcspecs:
            yield (entry, n, "func", spec)
        for tab in TABLES:
            yield (entry, n, "data", tab)

    ctx.lattice("integrate", units_i, one_integrate, expand=expand_integrate,
                bounds=dict(entries=ENTRIES, npts=npts_alpha, integrands=sorted(FUNCS), intervals=F_INTERVALS,
                            containers=XKINDS, tables=len(TABLES)))

    # ------------------------------------------- rules on neighbouring intervals requested in ONE process
    # every ordered pair of intervals (a1,b1), (a2,b2) over a small end-point alphabet (small integers of both signs, a
    # half, a huge power of two), same point count: rule 1, rule 2, rule 1 again, then the three integrators - all in
    # one process, each compared with the reference rule.  A rule must depend on nothing but its own (a, b, n): not on
    # which rules (sharing an end point, differing by one in an end point, swapped, ...) were requested before it.
    NB_ENDS = [-3.0, -2.0, -1.0, -0.5, 0.0, 1.0, 2.0, 3.0, 2.0 ** 61]
    nb_ivs = [(a, b) for a in NB_ENDS for b in NB_ENDS if a != b]
    nb_ns = sorted(set([1, 2, 5, seed_hnpts] + ctx.pick([], [3, 8, 16, 33])))

    @functools.lru_cache(maxsize=None)
    def nb_ref(a, b, n):
        X, W = mapped_ref(a, b, n)
        wid = abs(b - a)
        return X, W, 1e-12 * wid / 2 + 4 * float(np.spacing(max(abs(a), abs(b)))), 1e-9 * wid

    @functools.lru_cache(maxsize=None)
    def nb_int_ref(n):
        e1, t1 = func_expected("exp", (0.0, 2.0), n)
        e2, t2 = table_expected(TABLES[1], n)
        X, WX = mapped_ref(0.0, 2.0, n)
        Y, WY = mapped_ref(-1.0, 3.0, n)
        terms = [float(WX[i]) * float(WY[j]) * (float(X[i]) + 10.0 * float(Y[j])) for i in range(n) for j in range(n)]
        vmax = max(abs(float(X[i]) + 10.0 * float(Y[j])) for i in range(n) for j in range(n))
        return (e1, t1), (e2, t2), (math.fsum(terms), 1e-9 * 8.0 * vmax)

    def one_neighbour(case, rec):
        n, a1, b1, a2, b2 = case
        for pos, (a, b) in enumerate(((a1, b1), (a2, b2), (a1, b1))):
            r = get_rule(case, rec, a, b, n)
            if r is None:
                return
            x, w = r
            X, W, tolx, tolw = nb_ref(a, b, n)
            ex = float(np.abs(x.astype(LD) - X).max())
            if not ex <= tolx:
                return rec.fail(case, "request %d of the sequence, gauleg(%r, %r, %d): abscissae differ from the reference rule: "
                                "worst %r (tolerance %r), first abscissa %r" % (pos, a, b, n, ex, tolx, float(x[0])))
            ew = float(np.abs(w.astype(LD) - W).max())
            if not ew <= tolw:
                return rec.fail(case, "request %d of the sequence, gauleg(%r, %r, %d): weights differ from the reference rule: "
                                "worst |dw|/|b-a| = %r" % (pos, a, b, n, ew / abs(b - a)))
            if not abs(math.fsum(w.tolist()) - (b - a)) <= tolw:
                return rec.fail(case, "request %d of the sequence, gauleg(%r, %r, %d): weights sum to %r, not b-a"
                                % (pos, a, b, n, math.fsum(w.tolist())))
        r1, r2, r3 = nb_int_ref(n)
        try:
            xt, yt = table_args(TABLES[1])
            g1 = float(QGauss(n).integrate([0.0, 2.0], FUNCS["exp"]))
            g2 = float(qgauss(xt, yt, n))
            g3 = float(QGauss2(n, n).integrate_func([0.0, 2.0], [-1.0, 3.0], F2["x+10y"]))
        except Exception as e:
            return rec.fail(case, "integrator after the rule requests raised %s: %s" % (type(e).__name__, e))
        for nm, g, (e, t) in (("QGauss(n).integrate(exp on [0,2])", g1, r1), ("qgauss(table 1)", g2, r2),
                              ("QGauss2(n,n).integrate_func(x+10y on [0,2]x[-1,3])", g3, r3)):
            if not abs(g - e) <= t:
                return rec.fail(case, "%s after the rule requests = %r differs from the weighted sum over the reference "
                                "rule %r (tolerance %r)" % (nm, g, e, t))
        if (a1, b1) == (a2, b2):
            oc = "same-interval"
        elif (a1, b1) == (b2, a2):
            oc = "swapped"
        elif a1 == a2:
            oc = "share-a/b-differs-by-%s" % ("1" if abs(b1 - b2) == 1.0 else "other")
        elif b1 == b2:
            oc = "share-b/a-differs-by-%s" % ("1" if abs(a1 - a2) == 1.0 else "other")
        else:
            oc = "no-shared-end-point-in-place"
        rec.ok(case, outcome=oc + ("/canonical-involved" if (-1.0, 1.0) in ((a1, b1), (a2, b2)) else ""),
               nontrivial=(a1, b1) != (a2, b2), calls=6)

    def expand_neighbour(u):
        n, a1, b1 = u
        for (a2, b2) in nb_ivs:
            yield (n, a1, b1, a2, b2)

    ctx.lattice("neighbouring-intervals-one-process", [(n, a, b) for n in nb_ns for (a, b) in nb_ivs], one_neighbour,
                expand=expand_neighbour, bounds=dict(end_points=NB_ENDS, intervals=len(nb_ivs), ordered_pairs=len(nb_ivs) ** 2, n=nb_ns))

    # --------------------------------------------------------------- qgauss2
    def one_q2(case, rec):
        nx, ny, fname, xr, yr, kind = case
        f = F2[fname]
        mk = list if kind == "list" else tuple
        try:
            q = QGauss2(nx, ny)
            got = q.integrate_func(mk(xr), mk(yr), f)
        except Exception as e:
            return rec.fail(case, "QGauss2 raised %s: %s" % (type(e).__name__, e))
        X, WX = mapped_ref(xr[0], xr[1], nx)
        Y, WY = mapped_ref(yr[0], yr[1], ny)
        X = X.astype("f8")
        Y = Y.astype("f8")
        WX = WX.astype("f8")
        WY = WY.astype("f8")
        terms = []
        vmax = 0.0
        for i in range(nx):
            for j in range(ny):
                v = float(f(X[i], Y[j]))
                vmax = max(vmax, abs(v))
                terms.append(WX[i] * WY[j] * v)
        exp = math.fsum(terms)
        area = abs((xr[1] - xr[0]) * (yr[1] - yr[0]))
        try:
            gotf = float(got)
        except Exception:
            return rec.fail(case, "QGauss2 returned a non-scalar: %r" % (got,))
        if not math.isfinite(gotf):
            return rec.fail(case, "QGauss2 result is not finite (%r)" % gotf)
        if not abs(gotf - exp) <= 1e-9 * area * vmax:
            return rec.fail(case, "QGauss2 result %r differs from the tensor-product sum %r (tolerance %r)"
                            % (gotf, exp, 1e-9 * area * vmax))
        # the same object, used on another range in between, returns the same bits
        try:
            q.integrate_func([0.5, 0.75], [-2.0, 7.0], f)
            again = q.integrate_func(mk(xr), mk(yr), f)
        except Exception as e:
            return rec.fail(case, "QGauss2 second call raised %s: %s" % (type(e).__name__, e))
        if bits(again) != bits(got):
            return rec.fail(case, "QGauss2 result changed after an intervening call: %r then %r" % (gotf, float(again)))
        oc = "%s/%s/%s" % ("nx=ny" if nx == ny else ("nx<ny" if nx < ny else "nx>ny"),
                           "same-range" if xr == yr else "ranges-differ",
                           "scalar-f" if fname == "scalar-const" else "array-f")
        rec.ok(case, outcome=oc, nontrivial=bool(nx != ny or xr != yr), calls=3)

    n2 = ctx.pick(6, 9)
    units_q2 = [(nx, ny) for nx in range(1, n2 + 1) for ny in range(1, n2 + 1)]
    # rectangular grids first, one-point rules last: the recorder keeps a bounded number of
    # violations per worker and a defect of the degenerate rule must not hide one of the grids
    units_q2.sort(key=lambda u: (min(u) == 1, u[0] == u[1], u))

    def expand_q2(u):
        nx, ny = u
        for fname in F2:
            for (xr, yr) in RANGES2:
                for kind in ("list", "tuple"):
                    yield (nx, ny, fname, xr, yr, kind)

    ctx.lattice("qgauss2", units_q2, one_q2, expand=expand_q2,
                bounds=dict(nx_ny_max=n2, integrands=sorted(F2), ranges=RANGES2))

    # ------------------------------------------------------------- histories
    hnpts = H_NPTS + [seed_hnpts]
    menu = []
    for (k, fname, iv) in H_FUNC_EVENTS:
        for n in hnpts:
            menu.append(("func", fname, iv, n))
    for ti in H_TABLES:
        for n in hnpts:
            menu.append(("data", ti, n))
    menu = tuple(menu)

    def execute(hist, rec):
        if not hist or hist[0][0] != "new":
            raise ValueError("a history starts with ('new', npts0)")
        cur = hist[0][1]
        try:
            qg = QGauss() if cur is None else QGauss(cur)
        except Exception as e:
            rec.fail(hist, "QGauss constructor raised %s: %s" % (type(e).__name__, e))
            return None
        for pos, ev in enumerate(hist[1:]):
            npts = ev[-1]
            eff = npts if npts is not None else cur
            if ev[0] == "func":
                xarg, yarg = func_args(ev[1], ev[2], "list")
            else:
                xarg, yarg = table_args(TABLES[ev[1]])
            before = fingerprint(qg.__dict__)
            try:
                got = qg.integrate(xarg, yarg, npts=npts) if npts is not None else qg.integrate(xarg, yarg)
                err = None
            except ValueError as e:
                got, err = None, "ValueError"
            except Exception as e:
                got, err = None, "%s: %s" % (type(e).__name__, e)
            rec.count("integrate_calls")
            if eff is None:
                if err != "ValueError":
                    rec.fail(hist, "event %d: integrate on an object without a point count did not raise "
                             "ValueError: returned %r / raised %r" % (pos, got, err))
                    return None
                if fingerprint(qg.__dict__) != before:
                    rec.fail(hist, "event %d: a rejected integrate call changed the object" % pos)
                    return None
                rec.count("rejected_no_npts")
                continue
            if err is not None:
                rec.fail(hist, "event %d: integrate raised %s" % (pos, err))
                return None
            # differential: the same call on a fresh object built with the effective point count
            fresh = QGauss(eff).integrate(xarg, yarg)
            rec.count("fresh_object_calls")
            if bits(got) != bits(fresh):
                rec.fail(hist, "event %d: result %r after the history differs from a fresh QGauss with the same "
                         "point count: %r" % (pos, float(got), float(fresh)))
                return None
            if ev[0] == "func":
                exp, tol = func_expected(ev[1], ev[2], eff)
            else:
                exp, tol = table_expected(TABLES[ev[1]], eff)
            if not abs(float(got) - exp) <= tol:
                rec.fail(hist, "event %d: result %r differs from the weighted sum over the reference rule %r"
                         % (pos, float(got), exp))
                return None
            if cur is not None and eff != cur:
                rec.count("npts_changed")
            elif cur is not None:
                rec.count("npts_kept")
            cur = eff
            if qg.npts != cur:
                rec.fail(hist, "event %d: object reports npts=%r after a call with effective point count %r"
                         % (pos, qg.npts, cur))
                return None
        return fingerprint(qg.__dict__), menu

    depth = 1 + ctx.pick(3, 4)
    # every sequence up to the bound is executed (no merging below it); the key only feeds the state count
    ctx.histories("histories", [(("new", None),), (("new", 5),)], execute, depth=depth, nodedup_depth=depth - 1,
                  bounds=dict(npts0=[None, 5], calls_max=depth - 1, npts=hnpts,
                              events=["integrate(function exp on [0,2])", "integrate(function runge on [-1,0.5])",
                                      "integrate(bound method gauss on [1,-1])",
                                      "integrate(table %d)" % H_TABLES[0], "integrate(table %d)" % H_TABLES[1],
                                      "integrate(table %d)" % H_TABLES[2]],
                              key="fingerprint of the whole __dict__ (npts, xxi, wii, f2)"))

    # ------------------------------------------- several live objects (process-wide state)
    # up to 3 QGauss objects (different point counts) alive in one process: a rule cached at module or class
    # level, or scratch arrays shared between objects, must not leak from one integrator into another
    from mc.worlds import object_world

    def q_do(q, kind, op):
        if op[0] == "func":
            return [q.integrate(np.array([0.0, 2.0]), lambda t: np.exp(t), npts=op[1])]
        xs = np.array([0.0, 0.5, 1.5, 2.0, 4.0])
        return [q.integrate(xs, np.array([1.0, 3.0, -1.0, 2.0, 0.5]), npts=op[1])]

    def q_check(kind, op, res):
        eff = op[1]
        x, w = np.polynomial.legendre.leggauss(eff)
        if op[0] == "func":
            exp = float(np.sum(w * np.exp(x + 1.0)))
            if not abs(float(res[0]) - exp) <= 1e-9 * abs(exp):
                return "result %r differs from the %d-point reference rule %r" % (float(res[0]), eff, exp)

    def q_modules():
        import esutil.integrate.util as iu
        return [iu]

    object_world(ctx, "several-objects", ["n3", "n8", "n21"], lambda kind: QGauss({"n3": 3, "n8": 8, "n21": 21}[kind]),
                 # explicit point counts only: a call without npts= uses the object's last count by design
                 [("func", 5), ("func", 12), ("data", 5), ("data", 12)], q_do, q_modules, result_edits=True,
                 depth=ctx.pick(4, 5), check=q_check)

    # ------------------------------------------------------------ call sequences
    # sequences of gauleg / qgauss / QGauss(n).integrate calls in one process, the caller editing returned rules in
    # place between calls (mc/worlds.py call_sequences): a rule table cached at module level and handed out without
    # a copy, interpolation brackets cached by (size, end points) of the abscissa grid
    from mc.worlds import call_sequences, CheckFailed

    def seq_pool():
        return dict(x1=np.array([0.0, 0.5, 1.5, 2.0, 4.0]), x2=np.array([0.0, 1.0, 1.25, 3.5, 4.0]),   # same size and end points
                    y=np.array([1.0, 3.0, -1.0, 2.0, 0.5]))

    SEQ_CALLS = [("gauleg", -1.0, 1.0, 5), ("gauleg", 0.0, 2.0, 5), ("gauleg", -1.0, 1.0, 12), ("gauleg", 3.0, 1.0, 5),
                 ("qgauss", "x1", 5), ("qgauss", "x2", 5), ("qgauss", "x1", 12), ("obj-data", "x1", 5), ("obj-data", "x2", 5),
                 ("obj-func", 5), ("obj-func", 12), ("nested", 5), ("nested", 8)]

    def seq_run(c, pool):
        if c[0] == "nested":
            # re-entrant use: the integrand itself integrates with the SAME object (a nested integral
            # int_0^2 [ int_0^x exp(t) dt ] dx); the inner calls use other interval widths
            qg = QGauss(c[1])
            inner = lambda xs: np.array([qg.integrate(np.array([0.0, float(xi)]), lambda t: np.exp(t)) for xi in np.atleast_1d(xs)])
            got = float(qg.integrate(np.array([0.0, 2.0]), inner))
            gx, gw = np.polynomial.legendre.leggauss(c[1])
            xo = gx + 1.0
            ref = float(np.sum(gw * np.array([np.sum(0.5 * xi * gw * np.exp(0.5 * xi * (gx + 1.0))) for xi in xo])))
            if not abs(got - ref) <= 1e-9 * abs(ref):
                raise CheckFailed("nested integral with one QGauss(%d) object = %r, the weighted double sum over the reference "
                                  "rule = %r" % (c[1], got, ref))
            return [np.asarray(got)]
        if c[0] == "gauleg":
            x, w = gauleg(c[1], c[2], c[3])
            rx, rw = np.polynomial.legendre.leggauss(c[3])
            ex = 0.5 * (c[2] - c[1]) * rx + 0.5 * (c[1] + c[2])
            ew = 0.5 * (c[2] - c[1]) * rw
            if not (np.allclose(np.sort(x), np.sort(ex), rtol=0, atol=1e-12 * max(1.0, abs(c[1]), abs(c[2])))
                    and abs(np.sum(w) - (c[2] - c[1])) <= 1e-9 * abs(c[2] - c[1])):
                raise CheckFailed("gauleg(%r,%r,%d) = %r, %r; reference rule %r, %r"
                                  % (c[1], c[2], c[3], x.tolist(), w.tolist(), ex.tolist(), ew.tolist()))
            return [x, w]
        if c[0] == "qgauss":
            return [np.asarray(qgauss(pool[c[1]], pool["y"], c[2]))]
        if c[0] == "obj-data":
            return [np.asarray(QGauss(c[2]).integrate(pool[c[1]], pool["y"]))]
        return [np.asarray(QGauss(c[1]).integrate(np.array([0.0, 2.0]), lambda t: np.exp(t)))]

    call_sequences(ctx, "call-sequences", seq_pool, SEQ_CALLS, seq_run, lambda: [integrate.util], depth=ctx.pick(3, 4),
                   nodedup_depth=3, result_edits=True)

    # ------------------------------------------------------------ many distinct calls on one object, then each again
    from mc.worlds import revisit
    revisit(ctx, "revisit-after-many-distinct-calls", {
        "gauleg(44 rules)": (lambda: None, [("gauleg", -1.0 - 0.1 * k, 2.0 + 0.3 * k, 1 + k) for k in range(44)], lambda o, c: list(gauleg(c[1], c[2], c[3]))),
        "one QGauss, 44 point counts": (lambda: QGauss(5), [("npts", 1 + k) for k in range(44)], lambda q, c: [np.asarray(q.integrate([0.0, 2.0], FUNCS["exp"], npts=c[1]))]),
        "one QGauss, 44 ranges": (lambda: QGauss(9), [("range", -1.0 + 0.05 * k, 1.0 + 0.1 * k) for k in range(44)], lambda q, c: [np.asarray(q.integrate([c[1], c[2]], FUNCS["runge"]))]),
        "one QGauss2, 44 ranges": (lambda: QGauss2(4, 5), [("range", -1.0 + 0.05 * k, 1.0 + 0.1 * k) for k in range(44)],
                                   lambda q, c: [np.asarray(q.integrate_func([c[1], c[2]], [c[2], c[1] + 5.0], F2["x2y3"]))]),
    })
