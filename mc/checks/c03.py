"""C03 - appends accumulate: the file equals the concatenation of all writes (E2)."""
import hashlib
import os

import numpy as np

from mc.oracle import table as T
from mc.util import fingerprint, pristine

RULE = (
    "explicit-state BFS over histories of {create(delim,header,k) [= overwrite when the file exists], "
    "append-by-reopen(k), append(incompatible chunk of 7 kinds), open(mode,delim), write-on-handle(k,header), "
    "bad-write-on-handle(kind), close} on ONE path, every transition executed on the real sfile/recfile code "
    "from a fresh file (replay), compared after every step with a reference model (list of rows, creation "
    "header, delimiter); all histories up to depth d0 are run, deeper ones are de-duplicated on (SHA-1 of the "
    "file bytes, fingerprint of the open handle's python state, model state).  A second world drives the "
    "header-less Recfile/recfile.write path; a third one holds TWO files (different dtypes) with interleaved "
    "events and reads in the middle of the history.  Every history is replayed in a forked child with pristine "
    "module state.  distinct_nontrivial = number of distinct canonical states."
)
ASSUMPTIONS = [
    "chunk contents are a function of (first row index, k), so the file content is a function of the model state",
    "nothing is read through a second handle while a write handle is open (stdio buffering makes that unspecified; the statement observes through sfile.read after the handle is closed)",
    "byte-order-only differences are accepted by text files (documented) and rejected by binary files",
    "row count per file bounded (n <= nmax); two dtypes; at most two headers",
]

DTS = {
    "A": [("a", "<i4"), ("x", "<f8"), ("s", "S3")],
    "B": [("a", ">i4"), ("x", ">f8", (2,)), ("s", "S3"), ("u", ">u2")],
}
HDRS = {0: None, 1: {"k": 1, "note": "x END y"}, 2: {"other": [1, 2.5]},
        # user keys that spell the reserved words without the underscore: they are ordinary keys
        3: {"size": 12, "nrows": 3, "delim": "x", "dtype": "f8", "version": 7},
        # twin of header 1: the same length byte for byte, another value (a file replaced by one of equal size)
        4: {"k": 2, "note": "x END y"},
        # values whose text form calls a builtin (the header is stored as python text and evaluated when the file is re-opened)
        5: {"empty": set(), "fs": frozenset([1, 2]), "r": range(3), "c": complex(1, -2), "b": bytearray(b"xy")}}


def chunk(dk, start, n):
    d = np.zeros(n, dtype=DTS[dk])
    idx = np.arange(n) + start
    d["a"] = idx + 100
    if dk == "A":
        d["x"] = idx / 4 + 0.5
    else:
        d["x"] = (np.arange(2 * n).reshape(n, 2) + 2 * start) / 4 + 0.25
        d["u"] = idx * 7 % 65536
    d["s"] = [("r%d" % (i % 100)).encode() for i in idx]
    return d


def bad_chunk(dk, kind, start):
    """an incompatible chunk of one row (kind 'order' differs only in byte order)"""
    base = DTS[dk]
    if kind == "plain":
        return np.zeros(2, dtype="f8")
    if kind == "order":
        good = chunk(dk, start, 1)
        sw = []
        for d in base:
            t = d[1]
            if t[0] in "<>":
                t = (">" if t[0] == "<" else "<") + t[1:]
            sw.append((d[0], t) + tuple(d[2:]))
        return good.astype(sw)
    descr = [list(d) for d in base]
    if kind == "type":
        descr[0][1] = descr[0][1][0] + "i8"
    elif kind == "name":
        descr[0][0] = "b"
    elif kind == "count":
        descr = descr[:-1]
    elif kind == "shape":
        descr[1] = [descr[1][0], descr[1][1], (3,)]
    elif kind == "strlen":
        descr[2][1] = "S4"
    else:
        raise ValueError(kind)
    return np.zeros(1, dtype=[tuple(d) for d in descr])


def native_descr(descr):
    out = []
    for d in descr:
        t = d[1]
        if t[0] == ">":
            t = "<" + t[1:]
        out.append((d[0], t) + tuple(d[2:]))
    return out


def _drive(sfile, fn, other, dk, ending, kind, delim, sizes, hk):
    """write through ONE handle and end it the given way; returns the number of rows the file must hold"""
    import gc
    n = 0
    if kind == "r+existing":
        sfile.write(fn, chunk(dk, 0, 2), delim=delim, header=HDRS[hk])
        n = 2
    mode = "w" if kind == "w" else "r+"
    state = dict(n=n)

    def writes(sf):
        for i, k in enumerate(sizes):
            if i == 0 and kind != "r+existing":
                sf.write(chunk(dk, state["n"], k), header=HDRS[hk])
            else:
                sf.write(chunk(dk, state["n"], k))
            state["n"] += k
    if ending == "close":
        sf = sfile.SFile(fn, mode, delim=delim)
        writes(sf)
        sf.close()
    elif ending == "with":
        with sfile.SFile(fn, mode, delim=delim) as sf:
            writes(sf)
    elif ending == "with-raise":
        try:
            with sfile.SFile(fn, mode, delim=delim) as sf:
                writes(sf)
                raise KeyError("caller's own error")
        except KeyError:
            pass
    elif ending in ("del", "interpreter-exit"):
        sf = sfile.SFile(fn, mode, delim=delim)
        writes(sf)
        if ending == "del":
            del sf
        else:
            state["keep"] = sf          # stays alive; the caller of _drive is a process that now exits
    elif ending == "scope":
        def inner():
            sf = sfile.SFile(fn, mode, delim=delim)
            writes(sf)
        inner()
    elif ending == "cycle":
        sf = sfile.SFile(fn, mode, delim=delim)
        writes(sf)
        box = [sf]
        box.append(box)
        sf._c03_cycle = box
        del sf, box
        gc.collect()
    elif ending == "reopen-other":
        sf = sfile.SFile(fn, mode, delim=delim)
        writes(sf)
        sf.open(other, "w")
        sf.write(chunk(dk, 0, 1))
        sf.close()
    else:
        raise ValueError(ending)
    gc.collect()
    return state


def main(ctx):
    from esutil import sfile, recfile

    NMAX = ctx.pick(6, 12)
    DELIMS = ctx.pick([None, ","], [None, ",", "\t", " "])
    KS = [1, 2]
    BADKINDS = ["type", "name", "count", "shape", "strlen", "order", "plain"]
    HBAD = ctx.pick(["type", "order"], BADKINDS)

    def _mods():
        import esutil.sfile as _sm
        import esutil.recfile.Util as _ru
        return [_sm, _ru]

    # ------------------------------------------------------------------ world 1
    def make_world(dk, spelling="plain"):
        def menu(m, h):
            ops = []
            if h is None:
                if m["n"] <= NMAX:
                    for delim in DELIMS:
                        for hk in (0, 1):
                            for k in KS:
                                ops.append(("create", delim, hk, k))
                        ops.append(("create", delim, 3, 1))
                        ops.append(("create", delim, 5, 1))
                        if spelling == "pinned-mtime":
                            ops.append(("create", delim, 4, KS[0]))
                    # append with a header argument: it is the creation header when the file does not exist yet,
                    # and ignored otherwise
                    ops.append(("append_h", 1, 1))
                    ops.append(("append_h", 2, 3))
                    for k in KS:
                        ops.append(("append", k))
                    ops.append(("append", 4, None, "2d"))       # a chunk of shape (2,2): its 4 elements are 4 rows
                    if m["exists"] and not m["empty"]:
                        # the delim keyword of an append / re-open of an EXISTING file: the header's delimiter wins
                        ops.append(("append", 1, ","))
                        ops.append(("append", 1, "\t"))
                        ops.append(("open", "r+", ","))
                    if m["exists"]:
                        for kind in BADKINDS:
                            ops.append(("append_bad", kind))
                    ops.append(("open", "w", None))
                    ops.append(("open", "w", ","))
                    ops.append(("open", "r+", None))
                if m["exists"] and not m["empty"] and not m.get("justread"):
                    ops.append(("read",))
            else:
                if m["n"] <= NMAX:
                    for k in KS:
                        ops.append(("hwrite", k, 0))
                    ops.append(("hwrite", 1, 2))
                    ops.append(("hwrite", 4, 0, "2d"))
                if not h["first"]:
                    for kind in HBAD:
                        ops.append(("hwrite_bad", kind))
                    ops.append(("hclose",))
            return tuple(ops)

        def filebytes(fn):
            if not os.path.exists(fn):
                return None
            with open(fn, "rb") as f:
                return f.read()

        def check_file(hist, rec, fn, m, fnr=None):
            """no handle open, file exists and holds data: compare with the model"""
            try:
                data, hdr = sfile.read(fn, header=True)
            except Exception as e:
                return rec.fail(hist, "sfile.read raised %s: %s (model: %d rows)" % (type(e).__name__, e, m["n"]))
            exp = chunk(dk, 0, m["n"])
            if m["delim"] is not None:
                exp = exp.astype(native_descr(DTS[dk]))
            if hdr.get("_SIZE") != m["n"]:
                return rec.fail(hist, "_SIZE=%r but %d rows were written" % (hdr.get("_SIZE"), m["n"]))
            msg = T.same_table(data, exp)
            if msg:
                return rec.fail(hist, "file content is not the concatenation of the writes: %s" % msg)
            user = {k: v for k, v in hdr.items() if not k.startswith("_")}
            if not T.teq(user, m["hdr"] or {}):
                return rec.fail(hist, "user header %r, given at creation %r" % (user, m["hdr"]))
            if (hdr.get("_DELIM") or None) != m["delim"]:
                return rec.fail(hist, "_DELIM %r, file created with %r" % (hdr.get("_DELIM"), m["delim"]))
            raw = filebytes(fnr or fn)
            pos = raw.find(b"\nEND\n\n")
            if pos < 0:
                return rec.fail(hist, "no END line in the file")
            body = raw[pos + 6:]
            if m["delim"] is None:
                if len(body) != m["n"] * exp.dtype.itemsize:
                    return rec.fail(hist, "data section has %d bytes, expected %d rows x %d"
                                    % (len(body), m["n"], exp.dtype.itemsize))
            else:
                if body.count(b"\n") != m["n"] or not body.endswith(b"\n"):
                    return rec.fail(hist, "text data section has %d lines, expected %d" % (body.count(b"\n"), m["n"]))
            return True

        def execute(hist, rec):
            fnr = os.path.join(rec.tmp, "c03_%s.rec" % dk)
            if os.path.exists(fnr):
                os.unlink(fnr)
            # the path as the caller spells it: plain, through an environment variable, or through ~
            # (both spellings are documented as expanded; the oracle always looks at the real path)
            os.environ["C03DIR"] = rec.tmp
            if spelling == "home":
                os.environ["HOME"] = rec.tmp
            import pathlib
            if spelling.startswith("relative"):
                # a bare / dotted relative name, the process sitting in the directory (every history runs in its own child)
                os.chdir(rec.tmp)
                os.makedirs(os.path.join(rec.tmp, "sub"), exist_ok=True)
            fn = {"plain": fnr, "pinned-mtime": fnr, "env": "$C03DIR/c03_%s.rec" % dk, "home": "~/c03_%s.rec" % dk,
                  "pathlib": pathlib.Path(fnr), "relative": "c03_%s.rec" % dk, "relative-dotted": "./sub/../c03_%s.rec" % dk}[spelling]
            m = dict(exists=False, delim=None, hdr=None, n=0, empty=False)
            h = None       # model of the open handle: dict(mode, first)
            sf = None
            badcache = {}  # the SAME incompatible array object is offered again when a history retries a bad write

            def bad_chunk_obj(kind):
                if kind not in badcache:
                    badcache[kind] = bad_chunk(dk, kind, m["n"])
                return badcache[kind]
            try:
                for i, op in enumerate(hist):
                    last = i == len(hist) - 1
                    k = op[0]
                    if spelling == "pinned-mtime" and os.path.exists(fnr):
                        # a coarse file-system clock (or a copy that preserves times): every version of the file carries
                        # the same modification time, so "unchanged since I last looked" cannot be told from the time stamp
                        os.utime(fnr, ns=(10 ** 18, 10 ** 18))
                    if k == "create":
                        _, delim, hk, nk = op
                        sfile.write(fn, chunk(dk, 0, nk), delim=delim, header=HDRS[hk])
                        m.update(exists=True, delim=delim, hdr=HDRS[hk], n=nk, empty=False)
                    elif k == "append":
                        nk = op[1]
                        start = m["n"] if (m["exists"] and not m["empty"]) else 0
                        if m["exists"] and m["empty"]:
                            # an empty file (opened 'w', nothing written) is outside the statement
                            return None
                        if len(op) > 3:
                            sfile.write(fn, chunk(dk, start, nk).reshape(2, 2), append=True)
                        elif len(op) > 2:
                            sfile.write(fn, chunk(dk, start, nk), append=True, delim=op[2])
                        else:
                            sfile.write(fn, chunk(dk, start, nk), append=True)
                        if not m["exists"]:
                            m.update(exists=True, delim=None, hdr=None, n=nk)
                        else:
                            m["n"] += nk
                    elif k == "append_h":
                        _, nk, hk = op
                        if m["exists"] and m["empty"]:
                            return None
                        start = m["n"] if m["exists"] else 0
                        sfile.write(fn, chunk(dk, start, nk), header=HDRS[hk], append=True)
                        if not m["exists"]:
                            m.update(exists=True, delim=None, hdr=HDRS[hk], n=nk)
                        else:
                            m["n"] += nk
                    elif k == "append_bad":
                        kind = op[1]
                        if m["empty"]:
                            return None
                        before = filebytes(fnr)
                        c = bad_chunk_obj(kind) if kind != "order" else bad_chunk(dk, kind, m["n"])
                        ok_for_text = kind == "order" and m["delim"] is not None
                        try:
                            sfile.write(fn, c, append=True)
                            raised = None
                        except Exception as e:
                            raised = e
                        if ok_for_text:
                            if raised is not None:
                                rec.fail(hist, "text file rejected a chunk that differs only in byte order: %r" % raised)
                                return None
                            m["n"] += 1
                        else:
                            if raised is None:
                                rec.fail(hist, "incompatible append (%s) to a %s file was accepted"
                                         % (kind, "binary" if m["delim"] is None else "text"))
                                return None
                            if filebytes(fnr) != before:
                                rec.fail(hist, "rejected append (%s) changed the file's bytes" % kind)
                                return None
                    elif k == "open":
                        _, mode, delim = op
                        if mode == "r+" and m["exists"] and m["empty"]:
                            return None
                        sf = sfile.SFile(fn, mode, delim=delim)
                        if mode == "w" or not m["exists"]:
                            h = dict(mode="w", first=True)
                            m.update(exists=True, delim=delim, hdr=None, n=0, empty=True)
                        else:
                            h = dict(mode="r+", first=False)
                    elif k == "hwrite":
                        nk, hk = op[1], op[2]
                        ck = chunk(dk, m["n"], nk)
                        sf.write(ck.reshape(2, 2) if len(op) > 3 else ck, header=HDRS[hk])
                        if h["first"]:
                            m["hdr"] = HDRS[hk]
                        h["first"] = False
                        m["n"] += nk
                        m["empty"] = False
                    elif k == "hwrite_bad":
                        kind = op[1]
                        c = bad_chunk_obj(kind) if kind != "order" else bad_chunk(dk, kind, m["n"])
                        ok_for_text = kind == "order" and m["delim"] is not None
                        try:
                            sf.write(c)
                            raised = None
                        except Exception as e:
                            raised = e
                        if ok_for_text:
                            if raised is not None:
                                rec.fail(hist, "text handle rejected a chunk that differs only in byte order: %r" % raised)
                                return None
                            m["n"] += 1
                        elif raised is None:
                            rec.fail(hist, "incompatible write (%s) on an open %s handle was accepted"
                                     % (kind, "binary" if m["delim"] is None else "text"))
                            return None
                    elif k == "hclose":
                        sf.close()
                        sf = None
                        h = None
                    elif k == "read":
                        # a read in the middle of a history: whatever it caches becomes part of the state
                        if not last and check_file(hist[:i + 1], rec, fn, m, fnr) is not True:
                            return None
                    else:
                        raise ValueError(op)
                    m["justread"] = k == "read"
                    if spelling == "pinned-mtime" and h is None and os.path.exists(fnr):
                        os.utime(fnr, ns=(10 ** 18, 10 ** 18))      # ... and after every operation that left the file closed
                    if last and h is None and m["exists"] and not m["empty"]:
                        if check_file(hist, rec, fn, m, fnr) is not True:
                            return None
            except Exception as e:
                import traceback
                tb = traceback.extract_tb(e.__traceback__)[-1]
                rec.fail(hist, "operation %r raised %s: %s [at %s:%d]" % (
                    hist[-1] if hist else None, type(e).__name__, str(e)[:200], os.path.basename(tb.filename), tb.lineno))
                return None
            finally:
                hstate = None
                if sf is not None:
                    hstate = fingerprint({k: v for k, v in sf.__dict__.items() if k not in ("_robj", "_filename")},
                                         {k: v for k, v in sf._robj.__dict__.items() if k not in ("robj", "filename")})
                    try:
                        sf.close()
                    except Exception:
                        pass
            # a handle that was still open has just been closed (always a legitimate next step): the file must
            # now equal the model, also when the history ended in the middle of writing
            if h is not None and m["exists"] and not m["empty"]:
                try:
                    if check_file(hist, rec, fn, m, fnr) is not True:
                        return None
                except Exception as e:
                    rec.fail(hist, "reading the file back after closing the open handle raised %s: %s" % (type(e).__name__, str(e)[:200]))
                    return None
            raw = filebytes(fnr)
            key = (hashlib.sha1(raw).hexdigest() if raw is not None else None, hstate,
                   m["exists"], m["delim"], repr(m["hdr"]), m["n"], m["empty"],
                   None if h is None else (h["mode"], h["first"]))
            rec.count("depth%d" % len(hist))
            return key, menu(m, h)

        return execute

    depth = ctx.pick(5, 9)
    for dk in ctx.pick(["A"], ["A", "B"]):
        ctx.histories("sfile-world(%s)" % dk, [()], pristine(make_world(dk), _mods), depth=depth, nodedup_depth=2,
                      bounds=dict(depth=depth, nmax=NMAX, delims=[repr(d) for d in DELIMS], dtype=str(DTS[dk]),
                                  bad_kinds=BADKINDS, headers=len(HDRS)))

    # the same world with the path spelled through an environment variable / through ~
    for sp in ctx.pick(["env", "pathlib", "relative", "pinned-mtime"], ["env", "home", "pathlib", "relative", "relative-dotted", "pinned-mtime"]):
        ctx.histories("sfile-world(A,path:%s)" % sp, [()], pristine(make_world("A", sp), _mods), depth=ctx.pick(4 if sp == "pinned-mtime" else 3, 5), nodedup_depth=ctx.pick(1, 2),
                      bounds=dict(path_spelling={"env": "$C03DIR/name", "home": "~/name", "pathlib": "pathlib.Path(name)", "relative": "name (cwd = directory)",
                                                "relative-dotted": "./sub/../name", "pinned-mtime": "plain name; the modification time of the file is reset to one fixed value before every operation"}[sp]))

    # seeded from non-initial states: pre-existing files written through other routes
    seeds = [
        (("create", ",", 1, 2), ("append", 2)),
        (("open", "w", None), ("hwrite", 2, 2), ("hwrite", 1, 0), ("hclose",)),
        (("create", None, 1, 1), ("open", "r+", None), ("hwrite", 2, 0), ("hclose",)),
    ]
    ctx.histories("sfile-world(seeded)", seeds, pristine(make_world("A"), _mods), depth=ctx.pick(6, 8), nodedup_depth=4,
                  bounds=dict(seeds=len(seeds)))

    # ------------------------------------------------- world 2: header-less recfile
    def execute2(hist, rec, spelling="plain"):
        dk = "A"
        fnr = os.path.join(rec.tmp, "c03_plain.bin")
        if os.path.exists(fnr):
            os.unlink(fnr)
        # the path as the caller spells it (the oracle always looks at the real path)
        os.environ["C03DIR"] = rec.tmp
        if spelling == "relative":
            os.chdir(rec.tmp)
        fn = {"plain": fnr, "env": "$C03DIR/c03_plain.bin", "relative": "c03_plain.bin"}[spelling]
        m = dict(exists=False, delim=None, n=0)
        r = None
        hmode = None
        dt = np.dtype(DTS[dk])
        try:
            for i, op in enumerate(hist):
                k = op[0]
                if k == "rcreate":
                    _, delim, nk = op
                    recfile.write(fn, chunk(dk, 0, nk), delim=delim)
                    m.update(exists=True, delim=delim, n=nk)
                elif k == "rappend":
                    nk = op[1]
                    recfile.write(fn, chunk(dk, m["n"], nk), mode="r+", delim=m["delim"], dtype=dt)
                    m["n"] += nk
                elif k == "ropen":
                    _, mode, delim = op
                    if mode == "w":
                        r = recfile.Recfile(fn, mode="w", delim=delim)
                        m.update(exists=True, delim=delim, n=0)
                    else:
                        r = recfile.Recfile(fn, mode="r+", delim=m["delim"], dtype=dt)
                    hmode = mode
                elif k == "rwrite":
                    r.write(chunk(dk, m["n"], op[1]))
                    m["n"] += op[1]
                elif k == "rclose":
                    r.close()
                    r = None
                    hmode = None
                else:
                    raise ValueError(op)
                if i == len(hist) - 1 and r is None and m["exists"] and m["n"] > 0:
                    exp = chunk(dk, 0, m["n"])
                    raw = open(fnr, "rb").read()
                    if m["delim"] is None and raw != exp.tobytes():
                        rec.fail(hist, "file bytes are not the concatenation of the chunks (%d bytes, expected %d)"
                                 % (len(raw), exp.nbytes))
                        return None
                    got = recfile.read(fnr, dt, delim=m["delim"])
                    msg = T.same_table(got, exp)
                    if msg:
                        rec.fail(hist, "recfile.read: %s" % msg)
                        return None
                    got = recfile.read(fnr, dt, delim=m["delim"], nrows=m["n"])
                    msg = T.same_table(got, exp)
                    if msg:
                        rec.fail(hist, "recfile.read(nrows=): %s" % msg)
                        return None
        except Exception as e:
            import traceback
            tb = traceback.extract_tb(e.__traceback__)[-1]
            rec.fail(hist, "operation %r raised %s: %s [at %s:%d]" % (
                hist[-1], type(e).__name__, str(e)[:200], os.path.basename(tb.filename), tb.lineno))
            return None
        finally:
            hstate = None
            if r is not None:
                hstate = fingerprint({k: v for k, v in r.__dict__.items() if k not in ("robj", "filename")})
                try:
                    r.close()
                except Exception:
                    pass
        raw = open(fnr, "rb").read() if os.path.exists(fn) else None
        key = (hashlib.sha1(raw).hexdigest() if raw is not None else None, hstate, m["exists"], m["delim"],
               m["n"], hmode)
        ops = []
        if r is None and hmode is None:
            if m["n"] <= NMAX:
                for delim in (None, ","):
                    for nk in KS:
                        ops.append(("rcreate", delim, nk))
                    ops.append(("ropen", "w", delim))
                if m["exists"] and m["n"] > 0:
                    for nk in KS:
                        ops.append(("rappend", nk))
                    ops.append(("ropen", "r+", None))
        else:
            if m["n"] <= NMAX:
                for nk in KS:
                    ops.append(("rwrite", nk))
            if m["n"] > 0:
                ops.append(("rclose",))
        return key, tuple(ops)

    ctx.histories("recfile-world", [()], pristine(execute2, _mods), depth=ctx.pick(5, 7), nodedup_depth=2,
                  bounds=dict(nmax=NMAX))
    for sp in ("env", "relative"):
        ctx.histories("recfile-world(path:%s)" % sp, [()], pristine(lambda hist, rec, _sp=sp: execute2(hist, rec, _sp), _mods), depth=ctx.pick(3, 5), nodedup_depth=ctx.pick(1, 2),
                      bounds=dict(path_spelling={"env": "$C03DIR/name", "relative": "name (cwd = directory)"}[sp]))

    # ------------------------------------------------- world 3: two files alive at the same time
    # Two paths (file 0 holds dtype A, file 1 dtype B), each with at most one open SFile handle, events on
    # either file in any interleaving.  Every history runs in a forked child with pristine module state:
    # header dicts, sizes or handles kept at class/module level (shared mutable defaults) would leak from
    # one file into the other.  After the last event every file without an open handle is read back and
    # compared with its own model.
    from mc.util import in_child, module_state
    FDK = ("A", "B")

    def check_file2(fn, dk, m):
        data, hdr = sfile.read(fn, header=True)
        exp = chunk(dk, 0, m["n"])
        if m["delim"] is not None:
            exp = exp.astype(native_descr(DTS[dk]))
        if hdr.get("_SIZE") != m["n"]:
            return "_SIZE=%r but %d rows were written" % (hdr.get("_SIZE"), m["n"])
        msg = T.same_table(data, exp)
        if msg:
            return "content is not the concatenation of the writes to this file: %s" % msg
        user = {k: v for k, v in hdr.items() if not k.startswith("_")}
        if not T.teq(user, m["hdr"] or {}):
            return "user header %r, given at creation %r" % (user, m["hdr"])
        if (hdr.get("_DELIM") or None) != m["delim"]:
            return "_DELIM %r, file created with %r" % (hdr.get("_DELIM"), m["delim"])
        return None

    def world3_child(hist, tmp):
        import esutil.sfile as sm
        import esutil.recfile.Util as ru
        fns = [os.path.join(tmp, "c03_two_%d.rec" % f) for f in (0, 1)]
        for fn in fns:
            if os.path.exists(fn):
                os.unlink(fn)
        nfd0 = len(os.listdir("/proc/self/fd"))
        ms = [dict(exists=False, delim=None, hdr=None, n=0, empty=False) for _ in (0, 1)]
        hs = [None, None]
        sfs = [None, None]
        msg = None
        try:
            for op in hist:
                k, f = op[0], op[1]
                fn, dk, m = fns[f], FDK[f], ms[f]
                if k == "create":
                    _, _, delim, hk, nk = op
                    sfile.write(fn, chunk(dk, 0, nk), delim=delim, header=HDRS[hk])
                    m.update(exists=True, delim=delim, hdr=HDRS[hk], n=nk, empty=False)
                elif k == "append":
                    nk = op[2]
                    sfile.write(fn, chunk(dk, m["n"], nk), append=True)
                    if not m["exists"]:
                        m.update(exists=True, delim=None, hdr=None, n=nk)
                    else:
                        m["n"] += nk
                elif k == "open":
                    mode = op[2]
                    sfs[f] = sfile.SFile(fn, mode)
                    if mode == "w" or not m["exists"]:
                        hs[f] = dict(mode="w", first=True)
                        m.update(exists=True, delim=None, hdr=None, n=0, empty=True)
                    else:
                        hs[f] = dict(mode="r+", first=False)
                elif k == "hwrite":
                    _, _, nk, hk = op
                    sfs[f].write(chunk(dk, m["n"], nk), header=HDRS[hk])
                    if hs[f]["first"]:
                        m["hdr"] = HDRS[hk]
                    hs[f]["first"] = False
                    m["n"] += nk
                    m["empty"] = False
                elif k == "hclose":
                    sfs[f].close()
                    sfs[f] = None
                    hs[f] = None
                elif k == "read":
                    # a read in the middle of the history (anything it caches is then part of the state)
                    r = check_file2(fn, dk, m)
                    if r:
                        msg = "file %d (dtype %s) read after %r: %s" % (f, dk, hist[:-1], r)
                        break
                else:
                    raise ValueError(op)
            for f in (0, 1):
                if msg:
                    break
                if hs[f] is None and ms[f]["exists"] and not ms[f]["empty"]:
                    r = check_file2(fns[f], FDK[f], ms[f])
                    if r:
                        msg = "file %d (dtype %s): %s" % (f, FDK[f], r)
                        break
        except Exception as e:
            import traceback
            tb = traceback.extract_tb(e.__traceback__)[-1]
            msg = "operation %r raised %s: %s [at %s:%d]" % (hist[-1] if hist else None, type(e).__name__, str(e)[:200],
                                                             os.path.basename(tb.filename), tb.lineno)
        hstates = []
        for f in (0, 1):
            if sfs[f] is not None:
                hstates.append(fingerprint({k: v for k, v in sfs[f].__dict__.items() if k not in ("_robj", "_filename")},
                                           {k: v for k, v in sfs[f]._robj.__dict__.items() if k not in ("robj", "filename")}))
                try:
                    sfs[f].close()
                except Exception:
                    pass
            else:
                hstates.append(None)
        # the handles still open were closed just now (closing is always a legitimate next step): every file that
        # holds data must now equal its model, also the ones that were being written when the history ended
        if msg is None:
            for f in (0, 1):
                if hs[f] is not None and ms[f]["exists"] and not ms[f]["empty"]:
                    try:
                        r = check_file2(fns[f], FDK[f], ms[f])
                    except Exception as e:
                        r = "reading it back raised %s: %s" % (type(e).__name__, str(e)[:200])
                    if r:
                        msg = "file %d (dtype %s), after closing the handle that was still open at the end of the history: %s" % (f, FDK[f], r)
                        break
        if msg is None and len(os.listdir("/proc/self/fd")) != nfd0:
            msg = "after the history and closing every handle %d file descriptor(s) are still open" % (len(os.listdir("/proc/self/fd")) - nfd0)
        raws = []
        for fn in fns:
            raws.append(hashlib.sha1(open(fn, "rb").read()).hexdigest() if os.path.exists(fn) else None)
            if os.path.exists(fn):
                os.unlink(fn)
        key = (tuple(raws), tuple(hstates), module_state(sm, ru),
               tuple((m["exists"], m["delim"], repr(m["hdr"]), m["n"], m["empty"]) for m in ms),
               tuple(None if h is None else (h["mode"], h["first"]) for h in hs))
        ops = []
        nmax3 = 4
        for f in (0, 1):
            m, h = ms[f], hs[f]
            if h is None:
                if m["n"] <= nmax3:
                    for delim in (None, ","):
                        for hk in (0, 1):
                            ops.append(("create", f, delim, hk, 1))
                    if not (m["exists"] and m["empty"]):
                        ops.append(("append", f, 2))
                    ops.append(("open", f, "w"))
                    if not (m["exists"] and m["empty"]):
                        ops.append(("open", f, "r+"))
                if m["exists"] and not m["empty"] and not (hist and hist[-1] == ("read", f)):
                    ops.append(("read", f))
            else:
                if m["n"] <= nmax3:
                    ops.append(("hwrite", f, 1, 0))
                    ops.append(("hwrite", f, 2, 2))
                if not h["first"]:
                    ops.append(("hclose", f))
        return msg, key, tuple(ops)

    def execute3(hist, rec):
        st, out = in_child(lambda: world3_child(hist, rec.tmp))
        if st != "ok":
            rec.fail(hist, "history could not be executed: %s" % (out,))
            return None
        msg, key, ops = out
        if msg:
            rec.fail(hist, msg)
            return None
        return key, ops

    ctx.histories("two-files-world", [()], execute3, depth=ctx.pick(4, 6), nodedup_depth=2,
                  bounds=dict(files=2, dtypes=list(FDK), rows_per_file_max=6,
                              isolation="every history in a forked child with pristine module state"))

    # ------------------------------------------------ how the life of a writing handle ends
    # The histories above end every handle with close().  Here the END of the handle is the enumerated dimension:
    # explicit close, with-block, with-block left by an exception, reference dropped (del), handle local to a function
    # that returns, handle in a reference cycle reclaimed by the collector, handle re-pointed at another file with
    # .open(), and a handle still alive when the interpreter exits (own python process).  x handle kind ('w' on a new
    # file, 'r+' on an existing file, 'r+' on a missing file) x delimiter x sizes of the writes through the handle
    # x header.  After the handle is gone (and, optionally, one more append-by-reopen) the file must hold the
    # concatenation of everything written and the SIZE line (parsed by hand) the total number of rows.
    ENDINGS = ["close", "with", "with-raise", "del", "scope", "cycle", "reopen-other", "interpreter-exit"]

    def one_ending(case, rec):
        ending, kind, delim, sizes, hk, then_append = case
        dk = "A"
        fn = os.path.join(rec.tmp, "c03_end.rec")
        other = os.path.join(rec.tmp, "c03_end_other.rec")
        for f in (fn, other):
            if os.path.exists(f):
                os.unlink(f)
        try:
            if ending == "interpreter-exit":
                import subprocess
                import sys
                code = ("import sys; sys.path[:0] = %r\n"
                        "import mc.checks.c03 as c\n"
                        "from esutil import sfile\n"
                        "keep = c._drive(sfile, %r, %r, %r, %r, %r, %r, %r, %r)\n"
                        % ([p for p in sys.path if p], fn, other, dk, ending, kind, delim, tuple(sizes), hk))
                p = subprocess.run([sys.executable, "-c", code], capture_output=True, timeout=120)
                if p.returncode != 0:
                    return rec.fail(case, "python process that writes and exits ended with status %r: %s"
                                    % (p.returncode, p.stderr.decode("latin-1")[-300:]))
                total = (2 if kind == "r+existing" else 0) + sum(sizes)
            else:
                total = _drive(sfile, fn, other, dk, ending, kind, delim, sizes, hk)["n"]
            if then_append:
                sfile.write(fn, chunk(dk, total, 1), append=True)
                total += 1
            with open(fn, "rb") as f:
                raw = f.read()
            data, hdr = sfile.read(fn, header=True)
        except Exception as e:
            import traceback
            tb = traceback.extract_tb(e.__traceback__)[-1]
            return rec.fail(case, "raised %s: %s [at %s:%d]" % (type(e).__name__, str(e)[:200], os.path.basename(tb.filename), tb.lineno))
        # the SIZE line, parsed by hand
        first = raw.split(b"\n", 1)[0].decode("latin-1")
        try:
            name, val = first.split("=")
            stored = int(val) if name.strip() == "SIZE" else None
        except ValueError:
            stored = None
        if stored != total:
            return rec.fail(case, "SIZE line %r after the handle ended by %s, %d rows were written" % (first, ending, total))
        fdelim = delim
        exp = chunk(dk, 0, total)
        if fdelim is not None:
            exp = exp.astype(native_descr(DTS[dk]))
        if hdr.get("_SIZE") != total:
            return rec.fail(case, "_SIZE=%r but %d rows were written" % (hdr.get("_SIZE"), total))
        msg = T.same_table(data, exp)
        if msg:
            return rec.fail(case, "after the handle ended by %s the file is not the concatenation of the writes: %s" % (ending, msg))
        user = {k: v for k, v in hdr.items() if not k.startswith("_")}
        if not T.teq(user, HDRS[hk] or {}):
            return rec.fail(case, "user header %r, given at creation %r" % (user, HDRS[hk]))
        pos = raw.find(b"\nEND\n\n")
        body = raw[pos + 6:] if pos >= 0 else None
        if body is None:
            return rec.fail(case, "no END line in the file")
        if fdelim is None and body != chunk(dk, 0, total).tobytes():
            return rec.fail(case, "bytes after the header are not the concatenation of the chunks (%d bytes, expected %d)"
                            % (len(body), total * exp.dtype.itemsize))
        if fdelim is not None and (body.count(b"\n") != total or not body.endswith(b"\n")):
            return rec.fail(case, "text data section has %d lines, expected %d" % (body.count(b"\n"), total))
        rec.ok(case, outcome="ending:%s:%s" % (ending, kind), nontrivial=(len(sizes) > 1 or kind != "w"))

    ESIZES = [(1,), (2, 1), (1, 2, 1)]
    eunits = [(e, kd, dl, sz, hk, ta) for e in ENDINGS for kd in ("w", "r+existing", "r+missing")
              for dl in [None, ",", "\t", " "] for sz in ESIZES for hk in (0, 1) for ta in (0, 1)
              # a python process of its own per case: one header, no trailing append (quick: two delimiters, two size lists)
              if not (e == "interpreter-exit" and (hk == 0 or ta == 1 or (ctx.quick and (dl in ("\t", " ") or sz == (1,)))))]
    ctx.lattice("handle-endings", eunits, one_ending,
                bounds=dict(endings=ENDINGS, handles=["w", "r+existing", "r+missing"], delims=["None", ",", "tab", "space"],
                            write_sizes=[list(s) for s in ESIZES], headers=[0, 1], then_append_by_reopen=[0, 1]))

    # ------------------------------------------------ one SFile object used for several files (mc/sfreuse.py)
    from mc.sfreuse import reused_object_world
    reused_object_world(ctx, "one-object-several-files", depth=ctx.pick(5, 7))

    # ------------------------------------------------ one Recfile object used for several files (mc/sfreuse.py)
    from mc.sfreuse import reused_recfile_world
    reused_recfile_world(ctx, "one-recfile-object-several-files", depth=ctx.pick(7, 9))

    # ------------------------------------------------ chunks of exactly / next to block marks (decimal and binary)
    # a writer that hands the rows to the file in blocks goes wrong only for chunk sizes that are exact multiples of
    # its block size.  Short histories with ONE long chunk in every position: create(long) append(short),
    # create(short) append(long), open-w write(long) write(short), through sfile and the header-less recfile, binary
    # (and one text delimiter); dtype of 8 bytes per row.
    def one_longchunk(case, rec):
        mark, d, shape, delim, route = case
        n = mark + d
        dt = [("a", "<i4"), ("b", "<i2"), ("c", "S2")]

        def mk(start, k):
            t = np.zeros(k, dtype=dt)
            idx = np.arange(start, start + k)
            t["a"] = idx
            t["b"] = idx % 30000
            t["c"] = np.array([b"ab", b"c", b""])[idx % 3]
            return t
        sizes = {"long-short": (n, 3), "short-long": (3, n), "long-long": (n, n), "short-long-short": (2, n, 1)}[shape]
        fn = os.path.join(rec.tmp, "c03_longchunk.rec")
        if os.path.exists(fn):
            os.unlink(fn)
        try:
            start = 0
            if route == "append-by-reopen":
                for i, k in enumerate(sizes):
                    sfile.write(fn, mk(start, k), delim=delim, append=(i > 0), header={"k": 1} if i == 0 else None)
                    start += k
            elif route == "one-handle":
                with sfile.SFile(fn, "w", delim=delim) as sf:
                    for i, k in enumerate(sizes):
                        sf.write(mk(start, k), header={"k": 1})
                        start += k
            else:
                r = recfile.Recfile(fn, mode="w", delim=delim)
                for k in sizes:
                    r.write(mk(start, k))
                    start += k
                r.close()
            total = start
            if route == "recfile":
                got, hdr = recfile.read(fn, np.dtype(dt), delim=delim), None
            else:
                got, hdr = sfile.read(fn, header=True)
        except Exception as e:
            return rec.fail(case, "chunks of %r rows via %s raised %s: %s" % (sizes, route, type(e).__name__, str(e)[:160]))
        exp = mk(0, total)
        if hdr is not None and (hdr.get("_SIZE") != total or hdr.get("k") != 1):
            return rec.fail(case, "chunks of %r rows via %s: _SIZE=%r k=%r, %d rows written" % (sizes, route, hdr.get("_SIZE"), hdr.get("k"), total))
        if got.shape != exp.shape or got.dtype.names != exp.dtype.names or any(not np.array_equal(got[nm], exp[nm]) for nm in exp.dtype.names):
            w = None
            if got.shape == exp.shape:
                w = int(np.nonzero(got["a"] != exp["a"])[0][:1].sum()) if (got["a"] != exp["a"]).any() else None
            return rec.fail(case, "chunks of %r rows via %s: file holds %r rows, %d written; first differing row %r" % (sizes, route, got.shape, total, w))
        if delim is None and os.path.getsize(fn) < total * 8:
            return rec.fail(case, "file has %d bytes for %d rows of 8 bytes" % (os.path.getsize(fn), total))
        rec.ok(case, outcome="longchunk:%s:%s" % (shape, route), nontrivial=(d == 0))

    from mc.longarr import marks as _marks
    from mc.longarr import harvest_lengths
    import esutil.recfile.Util as _ru
    import esutil.sfile as _sm
    _hl, _hb = harvest_lengths([_sm, _ru], ["recfile"])
    # universal marks (mc/longarr.py) + block sizes harvested from the integer constants of the code under test
    cmarks = (100000,) + tuple(_marks(ctx)) + ctx.pick((), (65536, 1000000)) + tuple(b for b in _hb if b >= 1000)
    cmarks = tuple(dict.fromkeys(cmarks))
    ctx.notes.append("chunks-at-block-marks: integer constants harvested from sfile.py, recfile/Util.py, recfile/*.cpp: %r" % (_hb,))
    lcunits = [(m, d, sh, dl, rt) for m in cmarks for d in (-1, 0, 1) for sh in ("long-short", "short-long", "long-long", "short-long-short")
               for dl in (None, ",") for rt in ("append-by-reopen", "one-handle", "recfile")
               if not (dl == "," and (m > 100000 or d != 0))
               # quick tier: the multi-million-row marks in the two shapes that put the long chunk first / last
               and not (ctx.quick and m > 1000000 and (sh in ("long-long", "short-long-short") or rt == "one-handle" and d != 0))]
    ctx.lattice("chunks-at-block-marks", lcunits, one_longchunk,
                bounds=dict(marks=list(cmarks), offsets=[-1, 0, 1], shapes=["long-short", "short-long", "long-long", "short-long-short"],
                            routes=["append-by-reopen", "one-handle", "recfile"], text="only the 100000 mark, exact size"))
