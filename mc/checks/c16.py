"""C16 - byte-order conversion preserves values and declares the requested order (E1 + E2).

Parts
  convert      E1  every array of the dtype family x order x shape x memory layout x data
                   pattern x {to_native,to_big_endian,to_little_endian,byteswap} x inplace x
                   keep_dtype; each case makes the call, then the same call again on the
                   result (idempotence / swap-twice) and finally overwrites the buffers to
                   prove (in)dependence physically
  sequences    E2  all sequences of <= 3 (thorough 5) conversions on a few root arrays; every
                   object ever returned is re-verified after every step
  predicates   E1  is_big_endian / is_little_endian on every type code x spelling '<' '>' '=' '|'
  descr        E1  descr_to_native / recfile.Util.remove_dtype_byteorder on the structured family

The reference model never calls numpy's byteswap/newbyteorder: arrays are assembled
byte by byte in python from a canonical (big-endian) image of every scalar, and the
expected memory after a conversion is assembled the same way.
"""
import functools
import itertools
import random
import struct
import sys

import numpy as np

from mc.util import fingerprint

RULE = (
    "convert: full product of {18 (thorough 24) plain type codes; every ordered selection of "
    "1-3 (thorough: 1-4, and 1-3 over a 10-field alphabet) fields from {f8, i2(2,), S3, i1, "
    "u4(2,2), c8} with >= 1 multi-byte field, packed and (where it makes holes) aligned} x "
    "declared order {<,>} x shape {(),(3,),(2,3)|(2,2),(0,)} x memory layout {owning, view "
    "of a bytearray, every-second-element view, transposed view} x data pattern {ramp, "
    "edge values, seeded generic bytes} x 4 functions x inplace x keep_dtype.  "
    "sequences: BFS over all operation sequences from the 16 (function, inplace, "
    "keep_dtype) events on root arrays.  non-trivial = the array has a multi-byte "
    "scalar and its byte image differs from the swapped image (a wrong swap decision, a "
    "missing swap or a wrong declared order is then visible)."
)
ASSUMPTIONS = [
    "trusted base: numpy's dtype construction, field offsets/itemsize, views/strides, tobytes and "
    "dtype.byteorder; numpy's byteswap/newbyteorder are NOT used by the reference",
    "host is little-endian ('=' means '<'); a big-endian host is not emulated, so 'on every "
    "machine' is checked for this machine only (sys.byteorder is used, not numpy.little_endian)",
    "keep_dtype=True (statement: 'unless the caller asks to keep the dtype'): expected = dtype "
    "unchanged, bytes exactly as if the conversion had been made, swap decision taken from "
    "the declared dtype (docstrings of the four functions)",
    "'field structure' = field names and their order, offsets, itemsize, sub-array shapes and "
    "scalar type (kind+size) of every field; padding bytes of aligned structs are not "
    "compared in copies, but must stay untouched by an in-place conversion",
    "'value preserved' is decided bit-wise (NaN payloads, -0.0 included) on the native-order "
    "image; for keep_dtype=False additionally through numpy's astype(native dtype)",
    "non-contiguous / non-owning layouts and shape (0,) go beyond the literal quantifier "
    "('0-d to 2-d'); bytes outside an every-second-element view must not change",
    "U (UCS4) strings, longdouble and datetime64/timedelta64 are included as ordered types "
    "beyond 'numeric kinds and byte strings'",
    "descr_to_native / remove_dtype_byteorder (observe_at, not in the statement): expected = "
    "a descriptor that numpy turns into the same field structure in native order",
]

NATIVE = "<" if sys.byteorder == "little" else ">"
OTHER = ">" if NATIVE == "<" else "<"

# type code -> (swap unit in bytes; 1 = no byte order, number of units per scalar, family)
TYPES = {
    "i1": (1, 1, "int"), "u1": (1, 1, "int"), "?": (1, 1, "bool"),
    "i2": (2, 1, "int"), "u2": (2, 1, "int"), "i4": (4, 1, "int"), "u4": (4, 1, "int"),
    "i8": (8, 1, "int"), "u8": (8, 1, "int"),
    "f2": (2, 1, "float"), "f4": (4, 1, "float"), "f8": (8, 1, "float"), "f16": (16, 1, "int"),
    "c8": (4, 2, "float"), "c16": (8, 2, "float"), "c32": (16, 2, "int"),
    "S3": (1, 3, "bytes"), "U2": (4, 2, "ucs4"), "S2": (1, 2, "bytes"), "S4": (1, 4, "bytes"),
    # thorough only
    "S1": (1, 1, "bytes"), "S8": (1, 8, "bytes"), "U1": (4, 1, "ucs4"),
    "M8[s]": (8, 1, "int"), "m8[ns]": (8, 1, "int"), "V5": (1, 5, "bytes"),
}
PLAIN_QUICK = ["i4", "f8", "i1", "S3", "u1", "?", "i2", "u2", "u4", "i8", "u8", "f2", "f4",
               "f16", "c8", "c16", "c32", "U2"]
PLAIN_MORE = ["S1", "S8", "U1", "M8[s]", "m8[ns]", "V5"]
FL = [("x", "f8", ()), ("v", "i2", (2,)), ("s", "S3", ()), ("b", "i1", ()),
      ("m", "u4", (2, 2)), ("c", "c8", ())]
FL_MORE = [("u", "U2", ()), ("q", "?", ()), ("h", "f2", (3,)), ("t", "M8[s]", ())]
FUNCS = ("to_native", "to_big_endian", "to_little_endian", "byteswap")
TARGET = {"to_native": NATIVE, "to_big_endian": ">", "to_little_endian": "<", "byteswap": None}
EVENTS = tuple((f, ip, kd) for f in FUNCS for ip in (False, True) for kd in (False, True))


# ----------------------------------------------------------------------------
# reference model


def flip(o):
    return "<" if o == ">" else ">"


def model_step(declared, phys, func, keep):
    """(declared order, order the bytes really have) -> (declared', phys', swapped?)

    declared is None for arrays without any multi-byte scalar."""
    if declared is None:
        return None, None, False
    if func != "byteswap" and declared == TARGET[func]:
        return declared, phys, False
    return (declared if keep else flip(declared)), flip(phys), True


_FLOAT_EDGE = [0.0, -0.0, float("inf"), float("nan"), 1.0, -1.5, float("-inf"), 3.141592653589793]
_BYTES_EDGE = [b"", b"abc", b"a", b"\x00\x00c", b"\xff\x00\x01", b" b "]
_UCS4_EDGE = [0, 0x61, 0x10FFFF, 0xE9, 0x3B1, 0x1F600]


def _unit_bytes(code, pat, idx, j):
    """canonical (big-endian) bytes of the j-th swap unit of scalar number idx"""
    unit, nunits, fam = TYPES[code]
    if isinstance(pat, tuple):                      # ("rnd", seed): generic representative
        rng = random.Random("%d:%s:%d:%d" % (pat[1], code, idx, j))
        if fam == "bool":
            return bytes([rng.randrange(2)])
        if fam == "ucs4":
            return rng.randrange(1, 0xD800).to_bytes(4, "big")
        return bytes(rng.randrange(256) for _ in range(unit))
    if pat == "ramp":
        if fam == "bool":
            return bytes([(idx + j) & 1])
        if fam == "ucs4":
            return ((0x41, 0x3B1, 0x1F600)[(idx + j) % 3] + idx).to_bytes(4, "big")
        if fam == "bytes":
            return bytes([0x61 + (idx * nunits + j) % 26])
        base = 1 + 7 * idx + 16 * j
        return bytes((base + 3 * i) & 0xFF for i in range(unit))
    # "edge"
    k = idx + j
    if fam == "bool":
        return bytes([(0, 1, 1, 0)[k % 4]])
    if fam == "ucs4":
        return _UCS4_EDGE[k % 6].to_bytes(4, "big")
    if fam == "bytes":
        s = _BYTES_EDGE[idx % 6]
        return (s + b"\0" * nunits)[j:j + 1]
    if fam == "float":
        sel = k % 10
        if sel < 8:
            return struct.pack({2: ">e", 4: ">f", 8: ">d"}[unit], _FLOAT_EDGE[sel])
        if sel == 8:
            return (1).to_bytes(unit, "big")                    # smallest subnormal
        return {2: 0x7BFF, 4: 0x7F7FFFFF, 8: 0x7FEFFFFFFFFFFFFF}[unit].to_bytes(unit, "big")  # max
    tab = [0, (1 << (8 * unit)) - 1, 1 << (8 * unit - 1), (1 << (8 * unit - 1)) - 1, 1,
           1 << (8 * unit - 8)]
    return tab[k % 6].to_bytes(unit, "big")


def canon_scalar(code, pat, idx):
    return b"".join(_unit_bytes(code, pat, idx, j) for j in range(TYPES[code][1]))


@functools.lru_cache(maxsize=4096)
def image(fields, n, pat):
    """canonical image: per logical element, per field, the big-endian bytes"""
    out = []
    for k in range(n):
        row = []
        for i, (_, code, sub) in enumerate(fields):
            cnt = 1
            for s in sub:
                cnt *= s
            row.append(b"".join(canon_scalar(code, pat, 31 * k + 7 * i + j) for j in range(cnt)))
        out.append(tuple(row))
    return tuple(out)


def phys(code, b, order):
    """bytes as they lie in memory for byte order `order`"""
    unit = TYPES[code][0]
    if unit == 1 or order == ">":
        return b
    return b"".join(b[i:i + unit][::-1] for i in range(0, len(b), unit))


def build_dtype(spec, order):
    fields, align = spec
    if fields[0][0] is None:
        return np.dtype(order + fields[0][1])
    if align == "titled":
        # every field carries a title: dtype.fields then has TWO entries per field, (title, name) -> 3-tuples
        return np.dtype([(("Title of %s" % n, n), order + c, s) if s else (("Title of %s" % n, n), order + c) for n, c, s in fields])
    if align == "view":
        # the dtype of a multi-field selection taken out of file order (cat[['dec', 'ra']]): the fields are listed
        # in the reverse of their offset order and the item keeps the width of the full row (a 3-byte gap in front)
        packed = np.dtype([(n, order + c, s) if s else (n, order + c) for n, c, s in fields][::-1])
        return np.dtype(dict(names=[n for n, _, _ in fields], formats=[packed.fields[n][0] for n, _, _ in fields],
                             offsets=[3 + packed.fields[n][1] for n, _, _ in fields], itemsize=packed.itemsize + 5))
    return np.dtype([(n, order + c, s) if s else (n, order + c) for n, c, s in fields],
                    align=align)


def _leaf(d):
    bo = d.byteorder
    if bo == "=":
        bo = NATIVE
    return (d.str[1:], bo)


def describe(dt):
    """structure of a dtype with '=' resolved through sys.byteorder"""
    if dt.names is None:
        if dt.subdtype is not None:
            return ("subarray", str(dt))
        return ("plain", _leaf(dt))
    out = []
    for n in dt.names:
        fd, off = dt.fields[n][:2]
        base, shp = fd.subdtype if fd.subdtype else (fd, ())
        out.append((n, off, tuple(shp), _leaf(base) if base.names is None else ("nested", str(base))))
    return ("struct", dt.itemsize, tuple(out))


def strip_order(d):
    if d[0] == "plain":
        return ("plain", d[1][0])
    if d[0] == "struct":
        return ("struct", d[1], tuple((n, o, s, l[0]) for n, o, s, l in d[2]))
    return d


def orders_of(d):
    if d[0] == "plain":
        return "".join(sorted({d[1][1]} - {"|"}))
    if d[0] == "struct":
        return "".join(sorted({l[1] for _, _, _, l in d[2]} - {"|"}))
    return "?"


class World(object):
    """one input array assembled byte by byte, together with all the memory behind it"""

    def __init__(self, spec, order, shape, lay, pat):
        self.spec, self.order, self.shape, self.lay, self.pat = spec, order, tuple(shape), lay, pat
        fields = spec[0]
        self.fields = fields
        self.plain = fields[0][0] is None
        dt = self.dt = build_dtype(spec, order)
        isz = self.isz = dt.itemsize
        self.declared = order if any(TYPES[c][0] > 1 for _, c, _ in fields) else None
        if self.plain:
            self.offs = [0]
        else:
            self.offs = [dt.fields[n][1] for n, _, _ in fields]
        shape = self.shape
        n = 1
        for s in shape:
            n *= s
        self.n = n
        if lay == "own":
            a = np.empty(shape, dt)
            mem = a.reshape(-1).view("u1")
        elif lay == "buf":
            ba = bytearray(n * isz)
            self.ba = ba
            mem = np.frombuffer(ba, "u1")
            a = np.frombuffer(ba, dt).reshape(shape)
        elif lay == "step":
            if shape == ():
                mem = np.empty(3 * isz, "u1")
                a = mem.view(dt)[1:2].reshape(())
            else:
                rs = (2 * shape[0],) + shape[1:]
                mem = np.empty(2 * n * isz, "u1")
                a = mem.view(dt).reshape(rs)[1::2]
        elif lay == "T":
            mem = np.empty(n * isz, "u1")
            a = mem.view(dt).reshape(shape[::-1]).T
        else:
            raise ValueError(lay)
        if a.shape != shape or a.dtype != dt:
            raise AssertionError("harness: built %r %r" % (a.shape, a.dtype))
        self.a, self.mem = a, mem
        a0 = a.__array_interface__["data"][0] - mem.__array_interface__["data"][0] if n else 0
        self.pos = [a0 + sum(i * s for i, s in zip(idx, a.strides)) for idx in np.ndindex(*shape)] \
            if n else []
        self.img = image(fields, n, pat)
        mem[...] = 0xA5
        self.mem_filler = mem.tobytes()
        mem[...] = np.frombuffer(self.expected_mem(order), "u1")
        self.mem0 = mem.tobytes()
        self.strides0 = a.strides
        sw = self.expected_bytes("<") != self.expected_bytes(">")
        self.visible = bool(sw)

    def expected_mem(self, order, start=None):
        b = bytearray(self.mem_filler if start is None else start)
        for k, p in enumerate(self.pos):
            for off, (_, code, _), cb in zip(self.offs, self.fields, self.img[k]):
                b[p + off:p + off + len(cb)] = phys(code, cb, order)
        return bytes(b)

    def expected_bytes(self, order):
        """field bytes of all elements in logical (C) order"""
        return b"".join(phys(code, cb, order)
                        for row in self.img for (_, code, _), cb in zip(self.fields, row))

    def fieldbytes(self, x):
        buf = x.tobytes()
        isz = self.isz
        out = []
        for e in range(self.n):
            for off, cb in zip(self.offs, self.img[e]):
                out.append(buf[e * isz + off:e * isz + off + len(cb)])
        return b"".join(out)

    def descr(self, declared):
        def leaf(c):
            return (np.dtype(c).str[1:], declared if TYPES[c][0] > 1 else "|")
        if self.plain:
            return ("plain", leaf(self.fields[0][1]))
        return ("struct", self.isz,
                tuple((n, off, tuple(s), leaf(c)) for (n, c, s), off in zip(self.fields, self.offs)))

    def verify(self, x, declared, physical):
        """None or a message: x must be this array with the given declared/physical order"""
        if not isinstance(x, np.ndarray):
            return "result type: %s is not an ndarray" % type(x).__name__
        if x.shape != self.shape:
            return "shape: %r became %r" % (self.shape, x.shape)
        got, exp = describe(x.dtype), self.descr(declared)
        if got != exp:
            if strip_order(got) == strip_order(exp):
                return "declared order: dtype declares %r, expected %r [dtype %s]" % (
                    orders_of(got), declared, x.dtype)
            return "field structure: dtype %s described as %r, expected %r" % (x.dtype, got, exp)
        if declared is None:
            physical = ">"
        fb, eb = self.fieldbytes(x), self.expected_bytes(physical)
        if fb != eb:
            other = self.expected_bytes(flip(physical))
            return "values: field bytes are %s [got %s expected %s]" % (
                "the byte-swapped image of the expected ones" if fb == other
                else "neither the expected nor the swapped image", fb.hex(), eb.hex())
        return None

    def native_dtype(self):
        return build_dtype(self.spec, NATIVE)


def mk_plain(code):
    return (((None, code, ()),), False)


def lays_for(shape):
    if 0 in shape:
        return ("own",)
    if len(shape) == 2:
        return ("own", "buf", "step", "T")
    return ("own", "buf", "step")


# ----------------------------------------------------------------------------


def main(ctx):
    from esutil import numpy_util as nu
    from esutil.recfile import Util as ru

    fn_of = {f: getattr(nu, f) for f in FUNCS}
    ctx.notes.append("host byte order: %s (numpy.little_endian=%r)" % (sys.byteorder, np.little_endian))

    def call(func, x, inplace, keep):
        return fn_of[func](x, inplace=inplace, keep_dtype=keep)

    # ------------------------------------------------------------ E1 convert
    def one(case, rec):
        spec, order, shape, lay, pat, func, inplace, keep = case
        W = World(spec, order, shape, lay, pat)
        a = W.a
        sig = "%s(inplace=%r, keep_dtype=%r)" % (func, inplace, keep)
        d0 = p0 = W.declared
        d1, p1, swapped = model_step(d0, p0, func, keep)
        ncall = 1
        try:
            out = call(func, a, inplace, keep)
        except Exception as e:
            return rec.fail(case, "raised: %s %s: %s" % (sig, type(e).__name__, e))
        # --- the returned object
        if inplace:
            if out is not a:
                return rec.fail(case, "inplace: %s did not return the caller's object" % sig)
        else:
            if out is a:
                return rec.fail(case, "copy: %s returned the input object itself (%s)"
                                % (sig, "swap needed" if swapped else "nothing to swap"))
            if isinstance(out, np.ndarray) and np.shares_memory(out, W.mem):
                return rec.fail(case, "copy: result of %s shares memory with the input (%s)"
                                % (sig, "swap needed" if swapped else "nothing to swap"))
        m = W.verify(out, d1, p1)
        if m:
            return rec.fail(case, "%s: after %s on declared %r (requested %r)"
                            % (m, sig, d0, TARGET[func] or "swap"))
        # --- the caller's array and buffer
        if a.shape != W.shape or a.strides != W.strides0:
            return rec.fail(case, "input geometry: %s changed shape/strides of the input to %r/%r"
                            % (sig, a.shape, a.strides))
        if inplace:
            memexp = W.expected_mem(p1 or ">")
            if W.mem.tobytes() != memexp:
                return rec.fail(case, "inplace buffer: after %s the caller's memory is not the "
                                "converted image [got %s expected %s]"
                                % (sig, W.mem.tobytes().hex(), memexp.hex()))
        else:
            memexp = W.mem0
            if W.mem.tobytes() != memexp:
                return rec.fail(case, "input modified: %s changed the caller's memory" % sig)
            m = W.verify(a, d0, p0)
            if m:
                return rec.fail(case, "input modified: %s; input after %s" % (m, sig))
        # --- values through numpy's own cast, predicates on the result
        if not keep:
            try:
                nat = out.astype(W.native_dtype())
            except Exception as e:
                return rec.fail(case, "values: result of %s cannot be cast to native: %s" % (sig, e))
            if W.fieldbytes(nat) != W.expected_bytes(NATIVE if W.declared else ">"):
                return rec.fail(case, "values: result of %s cast to the native dtype differs from the "
                                "original values" % sig)
            for (name, code, sub) in W.fields:
                v = out if name is None else out[name]
                want = d1 if TYPES[code][0] > 1 else None
                b, l = nu.is_big_endian(v), nu.is_little_endian(v)
                ncall += 2
                if bool(b) != (want == ">") or bool(l) != (want == "<"):
                    return rec.fail(case, "predicates: on the result of %s field %r: is_big=%r "
                                    "is_little=%r, expected order %r" % (sig, name, b, l, want))
        # --- the same call again on the result
        d2, p2, swapped2 = model_step(d1, p1, func, keep)
        if func == "byteswap":
            claim = "swap twice"
        elif keep:
            claim = "second call with keep_dtype"
        else:
            claim = "idempotence"
        try:
            out2 = call(func, out, inplace, keep)
        except Exception as e:
            return rec.fail(case, "raised: second %s %s: %s" % (sig, type(e).__name__, e))
        ncall += 1
        if inplace:
            if out2 is not a:
                return rec.fail(case, "inplace: second %s did not return the caller's object" % sig)
        else:
            if out2 is out or out2 is a:
                return rec.fail(case, "copy: second %s returned its input object (%s)"
                                % (sig, "swap needed" if swapped2 else "nothing to swap"))
            if isinstance(out2, np.ndarray) and (np.shares_memory(out2, out)
                                                  or np.shares_memory(out2, W.mem)):
                return rec.fail(case, "copy: result of the second %s shares memory with its input (%s)"
                                % (sig, "swap needed" if swapped2 else "nothing to swap"))
        m = W.verify(out2, d2, p2)
        if m:
            return rec.fail(case, "%s: %s; second %s" % (claim, m, sig))
        if inplace:
            memexp = W.expected_mem(p2 or ">")
            if W.mem.tobytes() != memexp:
                return rec.fail(case, "%s: inplace buffer after the second %s is wrong [got %s expected %s]"
                                % (claim, sig, W.mem.tobytes().hex(), memexp.hex()))
        else:
            m = W.verify(out, d1, p1)
            if m:
                return rec.fail(case, "input modified: %s; first result after the second %s" % (m, sig))
            if W.mem.tobytes() != W.mem0:
                return rec.fail(case, "input modified: second %s changed the original memory" % sig)
            # physical independence: overwrite the caller's memory, then the first result
            W.mem[...] ^= 0xFF
            if W.verify(out, d1, p1) or W.verify(out2, d2, p2):
                return rec.fail(case, "copy: overwriting the input changed a result of %s" % sig)
            before2 = W.fieldbytes(out2)         # field bytes only: the padding bytes of a copy are not defined
            out[...] = np.zeros((), dtype=out.dtype)
            if W.fieldbytes(out2) != before2 or W.mem.tobytes() != bytes(b ^ 0xFF for b in W.mem0):
                return rec.fail(case, "copy: overwriting the result of %s changed another array" % sig)
        oc = "%s/%s/%s/%s" % (func, "inplace" if inplace else "copy", "keep" if keep else "retag",
                              "orderless" if d0 is None else ("swap" if swapped else "asis"))
        rec.ok(case, outcome=oc, nontrivial=W.visible, calls=ncall)

    quick = ctx.quick
    plain_codes = PLAIN_QUICK + ([] if quick else PLAIN_MORE)
    pats = ["ramp", "edge", ("rnd", 1000 + ctx.seed)]
    if not quick:
        pats += [("rnd", 2000 + ctx.seed), ("rnd", 3000 + ctx.seed)]
    pshapes = [(3,), (), (2, 3), (0,)] + ([] if quick else [(1,), (1, 2)])
    sshapes = [(3,), (), (2, 2), (0,)] + ([] if quick else [(1,), (2, 1)])

    def selections(alphabet, kmax):
        out = []
        for k in range(1, kmax + 1):
            for fs in itertools.permutations(alphabet, k):
                if any(TYPES[c][0] > 1 for _, c, _ in fs):
                    out.append(tuple(fs))
        return out

    sels = selections(FL, ctx.pick(3, 4))
    if not quick:
        seen = set(sels)
        sels += [s for s in selections(FL + FL_MORE, 3) if s not in seen]
    specs = []
    naligned = 0
    for fs in sels:
        specs.append((fs, False))
        if len(fs) <= ctx.pick(2, 3):
            sp = (fs, True)
            if build_dtype(sp, "<").itemsize != build_dtype((fs, False), "<").itemsize:
                specs.append(sp)
                naligned += 1
        if 2 <= len(fs) <= ctx.pick(2, 3):
            specs.append((fs, "view"))
        if len(fs) <= 2:
            specs.append((fs, "titled"))

    # tables whose columns ALL have the same item size, one of them a byte string of that width (strings have no byte
    # order: a whole-buffer swap chosen by item size alone reverses them)
    for fs in ((("id", "i4", ()), ("tag", "S4", ()), ("val", "f4", ())), (("a", "i2", ()), ("s", "S2", ())), (("s", "S2", ()), ("a", "u2", ()), ("h", "f2", ())),
               (("x", "f8", ()), ("s", "S8", ()), ("k", "i8", ())), (("c", "c8", ()), ("s", "S4", ())), (("s", "S4", ()), ("m", "u4", (2,))),
               (("s", "S8", ()), ("z", "c16", ()))):
        specs.append((fs, False))
    units = []
    for code in plain_codes:
        for order in (">", "<"):
            for shape in pshapes:
                for lay in lays_for(shape):
                    for pat in pats:
                        units.append((mk_plain(code), order, shape, lay, pat))
    nplain = len(units)
    for sp in specs:
        for order in (">", "<"):
            for shape in sshapes:
                for lay in lays_for(shape):
                    for pat in pats:
                        units.append((sp, order, shape, lay, pat))

    def expand(u):
        for ev in EVENTS:
            yield u + ev

    ctx.lattice("convert", units, one, expand=expand,
                bounds=dict(plain_codes=plain_codes, struct_field_alphabet=FL + ([] if quick else FL_MORE),
                            struct_selections=len(sels), aligned_variants=naligned,
                            plain_units=nplain, struct_units=len(units) - nplain,
                            orders=["<", ">"], plain_shapes=pshapes, struct_shapes=sshapes,
                            layouts=["own", "buf", "step", "T"], patterns=pats,
                            functions=list(FUNCS), inplace=[False, True], keep_dtype=[False, True]))

    # ---------------------------------------------------------- E2 sequences
    def execute(hist, rec):
        new = hist[0]
        W = World(*new[1:])
        cells = [[W.declared, W.declared]]
        objs = [(W.a, 0, 0)]               # (object, model cell, step that returned it)
        cur, cc = W.a, 0
        m = W.verify(cur, *cells[0])
        if m:
            rec.fail(hist, "harness: freshly built array: " + m)
            return None
        for step, ev in enumerate(hist[1:], 1):
            func, inplace, keep = ev
            sig = "step %d %s(inplace=%r, keep_dtype=%r)" % (step, func, inplace, keep)
            try:
                out = call(func, cur, inplace, keep)
            except Exception as e:
                rec.fail(hist, "raised: %s %s: %s" % (sig, type(e).__name__, e))
                return None
            d, p = cells[cc]
            d1, p1, sw = model_step(d, p, func, keep)
            if inplace:
                if out is not cur:
                    rec.fail(hist, "inplace: %s did not return the object it was given" % sig)
                    return None
                cells[cc] = [d1, p1]
            else:
                if any(out is o for o, _, _ in objs):
                    rec.fail(hist, "copy: %s returned an existing object (%s)"
                             % (sig, "swap needed" if sw else "nothing to swap"))
                    return None
                if isinstance(out, np.ndarray) and (
                        np.shares_memory(out, W.mem) or
                        any(np.shares_memory(out, o) for o, _, _ in objs)):
                    rec.fail(hist, "copy: result of %s shares memory with an earlier array (%s)"
                             % (sig, "swap needed" if sw else "nothing to swap"))
                    return None
                cells.append([d1, p1])
                cc = len(cells) - 1
                objs.append((out, cc, step))
                cur = out
            for o, ci, born in objs:
                m = W.verify(o, *cells[ci])
                if m:
                    rec.fail(hist, "%s: array returned by step %d, looked at after %s (model: "
                             "declared %r, bytes %r)" % (m, born, sig, cells[ci][0], cells[ci][1]))
                    return None
            memexp = W.expected_mem(cells[0][1] or ">")
            if W.mem.tobytes() != memexp:
                rec.fail(hist, "original buffer: after %s the original memory is wrong [got %s expected %s]"
                         % (sig, W.mem.tobytes().hex(), memexp.hex()))
                return None
        rec.count("d%s/p%s/%s" % (cells[cc][0], cells[cc][1], "alias" if cur is W.a else "separate"))
        return fingerprint(cur, W.a, cur is W.a, W.mem), EVENTS

    s_fx = ((("s", "S3", ()), ("x", "f8", ())), False)
    s_vb = ((("v", "i2", (2,)), ("b", "i1", ())), False)
    s_bmc = ((("b", "i1", ()), ("m", "u4", (2, 2)), ("c", "c8", ())), True)
    gen = ("rnd", 1000 + ctx.seed)
    root_specs = [
        (mk_plain("i4"), ">", (3,), "own", "ramp"),
        (s_fx, "<", (3,), "own", "ramp"),
        (s_vb, ">", (2, 2), "step", gen),
        (mk_plain("S3"), "<", (3,), "own", "edge"),
        (mk_plain("c8"), "<", (), "own", gen),
        (mk_plain("f8"), ">", (2, 3), "T", "edge"),
        (mk_plain("U2"), ">", (3,), "buf", "ramp"),
        (s_bmc, "<", (), "step", "ramp"),
    ]
    if not quick:
        root_specs += [
            (mk_plain("i1"), "<", (3,), "own", "ramp"),
            (s_fx, ">", (2, 2), "T", gen),
            (mk_plain("f16"), "<", (3,), "step", gen),
            (s_bmc, ">", (3,), "buf", "edge"),
        ]
    roots = [(("new",) + r,) for r in root_specs]
    nconv = ctx.pick(3, 5)
    ctx.histories("sequences", roots, execute, depth=1 + nconv, nodedup_depth=ctx.pick(3, 4),
                  bounds=dict(roots=len(roots), max_conversions=nconv, events=len(EVENTS)))

    # ------------------------------------------------------- E1 predicates
    def one_pred(case, rec):
        code, sp, shape, via = case
        dt = np.dtype(sp + code)
        if via == "array":
            x = np.zeros(shape, dt)
        elif via == "field":
            x = np.zeros(shape, [("p", "u1"), ("q", dt)])["q"]
        elif via == "subfield":
            x = np.zeros(shape, [("p", "S3"), ("q", dt, (2,))])["q"]
        else:
            x = np.zeros((4,) + tuple(shape), dt)[::2]
        ordered = TYPES[code][0] > 1
        want = {"<": "<", ">": ">", "=": NATIVE, "|": NATIVE}[sp] if ordered else None
        try:
            b, l = nu.is_big_endian(x), nu.is_little_endian(x)
        except Exception as e:
            return rec.fail(case, "raised: predicates on %s: %s %s" % (dt, type(e).__name__, e))
        if bool(b) != (want == ">") or bool(l) != (want == "<"):
            return rec.fail(case, "predicates: dtype spelled %r (numpy byteorder %r): is_big_endian=%r "
                            "is_little_endian=%r, declared order is %r"
                            % (sp + code, x.dtype.byteorder, b, l, want))
        rec.ok(case, outcome="numpy %r -> %s" % (x.dtype.byteorder, {">": "big", "<": "little",
                                                                     None: "neither"}[want]),
               nontrivial=ordered, calls=2)

    punits = [(code, sp, shape, via) for code in plain_codes for sp in ("<", ">", "=", "|")
              for shape in ((3,), (), (2, 3)) for via in ("array", "field", "subfield", "strided")]
    ctx.lattice("predicates", punits, one_pred,
                bounds=dict(codes=plain_codes, spellings=["<", ">", "=", "|"],
                            via=["array", "field", "subfield", "strided"]))

    # ------------------------------------------------------------ E1 descr
    def one_descr(case, rec):
        fields, orders, which = case
        dt = np.dtype([(n, o + c, s) if s else (n, o + c) for (n, c, s), o in zip(fields, orders)])
        try:
            if which == "descr_to_native":
                arg = dt.descr
                snap = list(arg)
                r = nu.descr_to_native(arg)
                if arg != snap:
                    return rec.fail(case, "descr: descr_to_native modified its argument: %r" % (arg,))
            else:
                r = ru.remove_dtype_byteorder(dt)
            rd = np.dtype(r)
        except Exception as e:
            return rec.fail(case, "raised: %s on %s: %s %s" % (which, dt, type(e).__name__, e))
        W = World((fields, False), NATIVE, (), "own", "ramp")
        exp = W.descr(NATIVE if W.declared else None)
        if describe(rd) != exp:
            return rec.fail(case, "descr: %s of %s gives %r -> %r, expected %r"
                            % (which, dt, r, describe(rd), exp))
        rec.ok(case, outcome="%s/%s" % (which, "".join(sorted(set(orders)))),
               nontrivial=any(o == OTHER and TYPES[c][0] > 1 for (_, c, _), o in zip(fields, orders)),
               calls=1)

    dunits = []
    for fs in sels:
        k = len(fs)
        for orders in (("<",) * k, (">",) * k, tuple("<>"[i % 2] for i in range(k)),
                       tuple("><"[i % 2] for i in range(k))):
            for which in ("descr_to_native", "remove_dtype_byteorder"):
                dunits.append((fs, orders, which))
    ctx.lattice("descr", dunits, one_descr,
                bounds=dict(selections=len(sels), orders=["all <", "all >", "alternating"],
                            functions=["numpy_util.descr_to_native",
                                       "recfile.Util.remove_dtype_byteorder"]))

    # ------------------------------------------------------------ call sequences
    # sequences of conversions/predicates on several arrays in one process (mc/worlds.py call_sequences):
    # a dtype translation memo keyed by too little (names, itemsize), results sharing memory with an
    # earlier result, a predicate that remembers the previous array
    from mc.worlds import call_sequences

    def seq_pool():
        a = np.zeros(3, dtype=[("x", "<f8"), ("v", "<i2", (2,)), ("s", "S3")])
        a["x"] = [1.5, -2.0, 3.25]
        a["v"] = [[1, 2], [3, 4], [5, 6]]
        a["s"] = [b"a", b"", b"abc"]
        b = np.zeros(3, dtype=[("x", ">i8"), ("v", ">f4"), ("s", "S3")])      # same names and item size, other types
        b["x"] = [7, 8, 9]
        b["v"] = [0.5, 1.5, 2.5]
        b["s"] = [b"q", b"rs", b""]
        return dict(a=a, b=b, p=np.array([1, 2, 70000], dtype="<i4"), q=np.array([1.0, 2.0, 3.5], dtype=">f8"))

    SEQ_CALLS = [(f, arr, keep) for f in ("to_native", "to_big_endian", "to_little_endian", "byteswap")
                 for arr in ("a", "b", "p", "q") for keep in (False, True) if not (keep and f != "byteswap" and arr in ("p",))]
    SEQ_CALLS += [("is_big_endian", arr, None) for arr in ("a", "b", "p", "q")]
    if ctx.quick:
        # depth 3 (call, edit of the result, call) on the structured tables and one plain array
        SEQ_CALLS = [c for c in SEQ_CALLS if (c[1] in ("a", "b") and (not c[2] or c[0] == "byteswap")) or (c[1] == "q" and c[0] in ("to_native", "is_big_endian"))]

    def seq_run(c, pool):
        f, arr, keep = c
        if f.startswith("is_"):
            return [np.array([bool(nu.is_big_endian(pool[arr])), bool(nu.is_little_endian(pool[arr]))])]
        r = getattr(nu, f)(pool[arr], inplace=False, keep_dtype=keep)
        return [r, np.array(repr(r.dtype.descr if r.dtype.names else r.dtype.str))]

    call_sequences(ctx, "call-sequences", seq_pool, SEQ_CALLS, seq_run, lambda: [nu, ru], depth=3, nodedup_depth=3, result_edits=True)

    # ------------------------------------------------------------ error path: read-only arrays, in place
    # an in-place conversion of an array that cannot be written must either succeed without touching it (nothing to
    # swap) or raise AND leave the array exactly as it was (declared order and bytes): a half-done in-place
    # conversion would make every later read of the caller's array wrong
    def one_ro(case, rec):
        func, kind, order, keep = case
        if kind == "plain":
            a = np.array([1, 2, 70000], dtype=order + "i4")
        elif kind == "f8":
            a = np.array([[1.5, -2.0], [3.25, 4.0]], dtype=order + "f8")
        else:
            a = np.zeros(3, dtype=[("x", order + "f8"), ("s", "S3"), ("v", order + "i2", (2,))])
            a["x"] = [1.5, -2.0, 3.25]
            a["s"] = [b"a", b"", b"abc"]
            a["v"] = [[1, 2], [3, 4], [5, 6]]
        frozen = np.frombuffer(a.tobytes(), dtype=a.dtype).reshape(a.shape)      # not writeable
        before = (frozen.dtype.descr if frozen.dtype.names else frozen.dtype.str, frozen.tobytes(), frozen.flags.writeable)
        try:
            r = fn_of[func](frozen, inplace=True, keep_dtype=keep)
            raised = None
        except Exception as e:
            r, raised = None, "%s: %s" % (type(e).__name__, str(e)[:80])
        after = (frozen.dtype.descr if frozen.dtype.names else frozen.dtype.str, frozen.tobytes(), frozen.flags.writeable)
        if raised is not None:
            if after != before:
                return rec.fail(case, "%s(inplace=True) on a read-only array raised %s and left the array changed: declared %r -> %r, "
                                      "bytes %s" % (func, raised, before[0], after[0], "changed" if before[1] != after[1] else "unchanged"))
            return rec.ok(case, outcome="raised-and-untouched", nontrivial=True)
        # no error: then nothing had to be written, and the values must be those of the input
        if after[1] != before[1]:
            return rec.fail(case, "%s(inplace=True) changed the bytes of a read-only array without an error" % func)
        if repr(a.tolist()) != repr(np.asarray(r).tolist()):
            return rec.fail(case, "%s(inplace=True) on a read-only array returned other values without an error: %r" % (func, np.asarray(r).tolist()))
        rec.ok(case, outcome="no-write-needed", nontrivial=False)

    rounits = [(f, k, o, keep) for f in FUNCS for k in ("plain", "f8", "struct") for o in ("<", ">") for keep in (False, True)]
    ctx.lattice("read-only-in-place", rounits, one_ro, bounds=dict(functions=list(FUNCS), kinds=["plain i4", "2-d f8", "structured"]))

    # ------------------------------------------------------------ in place on ndarray subclasses
    # record arrays and other ndarray subclasses are arrays too: an in-place conversion returns the SAME object, and
    # that object (not a temporary base-class view of it) declares the new order and holds the same values
    class _Sub(np.ndarray):
        pass

    def one_sub(case, rec):
        func, kind, order, keep = case
        if kind == "recarray":
            a = np.zeros(3, dtype=[("x", order + "f8"), ("s", "S3"), ("v", order + "i2", (2,))])
            a["x"] = [1.5, -2.0, 3.25]
            a["s"] = [b"a", b"", b"abc"]
            a["v"] = [[1, 2], [3, 4], [5, 6]]
            sub = a.view(np.recarray)
        else:
            a = np.array([1, 2, 70000], dtype=order + "i4")
            sub = a.view(_Sub)
        def plain(z):
            z = np.asarray(z)
            if z.dtype.names:
                return [z[n].astype(z.dtype[n].base.newbyteorder("=")).tolist() for n in z.dtype.names]
            return z.astype(z.dtype.newbyteorder("=")).tolist()
        vals = plain(a)
        try:
            r = fn_of[func](sub, inplace=True, keep_dtype=keep)
        except Exception as e:
            return rec.fail(case, "%s(inplace=True) on a %s raised %s: %s" % (func, kind, type(e).__name__, e))
        if r is not sub:
            return rec.fail(case, "%s(inplace=True) on a %s returned another object" % (func, kind))
        if keep:
            return rec.ok(case, outcome="sub:keep_dtype", nontrivial=True)
        if plain(sub) != vals:
            return rec.fail(case, "%s(inplace=True) on a %s: the caller's object now reads %r, was %r" % (func, kind, plain(sub), vals))
        want = {"to_native": "=", "to_big_endian": ">", "to_little_endian": "<"}.get(func)
        if want is not None:
            dts = [sub.dtype[n].base for n in sub.dtype.names] if sub.dtype.names else [sub.dtype]
            for dt in dts:
                if dt.itemsize > 1 and dt.kind in "iufc":
                    native = "<" if np.little_endian else ">"
                    bo = native if dt.byteorder == "=" else dt.byteorder
                    if bo != (native if want == "=" else want):
                        return rec.fail(case, "%s(inplace=True) on a %s: the caller's object declares %s, requested %r" % (func, kind, dt.str, want))
        rec.ok(case, outcome="sub:%s" % kind, nontrivial=True)

    subunits = [(f, k, o, keep) for f in FUNCS for k in ("recarray", "subclass") for o in ("<", ">") for keep in (False, True)]
    ctx.lattice("in-place-on-subclasses", subunits, one_sub, bounds=dict(kinds=["numpy.recarray", "plain ndarray subclass"]))

    # ------------------------------------------------------------ every numpy type CHARACTER (round 8)
    # numpy has several distinct types behind one width ('l' and 'q' are both 8-byte integers on Linux-64, 'i' / 'l' /
    # 'p' etc.): their .str is the same, their .char / .num are not.  Code that recognises ordered columns by type
    # character must know all of them: each character as a plain array, as the ONLY multi-byte column of a table
    # (next to 1-byte columns - nothing else decides the order) and as a sub-array column.
    CHARS = "?bhilqpBHILQPefdgFDGSUMm"

    def _dt_of(ch, order):
        if ch == "S":
            return np.dtype("S3")
        if ch == "U":
            return np.dtype(order + "U2")
        if ch in "Mm":
            return np.dtype(order + ch + "8[s]")
        return np.dtype(ch).newbyteorder(order)

    def _vals_of(dt, n):
        if dt.kind == "S":
            return np.array([b"a", b"", b"abc", b"zz"][:n], dtype=dt)
        if dt.kind == "U":
            return np.array(["a", "", "αb", "z"][:n], dtype=dt)
        if dt.kind == "b":
            return np.array([True, False, True, True][:n], dtype=dt)
        if dt.kind == "c":
            return np.array([1 + 2j, -3.5 + 0.25j, 258 - 1j, 0.5j][:n]).astype(dt)
        if dt.kind in "Mm":
            return np.array([1, 258, 70000, 3][:n], dtype="i8").astype(dt)
        return np.array([1, 2, 100, 3][:n]).astype(dt)

    def one_char(case, rec):
        func, ch, order, layout = case
        dt = _dt_of(ch, order)
        n = 3
        if layout == "plain":
            a = _vals_of(dt, n)
            cols = [None]
        elif layout == "only-column":
            a = np.zeros(n, dtype=[("b", "u1"), ("k", dt), ("s", "S1")])
            a["k"] = _vals_of(dt, n)
            a["b"] = [1, 2, 3]
            cols = ["k"]
        else:
            a = np.zeros(n, dtype=[("k", dt, (2,)), ("f", "?")])
            a["k"][:, 0] = _vals_of(dt, n)
            a["k"][:, 1] = _vals_of(dt, n)[::-1]
            cols = ["k"]
        before = a.tobytes()
        try:
            r = fn_of[func](a)
        except Exception as e:
            return rec.fail(case, "%s on type character %r (%s, %s) raised %s: %s" % (func, ch, dt.str, layout, type(e).__name__, e))
        if a.tobytes() != before:
            return rec.fail(case, "%s (not in place) changed its argument" % func)
        want = {"to_native": NATIVE, "to_big_endian": ">", "to_little_endian": "<"}[func]
        for c in cols:
            src = a if c is None else a[c]
            out = np.asarray(r) if c is None else np.asarray(r)[c]
            if out.shape != src.shape:
                return rec.fail(case, "%s: shape %r became %r" % (func, src.shape, out.shape))
            eq = (out == src) if src.dtype.kind not in "SU" else (out.astype(src.dtype.newbyteorder("=")) == src.astype(src.dtype.newbyteorder("=")))
            if not np.all(eq):
                return rec.fail(case, "%s on type character %r (%s): values changed: %r -> %r" % (func, ch, layout, src.tolist(), out.tolist()))
            odt = out.dtype.base
            ordered = odt.itemsize > 1 and odt.kind not in "SVb"
            if ordered:
                bo = NATIVE if odt.byteorder == "=" else odt.byteorder
                if bo != want:
                    return rec.fail(case, "%s on type character %r (%s, input %s): the result declares %s, requested order %r"
                                    % (func, ch, layout, dt.str, odt.str, want))
        rec.ok(case, outcome="char:%s:%s" % (layout, "ordered" if dt.itemsize > 1 and dt.kind not in "SVb" else "orderless"),
               nontrivial=dt.itemsize > 1, calls=1)

    chunits = [(f, ch, o, lay) for f in ("to_native", "to_big_endian", "to_little_endian") for ch in CHARS for o in ("<", ">")
               for lay in ("plain", "only-column", "subarray-column")]
    ctx.lattice("type-characters", chunits, one_char, bounds=dict(characters=CHARS, layouts=["plain", "only-column", "subarray-column"], orders=["<", ">"]))
