"""C01 - binary record files reproduce the written table bit-for-bit (E1 + E2)."""
import itertools
import os

import numpy as np

from mc.oracle import table as T

RULE = (
    "products: (a) every 1-field table over 16 kinds x sub-array shape {scalar,(2,),(2,3),(2,1,2)} x "
    "byte order, ordered 2-field tables over a sub-alphabet and one 16-field table per order, x rows x "
    "{no header, small header} x every writer x every reader; (b) every single (key,value) header from "
    "the key x value alphabets and all 2-key headers of a 6x6 sub-lattice; (c) every field name of the "
    "name lattice in first/last position; (d) header-less writers x readers; (e) histories: every ordered "
    "pair/triple of reads on one open handle vs fresh handles.  non-trivial = table has a big-endian "
    "multi-byte field or a sub-array, or header/name contains END/SIZE/quote/newline/non-ASCII."
)
ASSUMPTIONS = [
    "cell values cycle through a per-type boundary list (integer extremes, +-0, +-inf, 3 NaN payloads, denormal, max, embedded NUL, 0xFF, b'END')",
    "tables have at most 16 fields; header dicts at most 2 user keys",
    "the data offset used for the header-less readers is computed independently as len(file)-len(table bytes)",
]

SHAPES = [None, (2,), (2, 3), (2, 1, 2)]
KEYS = ["a", "END", "SIZE", "size", "nrows", "BLEND", "x y", "it's", 'q"k', "ключ", "dtype", "e\\n", "50%", "%s"]
VALUES = [
    0, -7, 2 ** 70, 1.5, 1e-300, -0.0, True, None, "", "END", "SIZE = 3", "it's \"q\"\nnew",
    "word " * 60, "x" * 200, b"\x00\xff", b"END", (1,), (), [], {}, [1, [2, {"z": 1.5}]], {"END": 1},
    "  lead", "trail  ", "a\tb", "\\", "é", "{", "#", "\nEND\n", "a\nEND", "END\nb",
    # printf conversions: the header text must never be used as a format string
    "100%% clean", "%d", "%5d items", "95% of", "%s%s%s%s", "%",
]
K6 = ["a", "END", "size", "x y", "it's", "ключ"]
V6 = [0, 1.5, "END", "it's \"q\"\nnew", [1, [2, {"z": 1.5}]], None, "%d %% %s"]
NAMES = ["a", "END", "ENDPOINT", "aEND", "SIZE", "Size", "x_1", "é", "END_", "_x", "nrows"]
WRITERS = ["SFile.write", "sfile.write(fn,d)", "sfile.write(d,fn)", "io.write"]
READERS = ["sfile.read", "SFile.read", "SFile[:]", "io.read", "Recfile(offset)", "Recfile(offset,nrows)",
           "recfile.read(offset,nrows)", "io.read(dtype,offset)"]


def descr_of(kind, shape, order, name="f0"):
    t = T.typestr(kind, order)
    return (name, t, shape) if shape else (name, t)


def nontrivial_table(descr):
    for d in descr:
        if len(d) == 3 or d[1][0] == ">":
            return True
    return False


def main(ctx):
    # every lattice part once more under FP traps + warnings-as-errors (clean on the unchanged tree, see DESIGN section 0)
    ctx.envstrict_all = True
    from mc.util import no_fd_leak
    import esutil
    from esutil import sfile, recfile

    @no_fd_leak
    def do_write(writer, fn, d, hdr):
        if writer == "SFile.write":
            sf = sfile.SFile(fn, "w")
            try:
                sf.write(d, header=hdr)
            finally:
                sf.close()
        elif writer == "sfile.write(fn,d)":
            sfile.write(fn, d, header=hdr)
        elif writer == "sfile.write(d,fn)":
            sfile.write(d, fn, header=hdr)
        elif writer == "io.write":
            esutil.io.write(fn, d, header=hdr)
        else:
            raise ValueError(writer)

    @no_fd_leak
    def do_read(reader, fn, d, offset):
        """-> (array, header or None)"""
        if reader == "sfile.read":
            return sfile.read(fn, header=True)
        if reader == "SFile.read":
            with sfile.SFile(fn) as sf:
                return sf.read(header=True)
        if reader == "SFile[:]":
            with sfile.SFile(fn) as sf:
                return sf[:], sf.get_header()
        if reader == "io.read":
            return esutil.io.read(fn, header=True)
        if reader == "Recfile(offset)":
            with recfile.Recfile(fn, dtype=d.dtype, offset=offset) as rf:
                return rf.read(), None
        if reader == "Recfile(offset,nrows)":
            with recfile.Recfile(fn, dtype=d.dtype, offset=offset, nrows=d.size) as rf:
                return rf[:], None
        if reader == "recfile.read(offset,nrows)":
            return recfile.read(fn, d.dtype, offset=offset, nrows=d.size), None
        if reader == "io.read(dtype,offset)":
            return esutil.io.read(fn, dtype=d.dtype, offset=offset), None
        raise ValueError(reader)

    def check_header(hdr, d, user):
        if not isinstance(hdr, dict):
            return "header is %r" % (hdr,)
        if hdr.get("_SIZE") != d.size or type(hdr.get("_SIZE")) is not int:
            return "_SIZE=%r, rows written %d" % (hdr.get("_SIZE"), d.size)
        try:
            if np.dtype(hdr["_DTYPE"]).descr != d.dtype.descr:
                return "_DTYPE %r does not rebuild %r" % (hdr["_DTYPE"], d.dtype.descr)
        except Exception as e:
            return "_DTYPE %r unusable: %s" % (hdr.get("_DTYPE"), e)
        if "_DELIM" in hdr and hdr["_DELIM"] is not None:
            return "binary file has _DELIM=%r" % (hdr["_DELIM"],)
        for k, v in (user or {}).items():
            if k not in hdr:
                return "user key %r missing from header %r" % (k, sorted(hdr))
            if not T.teq(hdr[k], v):
                return "user key %r: read %r, written %r" % (k, hdr[k], v)
        return None

    def roundtrip(case, rec, descr, nrows, hdr, writers, readers, nontriv, layout="contig"):
        want = T.make_table(descr, nrows, seed=ctx.seed)
        d = T.relayout(want, layout)
        snap = T.base_bytes(d)
        calls = 0
        for writer in writers:
            fn = os.path.join(rec.tmp, "c01.rec")
            if os.path.exists(fn):
                os.unlink(fn)
            try:
                do_write(writer, fn, d, hdr)
            except Exception as e:
                return rec.fail(case, "%s raised %s: %s" % (writer, type(e).__name__, str(e)[:200]))
            calls += 1
            if d.tobytes() != want.tobytes() or d.dtype.descr != want.dtype.descr or T.base_bytes(d) != snap:
                return rec.fail(case, "%s modified its input array" % writer)
            raw = open(fn, "rb").read()
            nb = d.nbytes
            offset = len(raw) - nb
            if offset <= 0 or raw[offset:] != want.tobytes():
                return rec.fail(case, "%s: the file does not end with the table's bytes (len %d, table %d)"
                                % (writer, len(raw), nb))
            if not raw[:offset].endswith(b"\nEND\n\n"):
                return rec.fail(case, "%s: header does not end with an END line + blank line: %r"
                                % (writer, raw[max(0, offset - 20):offset]))
            if not raw.startswith(b"SIZE = %20d\n" % nrows):
                return rec.fail(case, "%s: first line %r" % (writer, raw[:30]))
            for reader in readers:
                try:
                    out, h = do_read(reader, fn, d, offset)
                except Exception as e:
                    return rec.fail(case, "%s -> %s raised %s: %s"
                                    % (writer, reader, type(e).__name__, str(e)[:200]))
                calls += 1
                m = T.same_table(out, want)
                if m:
                    return rec.fail(case, "%s -> %s: %s" % (writer, reader, m))
                if h is not None:
                    m = check_header(h, want, hdr)
                    if m:
                        return rec.fail(case, "%s -> %s: %s" % (writer, reader, m))
        rec.ok(case, outcome="roundtrip-ok", nontrivial=nontriv, calls=calls)

    # ------------------------------------------------------------ (a) tables
    H_SMALL = {"k": 1, "s": "it's"}

    def one_table(case, rec):
        descr, nrows, hk, wsel, rsel = case
        hdr = None if hk == 0 else ({} if hk == 1 else H_SMALL)
        writers = WRITERS if wsel == "all" else [wsel]
        readers = READERS if rsel == "all" else [rsel]
        roundtrip(case, rec, descr, nrows, hdr, writers, readers, nontrivial_table(descr))

    tables = []
    for k in T.KINDS:
        for sh in SHAPES:
            for o in "<>":
                if o == ">" and np.dtype(k).itemsize == 1 or (o == ">" and k[0] == "S"):
                    continue
                tables.append([descr_of(k, sh, o)])
    n1 = len(tables)
    sub = [("i1", None, "<"), ("f8", None, ">"), ("S3", None, "<"), ("c8", (2,), "<"), ("?", None, "<"),
           ("u2", (2, 3), ">"), ("i8", None, "<"), ("f4", (2,), ">"), ("S1", (2,), "<"), ("u8", None, ">")]
    if ctx.quick:
        sub = sub[:8]
    if ctx.quick:
        for a, b in itertools.permutations(range(len(sub)), 2):
            tables.append([descr_of(*sub[a], name="a"), descr_of(*sub[b], name="b")])
    else:
        # thorough: every ordered pair over ALL (kind, shape, order) variants, and
        # every ordered triple over the sub-alphabet
        variants = [tuple(t[0][1:]) for t in tables[:n1]]
        for a, b in itertools.permutations(range(n1), 2):
            tables.append([("a",) + variants[a], ("b",) + variants[b]])
        for a, b, c in itertools.permutations(range(len(sub)), 3):
            tables.append([descr_of(*sub[a], name="a"), descr_of(*sub[b], name="b"),
                           descr_of(*sub[c], name="c")])
    for o in "<>":
        tables.append([descr_of(k, SHAPES[i % 4], o, name="f%d" % i) for i, k in enumerate(T.KINDS)])
    rows = ctx.pick([1, 3], [1, 2, 5, 17])
    units = []
    for descr in tables:
        for nrows in rows:
            for hk in (0, 1, 2):
                units.append((descr, nrows, hk, "all", "all"))
    ctx.lattice("tables", units, one_table,
                bounds=dict(one_field_tables=n1, tables=len(tables), rows=rows, writers=WRITERS,
                            readers=READERS, kinds=T.KINDS, shapes=[str(s) for s in SHAPES]))

    # -------------------------------------------- (a2) memory layouts of the input
    def one_layout(case, rec):
        descr, nrows, layout, writer = case
        roundtrip(case, rec, descr, nrows, {"k": 1}, [writer], ["sfile.read", "Recfile(offset)"], True, layout=layout)

    lunits = []
    for descr in tables[:n1:3] + tables[-2:]:
        for nrows in (1, 2, 5):
            for layout in T.LAYOUTS[1:]:
                for wsel in WRITERS:
                    lunits.append((descr, nrows, layout, wsel))
        # the table handed over as a 2-d / 3-d array of records (one row per record, C order)
        for nrows in (4, 6, 3):
            for layout in T.LAYOUTS_ND:
                for wsel in WRITERS:
                    lunits.append((descr, nrows, layout, wsel))
    ctx.lattice("input-layouts", lunits, one_layout, bounds=dict(layouts=T.LAYOUTS[1:] + T.LAYOUTS_ND, rows=[1, 2, 5, 4, 6, 3]))

    # ------------------------- (a3) hostile bytes at the start / end of the data section
    PATTERNS = [b"\n", b"\n\n\n\n", b"\nEND\n\n", b"END", b" ", b"\r\n", b"SIZE = 1\n", b"\x00", b"\xff", b"}\n"]

    def one_hostile(case, rec):
        descr, nrows, pi, where, writer = case
        pat = PATTERNS[pi]
        want = T.make_table(descr, nrows, seed=ctx.seed)
        raw = want.view("u1").reshape(nrows, -1)
        row = 0 if where == "first" else nrows - 1
        fill = (pat * (raw.shape[1] // len(pat) + 1))[:raw.shape[1]]
        raw[row, :] = np.frombuffer(fill, dtype="u1")
        # run the ordinary round trip on exactly these bytes
        d = want.copy()
        fn = os.path.join(rec.tmp, "c01x.rec")
        if os.path.exists(fn):
            os.unlink(fn)
        try:
            do_write(writer, fn, d, {"k": 1})
        except Exception as e:
            return rec.fail(case, "%s raised %s: %s" % (writer, type(e).__name__, str(e)[:200]))
        rawf = open(fn, "rb").read()
        offset = len(rawf) - want.nbytes
        if offset <= 0 or rawf[offset:] != want.tobytes():
            return rec.fail(case, "%s: the file does not end with the table's bytes" % writer)
        calls = 1
        for reader in READERS:
            try:
                out, h = do_read(reader, fn, want, offset)
            except Exception as e:
                return rec.fail(case, "%s -> %s raised %s: %s" % (writer, reader, type(e).__name__, str(e)[:200]))
            calls += 1
            m = T.same_table(out, want)
            if m:
                return rec.fail(case, "%s -> %s: %s" % (writer, reader, m))
            if h is not None:
                m = check_header(h, want, {"k": 1})
                if m:
                    return rec.fail(case, "%s -> %s: %s" % (writer, reader, m))
        # partial reads must see the same bytes (slice / single row / column)
        with sfile.SFile(fn) as sf:
            calls += 3
            name0 = want.dtype.names[0]
            if sf[0:1].tobytes() != want[0:1].tobytes() or sf[nrows - 1].tobytes() != want[nrows - 1:].tobytes() \
                    or np.ascontiguousarray(sf[name0][:]).tobytes() != np.ascontiguousarray(want[name0]).tobytes():
                return rec.fail(case, "%s: a partial read (slice / last row / first column) differs from the table" % writer)
        rec.ok(case, outcome="hostile-bytes-ok", nontrivial=True, calls=calls)

    xunits = []
    for descr in tables[:n1:2] + tables[n1:n1 + 4]:
        for nrows in (1, 3):
            for pi in range(len(PATTERNS)):
                for where in ("first", "last"):
                    xunits.append((descr, nrows, pi, where, "sfile.write(fn,d)"))
    ctx.lattice("hostile-data-bytes", xunits, one_hostile,
                bounds=dict(patterns=[repr(x) for x in PATTERNS], rows=[1, 3]))

    # ----------------------------------------------------------- (b) headers
    HD = [("a", ">i4"), ("s", "S3"), ("x", "<f8", (2,))]

    def one_header(case, rec):
        hdr, writer, reader = case
        txt = " ".join([str(k) for k in hdr] + [str(v) for v in hdr.values()])
        nt = any(w in txt for w in ("END", "SIZE", "'", '"', "\n", "ключ", "é", "\\"))
        roundtrip(case, rec, HD, 2, hdr, [writer], [reader] if reader != "all" else READERS[:4], nt)

    hunits = []
    for k in KEYS:
        for v in VALUES:
            hunits.append(({k: v}, "sfile.write(fn,d)", "sfile.read"))
    for (k1, k2) in itertools.combinations(K6, 2):
        for v1 in V6:
            for v2 in V6:
                hunits.append(({k1: v1, k2: v2}, "sfile.write(fn,d)", "sfile.read"))
    # every writer x header-aware reader on a few hostile headers
    for hdr in ({"END": "END"}, {"a": "\nEND\n"}, {"SIZE": "SIZE = 3", "size": 5}, {"ключ": "word " * 60}):
        for w in WRITERS:
            hunits.append((hdr, w, "all"))
    ctx.lattice("headers", hunits, one_header,
                bounds=dict(keys=KEYS, n_values=len(VALUES), two_key_lattice="C(6,2) x 6 x 6"))

    # -------------------------------------------------- (b2) header sizes
    # user headers of every size in two windows, so that the END line (and the start of the data section) falls on
    # every byte offset around the 4096- and 8192-byte marks: readers that scan the header in blocks or lines of a
    # fixed buffer size break at particular offsets only
    def one_hsize(case, rec):
        key, n = case
        hdr = {key: "x" * n}
        fn = os.path.join(rec.tmp, "c01.rec")
        roundtrip(case, rec, HD, 2, hdr, ["sfile.write(fn,d)"], ["sfile.read", "SFile[:]"], True)
        try:
            raw = open(fn, "rb").read()
            pos = raw.find(b"\nEND\n")
            if pos >= 0:
                rec.count("end_line_offset_mod_4096=%04d" % (pos % 4096))
        except Exception:
            pass

    wins = ctx.pick([(3850, 4150)], [(3700, 4300), (7700, 8400), (16100, 16500)])
    hsunits = [(key, n) for key in ("pad", "padding_2") for (a, b) in wins for n in range(a, b)]
    part_hs = ctx.lattice("header-sizes", hsunits, one_hsize, bounds=dict(windows=wins, keys=["pad", "padding_2"]))
    if getattr(part_hs, "stats", None):
        cov = sorted(int(k.split("=")[1]) for k in part_hs.stats.get("extra", {}) if k.startswith("end_line_offset_mod_4096="))
        near = [r for r in range(4096 - 24, 4096)] + [r for r in range(0, 24)]
        missing = [r for r in near if r not in cov]
        ctx.notes.append("header-sizes: END-line offsets modulo 4096 covered: %d distinct; residues within 24 bytes of a "
                         "block boundary not covered: %r" % (len(cov), missing))

    # -------------------------------------------------- (b3) large tables
    # tables whose byte size sits on / next to the 1 MiB and 64 KiB marks, and a single row wider than 1 MiB: writers
    # and readers that move the data in blocks (instead of one fwrite/fread) fail for particular row counts only
    def one_large(case, rec):
        descr, nrows, writer, reader = case
        roundtrip(case, rec, [tuple(d) for d in descr], nrows, {"n": nrows}, [writer], [reader], True)

    from mc.longarr import marks as _marks, harvest_lengths
    import esutil.recfile.Util as _ru
    import esutil.sfile as _sm
    # row counts derived from the integer constants of the code under test (as rows, and as bytes of 8-byte rows)
    _hl, _hb = harvest_lengths([_sm, _ru], ["recfile"])
    HARV = tuple(sorted({n for n in _hl if n >= 1000} | {n // 8 for n in _hl if n >= 8000 and n % 8 == 0}))
    ctx.notes.append("large-tables: integer constants harvested from sfile.py, recfile/Util.py, recfile/*.cpp: %r" % (_hb,))
    # constants above 2e7 read as BYTE sizes of blocks (64 MiB ...): tables of 12-byte rows - a row size that divides no
    # power of two - just beyond one and two such blocks
    HARV12 = tuple(sorted({k * b // 12 + d for b in _hb if 20000000 < b <= 2 ** 28 for k in (1, 2) for d in (1, 7)}))
    LARGE = []
    for descr, rows in (
            ([("a", "<i8"), ("x", "<f8")], (4095, 4096, 4097, 65535, 65536, 65537, 131072,          # 16-byte rows
                                            99999, 100000, 100001, 999999, 1000000, 1000001, 2000000)),   # ... and decimal marks
            ([("a", "<i2"), ("x", "<f4"), ("s", "S2")], tuple(m + d for m in _marks(ctx) for d in (-1, 0, 1)) + HARV),   # 8-byte rows, universal marks (mc/longarr.py)
            ([("a", "<i4"), ("x", ">f8")], (5461, 5462, 87381, 87382) + HARV12),                    # 12-byte rows
            ([("s", "S1024")], (63, 64, 65, 1023, 1024, 1025, 2048)),                               # 1 KiB rows
            ([("s", "S1100000"), ("k", "<i2")], (1, 2))):                                           # a row wider than 1 MiB
        for n in rows:
            for (w, r) in (("sfile.write(fn,d)", "sfile.read"), ("SFile.write", "SFile[:]"), ("io.write", "Recfile(offset)")):
                LARGE.append((descr, n, w, r))
    ctx.lattice("large-tables", LARGE, one_large, bounds=dict(cases=len(LARGE)))

    # -------------------------------------------------------- (c) field names
    def one_name(case, rec):
        name, pos, other, nrows = case
        descr = [(name, "<i4"), ("zz", other)] if pos == 0 else [("zz", other), (name, ">f8", (2,))]
        roundtrip(case, rec, descr, nrows, {"note": name}, ["sfile.write(fn,d)", "SFile.write"],
                  READERS, True)

    nunits = [(nm, pos, other, n) for nm in NAMES for pos in (0, 1) for other in ("<f8", "S3")
              for n in (1, 2)]
    ctx.lattice("field-names", nunits, one_name, bounds=dict(names=NAMES))

    # ------------------------------------------------- (d) header-less files
    def one_plain(case, rec):
        descr, nrows, writer = case[:3]
        want = T.make_table(descr, nrows, seed=ctx.seed + 1)
        d = T.relayout(want, case[3] if len(case) > 3 else "contig")
        fn = os.path.join(rec.tmp, "c01.bin")
        if os.path.exists(fn):
            os.unlink(fn)
        try:
            if writer == "recfile.write":
                recfile.write(fn, d)
            else:
                r = recfile.Recfile(fn, mode="w")
                r.write(d)
                r.close()
        except Exception as e:
            return rec.fail(case, "%s raised %s: %s" % (writer, type(e).__name__, e))
        if open(fn, "rb").read() != want.tobytes():
            return rec.fail(case, "%s: file bytes differ from the table's bytes" % writer)
        calls = 1
        rds = {
            "recfile.read": lambda: recfile.read(fn, d.dtype),
            "Recfile(nrows)": lambda: recfile.Recfile(fn, dtype=d.dtype, nrows=d.size).read(),
            "Recfile(count)": lambda: recfile.Recfile(fn, dtype=d.dtype)[:],
            "io.read(dtype)": lambda: esutil.io.read(fn, dtype=d.dtype, type="rec"),
        }
        for rn, rf in rds.items():
            try:
                out = rf()
            except Exception as e:
                return rec.fail(case, "%s -> %s raised %s: %s" % (writer, rn, type(e).__name__, e))
            calls += 1
            m = T.same_table(out, want)
            if m:
                return rec.fail(case, "%s -> %s: %s" % (writer, rn, m))
        rec.ok(case, outcome="headerless-ok", nontrivial=nontrivial_table(descr), calls=calls)

    punits = [(descr, n, w) for descr in tables[:n1] + tables[-2:] for n in (1, 3)
              for w in ("recfile.write", "Recfile.write")]
    punits += [(descr, n, w, layout) for descr in tables[:n1:5] for n in (2, 3)
               for w in ("recfile.write", "Recfile.write") for layout in T.LAYOUTS[1:]]
    ctx.lattice("header-less", punits, one_plain, bounds=dict(tables=n1 + 2, rows=[1, 3]))

    # ------------------------------------------- (d2) one file reached under several legal names
    # (round 8: the row count of a header-less file taken from lstat of the NAME - the length of a link's text)
    FORMS = ["plain", "symlink-abs", "symlink-rel", "symlink-chain", "hardlink", "dot-slash", "double-slash",
             "dotdot", "envvar", "relative-cwd"]

    def name_form(rec, fn, form):
        """-> (name to hand to esutil, cleanup list, cwd to restore or None)"""
        d0 = os.path.dirname(fn)
        b = os.path.basename(fn)
        made, cwd = [], None
        if form == "plain":
            return fn, made, cwd
        if form == "symlink-abs":
            ln = os.path.join(d0, "l")
            os.symlink(fn, ln)
            return ln, [ln], cwd
        if form == "symlink-rel":
            ln = os.path.join(d0, "r")
            os.symlink(b, ln)
            return ln, [ln], cwd
        if form == "symlink-chain":
            l1, l2 = os.path.join(d0, "k1"), os.path.join(d0, "k2")
            os.symlink(b, l1)
            os.symlink("k1", l2)
            return l2, [l1, l2], cwd
        if form == "hardlink":
            ln = os.path.join(d0, "c01-hard.bin")
            os.link(fn, ln)
            return ln, [ln], cwd
        if form == "dot-slash":
            return os.path.join(d0, ".", b), made, cwd
        if form == "double-slash":
            return d0 + "//" + b, made, cwd
        if form == "dotdot":
            return os.path.join(d0, "..", os.path.basename(d0), b), made, cwd
        if form == "envvar":
            os.environ["C01_VERIF_DIR"] = d0
            return "$C01_VERIF_DIR/" + b, made, cwd
        if form == "relative-cwd":
            cwd = os.getcwd()
            os.chdir(d0)
            return b, made, cwd
        raise ValueError(form)

    def one_form(case, rec):
        descr, nrows, kind, form = case
        want = T.make_table(descr, nrows, seed=ctx.seed + 2)
        fn = os.path.join(rec.tmp, "c01-forms.bin")
        for f in os.listdir(rec.tmp):
            p = os.path.join(rec.tmp, f)
            if os.path.islink(p) or f.startswith("c01-forms") or f.startswith("c01-hard"):
                os.unlink(p)
        if kind == "headerless":
            recfile.write(fn, want)
        else:
            sfile.write(fn, want, header={"k": 1})
        name, made, cwd = name_form(rec, fn, form)
        calls = 1
        try:
            if kind == "headerless":
                rds = {
                    "recfile.read": lambda: recfile.read(name, want.dtype),
                    "Recfile(count)": lambda: recfile.Recfile(name, dtype=want.dtype)[:],
                    "Recfile.nrows": lambda: np.array([recfile.Recfile(name, dtype=want.dtype).nrows]),
                    "io.read(dtype)": lambda: esutil.io.read(name, dtype=want.dtype, type="rec"),
                }
            else:
                rds = {
                    "sfile.read": lambda: sfile.read(name),
                    "SFile[:]": lambda: sfile.SFile(name)[:],
                    "io.read": lambda: esutil.io.read(name, type="rec"),
                }
            for rn, rf in rds.items():
                try:
                    out = rf()
                except Exception as e:
                    return rec.fail(case, "%s through a %s name raised %s: %s" % (rn, form, type(e).__name__, e))
                calls += 1
                if rn == "Recfile.nrows":
                    if int(out[0]) != nrows:
                        return rec.fail(case, "Recfile.nrows through a %s name is %d, the file holds %d rows" % (form, int(out[0]), nrows))
                    continue
                m = T.same_table(out, want)
                if m:
                    return rec.fail(case, "%s through a %s name: %s" % (rn, form, m))
            # writing through the name reaches the same file
            want2 = T.make_table(descr, nrows + 1, seed=ctx.seed + 3)
            try:
                if kind == "headerless":
                    recfile.write(name, want2)
                    back = recfile.read(fn, want2.dtype)
                else:
                    sfile.write(name, want2)
                    back = sfile.read(fn)
            except Exception as e:
                return rec.fail(case, "write through a %s name raised %s: %s" % (form, type(e).__name__, e))
            calls += 2
            m = T.same_table(back, want2)
            if m:
                return rec.fail(case, "table written through a %s name, read under the plain name: %s" % (form, m))
        finally:
            if cwd:
                os.chdir(cwd)
            os.environ.pop("C01_VERIF_DIR", None)
        rec.ok(case, outcome="%s-%s" % (kind, form), nontrivial=form != "plain", calls=calls)

    FT = [[("a", "<i4")], [("a", ">i2"), ("x", "<f8", (2,)), ("s", "S3")], [("b", "u1")]]
    funits = [(t, n, k, f) for t in FT for n in (1, 3, 200) for k in ("headerless", "sfile") for f in FORMS]
    ctx.lattice("file-name-forms", funits, one_form, bounds=dict(forms=FORMS, rows=[1, 3, 200], tables=len(FT)))

    # ------------------------------------------- (e) histories on one handle
    HT = [("a", ">i4"), ("x", "<f8", (2,)), ("s", "S3"), ("h", "<i2")]
    OPS = ["read", "[:]", "[0]", "[-1]", "col a", "col x[1:]", "read(rows=[2,0])", "header"]

    def apply_op(sf, op):
        if op == "read":
            return sf.read()
        if op == "[:]":
            return sf[:]
        if op == "[0]":
            return sf[0]
        if op == "[-1]":
            return sf[-1]
        if op == "col a":
            return sf["a"][:]
        if op == "col x[1:]":
            return sf["x"][1:]
        if op == "read(rows=[2,0])":
            return sf.read(rows=[2, 0])
        if op == "header":
            return np.array([sf.get_header()["_SIZE"], sf.nrows])
        raise ValueError(op)

    def execute(hist, rec):
        from mc.util import fingerprint

        fn = os.path.join(rec.tmp, "c01h.rec")
        d = T.make_table(HT, 4, seed=ctx.seed)
        sfile.write(fn, d, header={"k": 1})
        results = []
        with sfile.SFile(fn) as sf:
            for op in hist:
                try:
                    results.append(apply_op(sf, op))
                except Exception as e:
                    rec.fail(hist, "%s raised %s: %s" % (op, type(e).__name__, e))
                    return None
            saved = [r.copy() for r in results]
            if hist:
                with sfile.SFile(fn) as fresh:
                    ref = apply_op(fresh, hist[-1])
                got = results[-1]
                if got.dtype != ref.dtype or got.shape != ref.shape or got.tobytes() != ref.tobytes():
                    rec.fail(hist, "result of %r after %r differs from the same read on a fresh handle: %r vs %r"
                             % (hist[-1], hist[:-1], got, ref))
                    return None
                # earlier results must not change under later calls
                for i, (a, b) in enumerate(zip(results, saved)):
                    if a.tobytes() != b.tobytes():
                        rec.fail(hist, "result %d changed after a later read" % i)
                        return None
            key = fingerprint({k: v for k, v in sf.__dict__.items() if k not in ("_robj", "_filename")},
                              {k: v for k, v in sf._robj.__dict__.items() if k not in ("robj", "filename")})
        return (key, len(hist)), tuple(OPS)

    ctx.histories("reads-on-one-handle", [()], execute, depth=ctx.pick(2, 3), nodedup_depth=ctx.pick(2, 3),
                  bounds=dict(ops=OPS, table=str(HT)))

    # ------------------------------------------------ headers carried from another file (mc/carried.py)
    from mc.carried import carried_headers
    carried_headers(ctx, "carried-headers", [None])

    # ------------------------------------------------ one SFile object used for several files (mc/sfreuse.py)
    from mc.sfreuse import reused_object_world
    reused_object_world(ctx, "one-object-several-files", depth=ctx.pick(4, 6))
