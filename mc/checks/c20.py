"""C20 - sorting, chunking, progress and parallel wrappers preserve items and order
(E1 lattices + E3 virtual clock + E4 controlled process pool)."""
import concurrent.futures
import concurrent.futures.process
import io
import itertools
import os

import numpy as np

RULE = (
    "E1: quicksort / quicksort_keyvalue on every tuple over {0,1,2} up to length L and every permutation of "
    "range(n) as list and ndarray; isplit(num, nchunks) exhaustively over num x nchunks and rejected nchunks "
    "<= 0; splitarray(nper, range(L)) exhaustively.  E3: progress wrappers (pbar, PBar, prange, simple bar) "
    "for every iterable kind x option combination under a virtual clock with every placement of <=2 'slow "
    "ticks' among the clock readings (deviation-bounded).  E4: pmap for every item count x nproc x chunksize "
    "x task under a controlled process pool: EVERY completion order consistent with nproc is explored by "
    "stateless DFS; plus free-running real-pool runs as conformance check of the controlled pool.  "
    "non-trivial = input has ties / is unsorted; nchunks does not divide num; iterable without length; "
    "a schedule that is not the FIFO one."
)
ASSUMPTIONS = [
    "the controlled pool keeps the stdlib Executor.map / chunking code and replaces only process management; a pmap that bypasses concurrent.futures escapes it (the real-pool runs are a non-exhaustive backstop)",
    "virtual clock: every time.time() reading of esutil.pbar is a choice point; default answer 'no time passed', deviation '+1 s' (>= mininterval) or '+4000 s'",
    "documented refusal: the simple bar needs len() or total=; total=0 with a non-empty iterable is not enumerated",
    "laziness: when the consumer holds k items the source iterator has been advanced at most k times (k+1 only after the consumer asks for item k+1)",
]


# ----------------------------------------------------------------------------
# tasks for pmap (module level: picklable for the real pool)

def task_square(x):
    return x * x + 1


def task_raise_on_2(x):
    if x == 2:
        raise KeyError("item %d" % x)
    return -x


def task_slow_first(x):
    import time
    time.sleep(0.02 * max(0, 4 - x))
    return (x, "done")


# a task that reads state of the CALLING process: parallel map must evaluate fn as the caller's process is at the call
_TABLE = np.array([3, 1, 4, 1, 5])


def task_lookup(i):
    return int(_TABLE[i % _TABLE.size]) * 100 + i


TASKS = {"square": task_square, "raise_on_2": task_raise_on_2, "slow_first": task_slow_first}


# ----------------------------------------------------------------------------
# controlled pool (E4)

class Scheduler(object):
    """decides which running call completes next; records choice points"""

    def __init__(self, prefix):
        self.prefix = list(prefix)
        self.points = []          # (n_alternatives, costs)
        self.taken = []
        self.queue = []           # submitted, not started
        self.running = []         # started, not completed (FIFO order of start)
        self.max_workers = 1
        self.completion_order = []
        self.diverged = False

    def submit(self, fut):
        self.queue.append(fut)
        self._fill()

    def _fill(self):
        while self.queue and len(self.running) < self.max_workers:
            self.running.append(self.queue.pop(0))

    def step(self):
        """complete one running call (a choice point when more than one is running)"""
        self._fill()
        if not self.running:
            raise RuntimeError("deadlock: a result is awaited but no call is running or queued")
        n = len(self.running)
        i = len(self.points)
        if n > 1:
            if i < len(self.prefix):
                c = self.prefix[i]
                if c >= n:
                    self.diverged = True
                    c = 0
            else:
                c = 0
            self.points.append((n, [0] + [1] * (n - 1)))
            self.taken.append(c)
        else:
            c = 0
        fut = self.running.pop(c)
        self.completion_order.append(fut._seq)
        fut._run()
        self._fill()


_SCHED = [None]


class CoFuture(concurrent.futures.Future):
    def __init__(self, seq, fn, args, kwargs):
        super().__init__()
        self._seq = seq
        self._call = (fn, args, kwargs)

    def _run(self):
        fn, args, kwargs = self._call
        if not self.set_running_or_notify_cancel():
            return
        try:
            r = fn(*args, **kwargs)
        except BaseException as e:
            self.set_exception(e)
        else:
            self.set_result(r)

    def result(self, timeout=None):
        s = _SCHED[0]
        while not self.done():
            if self.cancelled():
                break
            s.step()
        return super().result(timeout=0)

    def exception(self, timeout=None):
        s = _SCHED[0]
        while not self.done():
            s.step()
        return super().exception(timeout=0)


class ControlledPool(concurrent.futures.ProcessPoolExecutor):
    """ProcessPoolExecutor with the stdlib map()/chunking code but no processes"""

    def __init__(self, max_workers=None, *a, **k):
        if max_workers is None:
            max_workers = os.cpu_count() or 1
        if max_workers <= 0:
            raise ValueError("max_workers must be greater than 0")
        self._max_workers = max_workers
        self._seq = 0
        self._shut = False
        _SCHED[0].max_workers = max_workers

    def submit(self, fn, /, *args, **kwargs):
        if self._shut:
            raise RuntimeError("cannot schedule new futures after shutdown")
        f = CoFuture(self._seq, fn, args, kwargs)
        self._seq += 1
        _SCHED[0].submit(f)
        return f

    def shutdown(self, wait=True, *, cancel_futures=False):
        self._shut = True
        s = _SCHED[0]
        if cancel_futures:
            for f in s.queue:
                f.cancel()
            s.queue[:] = []
        if wait:
            while s.running or s.queue:
                s.step()

    def __exit__(self, *a):
        self.shutdown(wait=True)
        return False


def co_as_completed(fs, timeout=None):
    fs = list(fs)
    pending = set(fs)
    s = _SCHED[0]
    while pending:
        done = [f for f in fs if f in pending and f.done()]
        if not done:
            s.step()
            continue
        # in completion order
        done.sort(key=lambda f: s.completion_order.index(f._seq) if f._seq in s.completion_order else -1)
        for f in done:
            pending.discard(f)
            yield f


def co_wait(fs, timeout=None, return_when=concurrent.futures.ALL_COMPLETED):
    fs = list(fs)
    s = _SCHED[0]
    while True:
        done = set(f for f in fs if f.done())
        if return_when == concurrent.futures.FIRST_COMPLETED and done:
            break
        if return_when == concurrent.futures.FIRST_EXCEPTION and any(
                f.done() and not f.cancelled() and f.exception() is not None for f in done):
            break
        if len(done) == len(fs):
            break
        s.step()
    return concurrent.futures._base.DoneAndNotDoneFutures(done, set(fs) - done)


# ----------------------------------------------------------------------------
# virtual clock (E3)

class Clock(object):
    TICKS = (0.0, 1.0, 4000.0)

    def __init__(self, prefix):
        self.prefix = list(prefix)
        self.points = []
        self.t = 1000.0

    def time(self):
        i = len(self.points)
        c = self.prefix[i] if i < len(self.prefix) else 0
        self.points.append((len(self.TICKS), [0, 1, 1]))
        self.t += self.TICKS[c]
        return self.t

    # anything else the module might use from `time`
    def sleep(self, s):
        self.t += s

    def monotonic(self):
        return self.time()

    def perf_counter(self):
        return self.time()


class RecIter(object):
    """iterator that records how far it was advanced; no __len__"""

    def __init__(self, items):
        self.items = list(items)
        self.pulled = 0
        self.exhausted = False

    def __iter__(self):
        return self

    def __next__(self):
        if self.pulled >= len(self.items):
            self.exhausted = True
            raise StopIteration
        v = self.items[self.pulled]
        self.pulled += 1
        return v


class RecIterLen(RecIter):
    def __len__(self):
        return len(self.items)


class RecIterable(object):
    """iterable with __len__ whose iterator records (like a list)"""

    def __init__(self, items):
        self.it = RecIter(items)

    def __len__(self):
        return len(self.it.items)

    def __iter__(self):
        return self.it


def main(ctx):
    import importlib

    from esutil import algorithm
    from esutil import numpy_util as nu
    import esutil.pbar as P

    # --------------------------------------------------------------- E1 sorts
    L = ctx.pick(7, 9)
    NP = ctx.pick(7, 8)

    def one_sort(case, rec):
        kind, a = case
        a = list(a)
        exp = sorted(a)
        calls = 0
        for form in ("list", "array", "u1", "u8", "i1", "f4", "bool"):
            if form != "list" and not a:
                continue
            if form == "bool" and max(a) > 1:
                continue
            adt = {"array": "i8", "bool": "?"}.get(form, form)
            if form not in ("list", "array"):
                # other element types: same order relation, plain quicksort only
                d = np.array(a, dtype=adt)
                try:
                    algorithm.quicksort(d)
                except Exception as e:
                    return rec.fail(case, "quicksort(%s array) raised %s: %s" % (adt, type(e).__name__, e))
                calls += 1
                if d.tolist() != np.sort(np.array(a, dtype=adt)).tolist():
                    return rec.fail(case, "quicksort(%s array) left %r, expected %r" % (adt, d.tolist(), exp))
                continue
            d = list(a) if form == "list" else np.array(a, dtype="i8")
            try:
                algorithm.quicksort(d)
            except Exception as e:
                return rec.fail(case, "quicksort(%s) raised %s: %s" % (form, type(e).__name__, e))
            calls += 1
            if list(d) != exp:
                return rec.fail(case, "quicksort(%s) left %r, expected %r" % (form, list(d), exp))
            k = list(a) if form == "list" else np.array(a, dtype="i8")
            v = list(range(len(a))) if form == "list" else np.arange(len(a))
            try:
                algorithm.quicksort_keyvalue(k, v)
            except Exception as e:
                return rec.fail(case, "quicksort_keyvalue(%s) raised %s: %s" % (form, type(e).__name__, e))
            calls += 1
            k = list(k)
            v = [int(x) for x in v]
            if k != exp:
                return rec.fail(case, "quicksort_keyvalue(%s) keys %r, expected %r" % (form, k, exp))
            if sorted(v) != list(range(len(a))) or any(a[v[i]] != k[i] for i in range(len(a))):
                return rec.fail(case, "quicksort_keyvalue(%s) separated keys from their values: keys %r values %r"
                                % (form, k, v))
        nt = len(set(a)) < len(a) or a != exp
        rec.ok(case, outcome="sorted:%s" % kind, nontrivial=nt, calls=calls)

    def expand_sort(u):
        kind, n = u[0], u[1]
        if kind == "tuples":
            first = u[2]
            for a in itertools.product(range(3), repeat=n - 1 if first is not None else n):
                yield (kind, ((first,) + a) if first is not None else a)
        else:
            first = u[2]
            rest = [x for x in range(n) if x != first]
            for p in itertools.permutations(rest):
                yield (kind, ((first,) + p) if first is not None else p)

    sunits = []
    for n in range(0, L + 1):
        if n >= 6:
            for f in range(3):
                sunits.append(("tuples", n, f))
        else:
            sunits.append(("tuples", n, None))
    for n in range(0, NP + 1):
        if n >= 6:
            for f in range(n):
                sunits.append(("perms", n, f))
        else:
            sunits.append(("perms", n, None))
    ctx.lattice("sorts", sunits, one_sort, expand=expand_sort,
                bounds=dict(max_len_ties=L, max_len_perms=NP, alphabet=[0, 1, 2]))

    # -------------------------------------------------------------- E1 isplit
    NUM, NCH = ctx.pick((200, 60), (1000, 120))

    def one_isplit(case, rec):
        num, nch = case
        if nch <= 0:
            try:
                r = algorithm.isplit(num, nch)
            except ValueError:
                return rec.ok(case, outcome="rejected", calls=1)
            except Exception as e:
                return rec.fail(case, "isplit raised %s, expected ValueError" % type(e).__name__)
            return rec.fail(case, "isplit accepted nchunks=%d and returned %r" % (nch, r))
        try:
            s = algorithm.isplit(num, nch)
        except Exception as e:
            return rec.fail(case, "isplit raised %s: %s" % (type(e).__name__, e))
        st = [int(x) for x in s["start"]]
        en = [int(x) for x in s["end"]]
        sizes = [e - b for b, e in zip(st, en)]
        if len(st) != nch:
            return rec.fail(case, "%d ranges returned, %d requested" % (len(st), nch))
        if st[0] != 0 or en[-1] != num or any(st[i + 1] != en[i] for i in range(nch - 1)):
            return rec.fail(case, "ranges do not cover 0..%d contiguously in order: %r %r" % (num, st, en))
        if min(sizes) < 0 or max(sizes) - min(sizes) > 1 or any(sizes[i] < sizes[i + 1] for i in range(nch - 1)):
            return rec.fail(case, "sizes %r: must differ by at most one, larger first" % (sizes,))
        rec.ok(case, outcome="split", nontrivial=(num % nch != 0), calls=1)

    # the same arguments as numpy scalars of narrow types (u1/i1/i2): the chunk arithmetic must not wrap in that type
    def one_isplit_typed(case, rec):
        t, num, nch = case
        try:
            s = algorithm.isplit(np.dtype(t).type(num), np.dtype(t).type(nch))
            ref = algorithm.isplit(int(num), int(nch))
        except Exception as e:
            return rec.fail(case, "isplit(%s(%d), %s(%d)) raised %s: %s" % (t, num, t, nch, type(e).__name__, e))
        if [int(x) for x in s["start"]] != [int(x) for x in ref["start"]] or [int(x) for x in s["end"]] != [int(x) for x in ref["end"]]:
            return rec.fail(case, "isplit(%s(%d), %s(%d)) = %r / %r, with Python ints %r / %r"
                            % (t, num, t, nch, s["start"].tolist(), s["end"].tolist(), ref["start"].tolist(), ref["end"].tolist()))
        rec.ok(case, outcome="typed:%s" % t, nontrivial=True, calls=2)

    tyunits = [(t, num, nch) for (t, mx) in (("u1", 255), ("i1", 127), ("i2", 32767), ("u2", 65535))
               for num in (mx, mx - 1, mx // 2 + 3, 100) for nch in (1, 2, 3, 7, 60, 100) if nch <= mx]
    ctx.lattice("isplit-typed-arguments", tyunits, one_isplit_typed, bounds=dict(types=["u1", "i1", "i2", "u2"]))

    iunits = [(num, nch) for num in range(0, NUM + 1) for nch in range(1, NCH + 1)]
    iunits += [(num, nch) for num in (0, 1, 5) for nch in (0, -1, -7)]
    # row counts / byte offsets beyond the 32-bit range (files over 2 GiB) and next to the powers of two
    iunits += [(num, nch) for num in (2 ** 31 - 1, 2 ** 31, 2 ** 31 + 5, 2 ** 32 + 1, 3 * 10 ** 9, 2 ** 40 + 7, 2 ** 53 + 1, 2 ** 62 + 3, 2 ** 63 - 1)
               for nch in (1, 2, 3, 7, 60, 1000)]
    ctx.lattice("isplit", iunits, one_isplit, bounds=dict(num_max=NUM, nchunks_max=NCH))

    # ---------------------------------------------------------- E1 splitarray
    NPER, LEN = ctx.pick((12, 40), (40, 200))

    def one_splitarray(case, rec):
        nper, n, form = case
        src = list(range(100, 100 + n))
        arg = src if form == "list" else np.array(src, dtype="i8") if form == "i8" else np.array(src, dtype="f4")
        try:
            ch = nu.splitarray(nper, arg)
        except Exception as e:
            return rec.fail(case, "splitarray raised %s: %s" % (type(e).__name__, e))
        got = [x for c in ch for x in np.asarray(c).tolist()]
        if got != src:
            return rec.fail(case, "concatenation of the chunks %r is not the input" % (got,))
        if any(len(c) != nper for c in ch[:-1]) or (ch and not (1 <= len(ch[-1]) <= nper)):
            return rec.fail(case, "chunk sizes %r for nper=%d" % ([len(c) for c in ch], nper))
        if n == 0 and len(ch) != 0:
            return rec.fail(case, "empty input gave %d chunks" % len(ch))
        rec.ok(case, outcome="chunks", nontrivial=(n % nper != 0), calls=1)

    aunits = [(nper, n, form) for nper in range(1, NPER + 1) for n in range(0, LEN + 1)
              for form in ("list", "i8", "f4")]
    ctx.lattice("splitarray", aunits, one_splitarray, bounds=dict(nper_max=NPER, len_max=LEN))

    # ------------------------------------------------- E3 progress wrappers
    def run_pbar(unit, prefix, rec):
        (entry, ikind, n, desc, totsel, leave, simple, mininterval, miniters, n_bars) = unit
        items = [10 * i + 7 for i in range(n)]
        if ikind == "list":
            src = RecIterable(items)
        elif ikind == "iterlen":
            src = RecIterLen(items)
        elif ikind == "iter":
            src = RecIter(items)
        elif ikind == "gen":
            rit = RecIter(items)
            src = (x for x in rit)
        elif ikind == "range":
            src = None
        else:
            raise ValueError(ikind)
        haslen = ikind in ("list", "iterlen", "range")
        nitems = {"prange3": len(range(3, 3 + 2 * n + 1, 2)), "prange-neg": len(range(10, 10 - 3 * n - 1, -3))}.get(entry, n)
        total = {"none": None, "exact": nitems, "small": max(nitems - 2, 1), "large": nitems + 3}[totsel]
        clk = Clock(prefix)
        old = P.time
        P.time = clk
        f = io.StringIO()
        term0 = os.environ.get("TERM")
        if desc.startswith("term-dumb:"):
            # the terminal type of the calling process is no argument of the bar: whatever TERM says, the items come through
            desc = desc[10:]
            os.environ["TERM"] = "dumb"
        elif desc.startswith("term-unset:"):
            desc = desc[11:]
            os.environ.pop("TERM", None)
        if desc.startswith("ascii:"):
            # a log file opened with encoding='ascii' (and a long description): whatever the bar writes must be
            # encodable there, as everything the unchanged bar writes is
            desc = desc[6:]
            f = io.TextIOWrapper(io.BytesIO(), encoding="ascii", write_through=True)
        kw = dict(desc=desc, total=total, leave=leave, file=f, mininterval=mininterval, miniters=miniters,
                  n_bars=n_bars, simple=simple)
        case = (unit, tuple(prefix))
        refusal_ok = simple and not haslen and total is None
        try:
            if entry == "prange":
                g = P.prange(n, **kw)
                items = list(range(n))
                tracker = None
            elif entry == "prange2":
                g = P.prange(3, 3 + 2 * n, 2, **kw)
                items = list(range(3, 3 + 2 * n, 2))
                tracker = None
            elif entry == "prange3":
                # a step that does not divide the span, and a negative step
                g = P.prange(3, 3 + 2 * n + 1, 2, **kw)
                items = list(range(3, 3 + 2 * n + 1, 2))
                tracker = None
            elif entry == "prange-neg":
                g = P.prange(10, 10 - 3 * n - 1, -3, **kw)
                items = list(range(10, 10 - 3 * n - 1, -3))
                tracker = None
            else:
                fn = P.pbar if entry == "pbar" else P.PBar
                g = fn(src, **kw)
                tracker = src.it if ikind == "list" else (rit if ikind == "gen" else src)
            got = []
            for k, v in enumerate(g):
                got.append(v)
                if tracker is not None and tracker.pulled > k + 1:
                    rec.fail(case, "not lazy: consumer holds %d item(s), source advanced %d times" % (k + 1, tracker.pulled))
                    return clk.points
                if tracker is not None and tracker.pulled < k + 1:
                    rec.fail(case, "item %d was yielded before the source produced it" % k)
                    return clk.points
        except Exception as e:
            P.time = old
            if refusal_ok and isinstance(e, (RuntimeError, AssertionError, TypeError)) and not clk.points:
                return clk.points
            rec.fail(case, "raised %s: %s" % (type(e).__name__, str(e)[:120]))
            return clk.points
        finally:
            P.time = old
            if term0 is None:
                os.environ.pop("TERM", None)
            else:
                os.environ["TERM"] = term0
        if refusal_ok:
            # accepted without knowing the length: then it must at least yield the items
            pass
        if got != items:
            rec.fail(case, "yielded %r, iterable holds %r" % (got, items))
            return clk.points
        out = f.getvalue() if isinstance(f, io.StringIO) else f.buffer.getvalue().decode("ascii")
        if (leave or simple) and not out.endswith("\n"):
            rec.fail(case, "output does not end the line: %r" % out[-30:])
            return clk.points
        return clk.points

    punits = []
    ns = ctx.pick([0, 1, 3], [0, 1, 2, 5])
    for entry in ("pbar", "PBar", "prange", "prange2", "prange3", "prange-neg"):
        for ikind in (("list", "iterlen", "iter", "gen") if entry in ("pbar", "PBar") else ("range",)):
            if entry == "PBar" and ikind not in ("list", "gen"):
                continue
            for n in ns:
                for desc in ("", "d", "ascii:" + "a long description of what is being done " * 2, "ascii:d", "term-dumb:d", "term-unset:"):
                    if desc.startswith(("ascii:", "term-")) and not (n == ns[-1] or n == 0):
                        continue
                    for totsel in ("none", "exact", "small", "large"):
                        if totsel == "exact" and n == 0 and False:
                            continue
                        for leave in (True, False):
                            for simple in (False, True):
                                for mininterval in (0, 0.5):
                                    for miniters in (1, 2, 3):
                                        for n_bars in (1, 20):
                                            if simple and (mininterval, miniters, n_bars, leave) != (0, 1, 20, True):
                                                continue   # ignored by the simple bar
                                            if simple and totsel != "none" and n == 0 and totsel == "exact":
                                                pass
                                            punits.append((entry, ikind, n, desc, totsel, leave, simple,
                                                           mininterval, miniters, n_bars))
    # total=0 with items is not a meaningful "expected number"; n=0 & exact gives total=0 with no items: fine
    ctx.choices("progress", punits, run_pbar, bound=2, engine="environment",
                bounds=dict(entries=["pbar", "PBar", "prange"], iterables=["list", "iterator+len", "iterator", "generator", "range"],
                            lengths=ns, deviation_bound=2, ticks=list(Clock.TICKS)))

    # --------------------------------------------------------- E4 pmap
    def patched():
        concurrent.futures.ProcessPoolExecutor = ControlledPool
        concurrent.futures.process.ProcessPoolExecutor = ControlledPool
        concurrent.futures.as_completed = co_as_completed
        concurrent.futures.wait = co_wait
        importlib.reload(P)

    def unpatched():
        concurrent.futures.ProcessPoolExecutor = REAL["pool"]
        concurrent.futures.process.ProcessPoolExecutor = REAL["pool"]
        concurrent.futures.as_completed = REAL["as_completed"]
        concurrent.futures.wait = REAL["wait"]
        importlib.reload(P)

    REAL = dict(pool=concurrent.futures.process.ProcessPoolExecutor, as_completed=concurrent.futures.as_completed,
                wait=concurrent.futures.wait)
    if REAL["pool"] is ControlledPool:      # module re-imported inside one interpreter
        REAL["pool"] = ControlledPool.__mro__[1]

    def run_pmap(unit, prefix, rec):
        n, ikind, nproc, chunksize, task, kwsel = unit
        items = list(range(n))
        fn = TASKS[task]
        try:
            exp = ("ok", list(map(fn, items)))
        except Exception as e:
            exp = ("exc", type(e).__name__)
        src = items if ikind == "list" else (x for x in items) if ikind == "gen" else range(n)
        kw = {}
        if kwsel == "total":
            kw["total"] = n
        elif kwsel == "simple":
            kw.update(total=n, simple=True)
        s = Scheduler(prefix)
        _SCHED[0] = s
        case = (unit, tuple(prefix))
        patched()
        f = io.StringIO()
        try:
            try:
                got = ("ok", P.pmap(fn, src, chunksize=chunksize, nproc=nproc, file=f, **kw))
            except Exception as e:
                got = ("exc", type(e).__name__)
        finally:
            unpatched()
        if s.diverged:
            rec.fail(case, "replay diverged: a recorded choice is out of range")
            return s.points
        if got != exp:
            rec.fail(case, "pmap returned %r, list(map(fn, items)) is %r [completion order of chunks %r]"
                     % (got, exp, s.completion_order))
            return s.points
        rec.count("order:" + ",".join(map(str, s.completion_order)))
        return s.points

    NMAX = ctx.pick(5, 6)
    munits = []
    for n in range(0, NMAX + 1):
        for ikind in ("list", "gen"):
            for nproc in range(1, 9):
                if nproc > max(n, 1) + 1:
                    continue      # more workers than chunks: same schedules as nproc = n
                for chunksize in range(1, n + 2):
                    nchunks = -(-n // chunksize) if n else 0
                    if nchunks > 5 and nproc > 3 and ikind == "gen":
                        continue
                    for task in ("square", "raise_on_2"):
                        if ikind == "gen" and task == "raise_on_2" and chunksize > 2:
                            continue
                        for kwsel in (("none", "total") if (n <= 3 and task == "square") else ("none",)):
                            munits.append((n, ikind, nproc, chunksize, task, kwsel))
    pm = ctx.choices("pmap-schedules", munits, run_pmap, bound=10 ** 6, engine="schedules",
                     bounds=dict(max_items=NMAX, nproc="1..8", chunksize="1..len+1", tasks=["square", "raise_on_2"]))
    if pm.stats:
        orders = sum(1 for k in pm.stats["extra"] if k.startswith("order:"))
        pm.stats["distinct_completion_orders"] = orders
        pm.stats["extra"] = {k: v for k, v in pm.stats["extra"].items() if not k.startswith("order:")}

    # -------------------------------------- free-running real pool (conformance)
    def one_real(case, rec):
        n, nproc, chunksize, task = case
        fn = TASKS[task]
        items = list(range(n))
        exp = list(map(fn, items))
        f = io.StringIO()
        try:
            got = P.pmap(fn, items, chunksize=chunksize, nproc=nproc, file=f)
        except Exception as e:
            return rec.fail(case, "real pool: pmap raised %s: %s" % (type(e).__name__, e))
        if got != exp:
            return rec.fail(case, "real pool: pmap returned %r, expected %r" % (got, exp))
        rec.ok(case, outcome="real-pool-ok", calls=1)

    runits = [(n, nproc, cs, "slow_first") for n in (4, 5) for nproc in (1, 2, 4, 8) for cs in (1, 2, n + 1)]
    if ctx.quick:
        runits = runits[::3]
    ctx.lattice("pmap-real-pool", runits, one_real, nworkers=4, bounds=dict(note="latency decreasing in the index"))

    # ------------------------------------------------------------ environment: the multiprocessing start method
    # how worker processes come into being is a process-level setting of the APPLICATION (multiprocessing.set_start_method:
    # fork, spawn, forkserver - the default differs between platforms and Python versions), no argument of pmap.  For a
    # picklable module-level fn the result must be list(map(fn, items)) under each of them, for every worker count and
    # chunk size.  Each case runs in a throw-away forked child that selects the start method first (real pools).
    import multiprocessing as _mp
    from mc.util import in_child

    def one_start_method(case, rec):
        method, n, nproc, chunksize, task = case
        fn = task_lookup if task == "lookup" else TASKS[task]
        items = list(range(n))
        try:
            exp = ("ok", list(map(fn, items)))
        except Exception as e:
            exp = ("exc", type(e).__name__)

        def run():
            import sys
            main = sys.modules.get("__main__")
            # the workers of spawn / forkserver re-import the application's main module: here they must not re-run the
            # harness; they find mc.checks.c20 and esutil through sys.path, which is handed to them
            for a in ("__file__", "__spec__"):
                try:
                    setattr(main, a, None) if a == "__spec__" else delattr(main, a)
                except Exception:
                    pass
            _mp.set_start_method(method, force=True)
            try:
                r = P.pmap(fn, items, chunksize=chunksize, nproc=nproc, file=io.StringIO())
            except Exception as e:
                return ("exc", type(e).__name__, str(e)[:160])
            return ("ok", r)

        st, res = in_child(run, timeout=120)
        if st != "ok":
            return rec.fail(case, "start method %r: the child running pmap died: %s" % (method, str(res)[:300]))
        if tuple(res[:2]) != exp:
            return rec.fail(case, "start method %r: pmap(nproc=%d, chunksize=%d) gave %r, list(map(fn, items)) is %r"
                            % (method, nproc, chunksize, res, exp))
        rec.ok(case, outcome="start-method:%s" % method, nontrivial=(method != _mp.get_start_method(allow_none=False)), calls=1)

    SM = [m for m in ("fork", "spawn", "forkserver") if m in _mp.get_all_start_methods()]
    smunits = [(m, n, nproc, cs, task) for m in SM for n in ctx.pick((5,), (0, 1, 5))
               for nproc in ctx.pick((1, 2), (1, 2, 3, 8)) for cs in sorted(set(ctx.pick((1, 2, n + 1), (1, 2, 3, n + 1))))
               for task in ctx.pick(("square", "lookup"), ("square", "lookup", "raise_on_2"))]
    ctx.lattice("pmap-start-methods", smunits, one_start_method, engine="environment",
                bounds=dict(start_methods=SM, pool="real ProcessPoolExecutor in a child process that called set_start_method",
                            tasks="module-level functions (picklable by reference)"))

    # ------------------------------------------------------------ call sequences
    # sequences of sort / chunking calls in one process on the same list and array objects
    # (mc/worlds.py call_sequences): recursion scratch kept at module level, memoised chunk boundaries
    from mc.worlds import call_sequences, CheckFailed

    def seq_pool():
        big = np.arange(40).reshape(8, 5)
        rec_ = np.zeros(7, dtype=[("p", "i2"), ("q", "i8"), ("t", "S3")])
        rec_["q"] = np.arange(7) * 3 + 1
        return dict(a=np.array([3, 1, 2, 1, 0, 2]), k=np.array([2, 0, 1, 1, 2, 0]), v=np.array([10, 11, 12, 13, 14, 15]),
                    l=[5, 3, 4, 3], r=np.arange(7),
                    # the same kind of 1-d data in other memory layouts: every second element, a column of a 2-d
                    # array, a reversed view, a field of a record array
                    rs=np.arange(14)[::2], rc=big[:, 2], rn=np.arange(7)[::-1], rf=rec_["q"])

    SEQ_CALLS = [("quicksort", "a"), ("quicksort", "l"), ("quicksort_keyvalue", "k", "v"), ("isplit", 7, 3), ("isplit", 10, 4),
                 ("isplit", 3, 5), ("splitarray", 2, "r"), ("splitarray", 3, "r"), ("splitarray", 3, "a"),
                 ("splitarray", 2, "rs"), ("splitarray", 3, "rc"), ("splitarray", 2, "rn"), ("splitarray", 3, "rf")]

    def seq_run(c, pool):
        # the sorts work in place: they get private copies of the pooled data, the results are the sorted copies
        if c[0] == "quicksort":
            d = pool[c[1]].copy() if isinstance(pool[c[1]], np.ndarray) else list(pool[c[1]])
            algorithm.quicksort(d)
            return [np.asarray(d)]
        if c[0] == "quicksort_keyvalue":
            kk, vv = pool[c[1]].copy(), pool[c[2]].copy()
            algorithm.quicksort_keyvalue(kk, vv)
            return [kk, vv]
        if c[0] == "isplit":
            return [np.asarray(v) for v in algorithm.isplit(c[1], c[2])]
        parts = [np.asarray(x) for x in nu.splitarray(c[1], pool[c[2]])]
        # definition: consecutive chunks of nper elements (the last one shorter) whose concatenation is the input
        src = np.asarray(pool[c[2]])
        exp = [src[i:i + c[1]] for i in range(0, src.size, c[1])]
        if len(parts) != len(exp) or any(not np.array_equal(x, y) for x, y in zip(parts, exp)):
            raise CheckFailed("splitarray(%d, %r) = %r, expected %r" % (c[1], src.tolist(), [x.tolist() for x in parts],
                                                                           [y.tolist() for y in exp]))
        return parts

    call_sequences(ctx, "call-sequences", seq_pool, SEQ_CALLS, seq_run, lambda: [algorithm, nu], depth=3, nodedup_depth=3,
                   result_edits=True)

    # ------------------------------------------------------------ environment: the caller's stack
    # the sorts are recursive; the depth of the CALLER's stack and the interpreter's recursion limit are part of
    # their environment.  Every short input is sorted from inside a recursion of several depths, and the
    # recursion limit must be what it was afterwards (also when the sort raised).
    import sys as _sys

    def at_depth(n, fn):
        if n <= 0:
            return fn()
        return at_depth(n - 1, fn)

    def one_deep(case, rec):
        depth, a, kv = case
        lim0 = _sys.getrecursionlimit()
        d = list(a)
        v = list(range(len(a)))
        try:
            if kv:
                at_depth(depth, lambda: algorithm.quicksort_keyvalue(d, v))
            else:
                at_depth(depth, lambda: algorithm.quicksort(d))
            err = None
        except RecursionError as e:
            err = "RecursionError"
        except Exception as e:
            err = "%s: %s" % (type(e).__name__, e)
        lim1 = _sys.getrecursionlimit()
        _sys.setrecursionlimit(lim0)
        if lim1 != lim0:
            return rec.fail(case, "the interpreter's recursion limit was %d before the sort and %d after it" % (lim0, lim1))
        if err is not None:
            return rec.fail(case, "sorting %r from a call stack %d frames deep (recursion limit %d) raised %s" % (list(a), depth, lim0, err))
        if d != sorted(a):
            return rec.fail(case, "sorting %r from a call stack %d frames deep left %r" % (list(a), depth, d))
        if kv and [a[i] for i in v] != d:
            return rec.fail(case, "keys and values separated: %r / %r" % (d, v))
        rec.ok(case, outcome="depth%d" % depth, nontrivial=depth > 0)

    deep_inputs = [(), (1,), (2, 1), (3, 1, 2), (1, 1, 0, 2, 2, 0), tuple(range(12)), tuple(range(40, 0, -1))]
    dunits = [(dp, a, kv) for dp in (0, 50, 150, 400, 700) for a in deep_inputs for kv in (False, True)]
    ctx.lattice("sorts-from-a-deep-stack", dunits, one_deep, engine="environment",
                bounds=dict(caller_depths=[0, 50, 150, 400, 700], recursion_limit=_sys.getrecursionlimit()))

    # ------------------------------------------------------------ several parallel maps in one process (real pools)
    # sequences of pmap calls with the SAME and with different worker counts, the caller changing - between the calls -
    # a module-level table that the task function reads: the result must be list(map(fn, items)) as the calling process
    # is at the time of the call (worker processes kept from an earlier call would answer from their old snapshot)
    def pm_pool():
        _TABLE[:] = [3, 1, 4, 1, 5]
        return dict(t=_TABLE)

    def pm_run(c, pool):
        _, nproc, cs, n = c
        items = list(range(n))
        got = P.pmap(task_lookup, items, nproc=nproc, chunksize=cs, file=io.StringIO())
        exp = list(map(task_lookup, items))
        if got != exp:
            raise CheckFailed("pmap(nproc=%d, chunksize=%d) returned %r, list(map(fn, items)) in the calling process is %r" % (nproc, cs, got, exp))
        return [np.asarray(got)]

    def pm_mut(m, pool):
        pool["t"][:] = pool["t"][::-1] * 2 + m[1]

    PM_CALLS = [("pmap", nproc, cs, 4) for nproc in ctx.pick((1, 2), (1, 2, 3)) for cs in ctx.pick((1, 3), (1, 2, 5))]
    call_sequences(ctx, "pmap-call-sequences", pm_pool, PM_CALLS, pm_run, lambda: [P], depth=3, nodedup_depth=3,
                   mutations=[("t", 1)], mutate=pm_mut,
                   enabled_after=lambda hist, e: not (e[0] == "m" and hist and hist[-1][0] == "m"),
                   bounds=dict(pool="real ProcessPoolExecutor (fork)", task="reads a module-level table of the calling process"))

    # ------------------------------------------------------------ long inputs in the classic adversarial orders
    # a recursive quicksort is as deep as its partitions are uneven: already sorted, reversed, constant, organ-pipe,
    # saw-tooth inputs and the permutations that make the first / middle / last / median-of-three pivot the extreme of
    # every sub-range, at lengths around and beyond the interpreter's recursion limit (1000).  The statement covers
    # "already sorted and reversed" inputs of every length: the sort must return, sorted, with the pairs kept together.
    def killer(n, pivot):
        """permutation of range(n) for which the pivot at position `pivot(lo, hi)` is the maximum of every sub-range the
        sort visits (built backwards: place the values n-1, n-2, ... where that pivot will look)"""
        a = [None] * n
        idx = list(range(n))            # idx[k] = where the element currently at logical position k will sit
        for v in range(n - 1, -1, -1):
            m = len(idx)
            p = pivot(0, m - 1)
            a[idx[p]] = v
            # the partition step swaps the pivot to the end of the range and drops it
            idx[p] = idx[m - 1]
            idx.pop()
        return a

    ORDERS = {
        "sorted": lambda n: list(range(n)),
        "reversed": lambda n: list(range(n))[::-1],
        "constant": lambda n: [7] * n,
        "two-values": lambda n: [i % 2 for i in range(n)],
        "organ-pipe": lambda n: list(range(n // 2)) + list(range(n - n // 2))[::-1],
        "saw-tooth": lambda n: [i % 17 for i in range(n)],
        "middle-is-max": lambda n: killer(n, lambda lo, hi: (lo + hi) // 2),
        "first-is-max": lambda n: killer(n, lambda lo, hi: lo),
        "scrambled": lambda n: [(i * 7919 + 13) % n for i in range(n)],
    }

    def one_order(case, rec):
        oname, n, kind = case
        src = ORDERS[oname](n)
        lim0 = _sys.getrecursionlimit()
        try:
            if kind == "list":
                d = list(src)
                algorithm.quicksort(d)
                out, vals = list(d), None
            elif kind == "array":
                d = np.array(src, dtype="i8")
                algorithm.quicksort(d)
                out, vals = d.tolist(), None
            else:
                d = np.array(src, dtype="i8")
                v = np.arange(n) * 2 + 1
                algorithm.quicksort_keyvalue(d, v)
                out, vals = d.tolist(), v.tolist()
        except RecursionError:
            return rec.fail(case, "%s input of %d elements (%s): RecursionError, the data are left half sorted" % (oname, n, kind))
        except Exception as e:
            return rec.fail(case, "%s input of %d elements (%s) raised %s: %s" % (oname, n, kind, type(e).__name__, e))
        if _sys.getrecursionlimit() != lim0:
            return rec.fail(case, "the recursion limit was changed from %d to %d" % (lim0, _sys.getrecursionlimit()))
        if out != sorted(src):
            return rec.fail(case, "%s input of %d elements (%s) is not sorted afterwards" % (oname, n, kind))
        if vals is not None and any(src[(x - 1) // 2] != k for k, x in zip(out, vals)):
            return rec.fail(case, "%s input of %d elements: key-value pairs were torn apart" % (oname, n))
        rec.ok(case, outcome="order:%s" % oname, nontrivial=True, calls=1)

    ounits = [(o, n, kind) for o in ORDERS for n in ctx.pick((999, 1000, 1500, 3000), (500, 999, 1000, 1001, 1500, 3000, 5000))
              for kind in ("list", "array", "keyvalue")]
    ctx.lattice("long-adversarial-orders", ounits, one_order, engine="environment",
                bounds=dict(orders=sorted(ORDERS), lengths=sorted({u[1] for u in ounits}), containers=["list", "int64 array", "key-value arrays"]))
