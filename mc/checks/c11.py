"""C11 - cosmological distances equal their Hogg (1999) definitions (E1 + E2)."""
import copy
import gc
import itertools
import math
import pickle
import random
import struct

import numpy as np
import numpy.polynomial.legendre as npleg

from mc.util import fingerprint

RULE = (
    "params: full product {H0 30,70,100,120 (float, int), h, h together with H0, default} x geometry spelling "
    "{default, flat flag alone, omega_k None/0/+-0.1/+-0.5 with flat unset/True/False, omega_l given or not} x "
    "omega_m; reported H0/DH/flat/omega_* against the documented normalisation; non-trivial = anything but the "
    "all-default constructor.  scalar: every cosmology of omega_m {0.05,0.3,1,1.5} x curvature {flat, omega_k "
    "+-0.1, +-0.5, omega_l = 1-omega_m-omega_k} x Hubble spelling, one inconsistent triple and one seed-chosen "
    "generic cosmology (rows with E^2 <= 0.05 somewhere on [0,5] are dropped) x EVERY ordered pair (zmin,zmax) "
    "over z {0,1e-6,0.1,0.5,1,2,5, 2 seed values}: Ezinv_integral, Dc, Dm, Da, Dl, V, sigmacritinv against the "
    "reference model (documented 5/10-point rule AND converged quadrature), the identities, antisymmetry; and "
    "every z: Ez_inverse, dV, distmod.  non-trivial = zmin != zmax resp. z > 0.  vector: full product quantity "
    "x {array zmin, array zmax, both} x every tuple of length <= L over the z alphabet x container "
    "{list, tuple, f8, f4, i8, int list, strided view, negative-stride view, big-endian, 0-d} x scalar spelling "
    "{float, int, numpy f4/f8/i8 scalar} on a flat, an open and a closed cosmology, each element compared "
    "bit-for-bit with the scalar call on the float64 value the element converts to; all mismatched length "
    "pairs must be rejected.  non-trivial = length >= 2 or a container other than a contiguous f8 array.  "
    "copies: every cosmology x {copy(), copy.copy, copy.deepcopy, pickle protocol 0..5, copy of a copy, pickle "
    "of a copy, copy of an unpickled object}: same parameters, bit-identical results of a 16-call battery.  "
    "histories: BFS over ALL sequences (no merging below the depth bound) of calls from a 37-operation menu "
    "(each quantity as scalar and in each vector form, parameter getters, the four copy routes, continuing "
    "on a copy / an unpickled object after dropping the original, activity on another cosmology) on ONE "
    "object; the last result of every history is compared bit-for-bit with the same call on a fresh object "
    "and with the reference model, results returned earlier must be unchanged, and the observable state "
    "(parameters + fixed battery) must equal that of a fresh object."
)
ASSUMPTIONS = [
    "lattice statement only: holds on every listed (cosmology, z pair, container) point, not for all reals",
    "reference 'definition': 1/E(z) = (om(1+z)^3 + ok(1+z)^2 + ol)^-1/2, Dc = DH int 1/E, Dm = sinh/sin/identity "
    "of Dc (Hogg eq. 16), Da = Dm/(1+zmax), Dl = Dm(1+zmax), distmod = 5 log10(Dl(0,z) 1e5), dV = DH (1+z)^2 "
    "Da(0,z)^2 / E (eq. 28), V = 4 pi int dV, Sigma_crit^-1 = K Da(0,zl) Da(zl,zs) / Da(0,zs); DH = 299792.458/H0. "
    "Evaluated in 80-bit long double by composite 24-point Gauss-Legendre (panel width <= 0.5); the check aborts "
    "(harness error) unless a second resolution (16-point, more panels) agrees to 1e-13, scipy.integrate.quad "
    "agrees to 1e-10, Hogg's closed forms for V (eq. 29 family) agree to 1e-10 and, for omega_k > 0, Hogg eq. 19 "
    "for Da(z1,z2) agrees to 1e-12",
    "documented algorithm: 5-point Gauss-Legendre on [zmin,zmax] for the 1/E integral, 10-point for V with the "
    "5-point rule inside dV, nodes/weights from numpy.polynomial.legendre.leggauss (independent of esutil); its "
    "difference from the converged value is 'the truncation error' of the statement",
    "tolerance (ii), from the statement: |impl - exact| <= 1.5 |documented - exact| + floor, floor = 1e-9 |documented| "
    "(distmod: 1e-9 max(|documented|, 5)).  The floor is not in the statement: the compiled rule stops its Newton "
    "iteration at 4e-11 and evaluates the weights with the derivative of the previous iterate, so its weights sum "
    "to 2(1 - 1.3e-11); without a floor every short interval (truncation error ~ 1e-16) would be a false alarm",
    "tolerance (i), from DESIGN.md: |impl - documented| <= 1e-9 relative; stricter than the statement's inequality "
    "only where the truncation error exceeds 2e-9 relative (the implementation is documented to BE this rule)",
    "concordance-like rows (statement's absolute bounds 1e-6 for max(z) <= 1, 1e-3 for max(z) <= 5, relative to the "
    "converged value): omega_m in [0.2,0.4], |omega_k| <= 0.1, omega_m+omega_k+omega_l = 1, any H0; applied to the "
    "1/E integral, Dc, Dm, Da, Dl, dV, V, sigmacritinv (distmod: absolute 5/ln10 times that bound)",
    "for zmin > zmax every definition is read with the oriented integral (what the antisymmetry identity the "
    "statement demands for Dc implies); sigmacritinv is exactly 0 for zs <= zl",
    "1/E(z) is closed form and must hold 'to rounding': 4 ulp times the condition number sum|terms|/E^2 of the sum",
    "identities Da = Dm/(1+zmax), Dl = Dm(1+zmax), Dm = Dc (flat), Dc(a,b) = -Dc(b,a): 4 ulp (the reordering bound "
    "of a 5-term sum); distmod = 5 log10(Dl(0,z) 1e5) to 1e-12 absolute and dV = DH (1+z)^2 Da(0,z)^2 Ez_inverse(z) "
    "to 1e-12 relative between the implementation's own results",
    "sigmacritinv: the constant K = result / (Da(0,zl) Da(zl,zs) / Da(0,zs)) formed from the implementation's own "
    "Da must be the same number (1e-12 relative) for every input and cosmology as for Cosmo().sigmacritinv(0.5,1), "
    "and equal 4 pi G / c^2 = 6.0135e-7 pc^2/Msun/Mpc (CODATA 2018 G, IAU 2015 GM_sun and parsec) to 1e-3 relative: "
    "the library's constant 6.01505e-7 differs from current values by 2.5e-4",
    "parameter normalisation (docstring + comments of extract_parms): omega_k absent or 0 => flat, omega_k = 0, "
    "omega_l = 1 - omega_m whatever omega_l / flat were given; omega_k != 0 => curved with the three values as "
    "given.  An EXPLICIT flat=True together with omega_k != 0 is ambiguous in the documentation (the flag's default "
    "is True, so it cannot forbid curvature): either resolution is accepted there and only the invariant "
    "'flat() => omega_k = 0 and omega_l = 1 - omega_m' is required; such spellings are not used in other parts",
    "vector results must be float64 arrays of shape (n,); for a 0-d argument only size 1 and the value are required",
    "a rejected call = any Exception raised (ValueError in the current code); a crash or a returned value is a violation",
    "histories: the C struct is opaque to python, so the canonical state key is fingerprint(__dict__) plus an "
    "observation (all parameter getters + bits of a fixed battery of 10 calls) instead of a memory image",
]

LD = np.longdouble
CLIGHT = 2.99792458e5
# 4 pi G / c^2 in pc^2 / Msun / Mpc: G = 6.67430e-11, GMsun = 1.3271244e20, pc = 648000/pi au
_G = 6.67430e-11
_MSUN = 1.3271244e20 / _G
_PC = 648000.0 / math.pi * 1.495978707e11
K_PHYS = 4.0 * math.pi * _G / 299792458.0 ** 2 * _MSUN / _PC * 1e6


def bits(v):
    return struct.pack("<d", float(v))


def ulp_close(a, b, n):
    a = float(a)
    b = float(b)
    if a == b:
        return True
    if not (math.isfinite(a) and math.isfinite(b)):
        return False
    return abs(a - b) <= n * float(np.spacing(max(abs(a), abs(b))))


# ----------------------------------------------------------------------------
# reference model


def normalise(kw):
    """documented parameter normalisation -> (H0, [acceptable (flat, om, ol, ok)])"""
    d = dict(kw)
    H0 = d.get("H0", 100.0)
    if d.get("h") is not None:
        H0 = 100.0 * d["h"]
    om = d.get("omega_m", 0.3)
    ol = d.get("omega_l", 0.7)
    ok = d.get("omega_k")
    if ok is None or ok == 0:
        return H0, [(True, om, 1.0 - om, 0.0)]
    res = [(False, om, ol, ok)]
    if d.get("flat") is True:
        res.append((True, om, 1.0 - om, 0.0))
    return H0, res


_X5, _W5 = [v.astype(LD) for v in npleg.leggauss(5)]
_X10, _W10 = [v.astype(LD) for v in npleg.leggauss(10)]
_XA, _WA = [v.astype(LD) for v in npleg.leggauss(24)]
_XB, _WB = [v.astype(LD) for v in npleg.leggauss(16)]


def _unit_rule(x, w, panels):
    """composite rule on [0,1]: nodes, weights"""
    edges = np.arange(panels + 1, dtype=LD) / panels
    lo = edges[:-1][:, None]
    h = (edges[1:] - edges[:-1])[:, None] / 2
    u = (lo + h * (1 + x[None, :])).ravel()
    wu = (h * w[None, :]).ravel()
    return u, wu


class Model(object):
    """the definitions, evaluated by the documented fixed-order rule (doc) and converged (exact)"""

    def __init__(self, H0, flat, om, ol, ok):
        self.flat = bool(flat)
        self.om = LD(om)
        self.ol = LD(ol)
        self.ok = LD(0.0) if flat else LD(ok)
        self.DH = LD(CLIGHT) / LD(H0)
        self.s = np.sqrt(abs(self.ok)) / self.DH      # sqrt|ok|/DH
        self._rules = {}

    # -- integrand
    def e2(self, z):
        x = 1 + np.asarray(z, dtype=LD)
        return self.om * x ** 3 + self.ok * x ** 2 + self.ol

    def cond(self, z):
        x = 1 + LD(z)
        t = [self.om * x ** 3, self.ok * x ** 2, self.ol]
        return float(sum(abs(v) for v in t) / abs(sum(t)))

    def ezinv(self, z):
        return 1 / np.sqrt(self.e2(z))

    def min_e2(self):
        return float(self.e2(np.linspace(0.0, 5.0, 2001)).min())

    # -- 1/E integral
    def int_doc(self, a, b):
        a = np.asarray(a, dtype=LD)
        b = np.asarray(b, dtype=LD)
        f1 = ((b - a) / 2)[..., None]
        f2 = ((b + a) / 2)[..., None]
        return (f1 * _W5 * self.ezinv(_X5 * f1 + f2)).sum(axis=-1)

    def _rule(self, which, width):
        panels = max(2, int(math.ceil(abs(float(width)) / 0.5)))
        if which == "B":
            panels = panels + 3
        k = (which, panels)
        if k not in self._rules:
            x, w = (_XA, _WA) if which == "A" else (_XB, _WB)
            self._rules[k] = _unit_rule(x, w, panels)
        return self._rules[k]

    def int_exact(self, a, b, which="A"):
        """converged integral of 1/E from a to b; a, b arrays of one shape (rule chosen for the widest)"""
        a = np.asarray(a, dtype=LD)
        b = np.asarray(b, dtype=LD)
        wid = b - a
        u, wu = self._rule(which, np.max(np.abs(wid)) if wid.size else 0.0)
        z = a[..., None] + wid[..., None] * u
        return (wid[..., None] * wu * self.ezinv(z)).sum(axis=-1)

    # -- distance chain applied to a value of the integral
    def dm_of(self, integral):
        dc = self.DH * integral
        if self.flat or self.ok == 0:
            return dc
        if self.ok > 0:
            return np.sinh(dc * self.s) / self.s
        return np.sin(dc * self.s) / self.s

    def chain(self, integ, a, b):
        """dict of the two-argument distance quantities from integ(a, b)"""
        i = integ(a, b)
        dm = self.dm_of(i)
        return {"Ezinv_integral": i, "Dc": self.DH * i, "Dm": dm, "Da": dm / (1 + LD(b)), "Dl": dm * (1 + LD(b))}

    def dv_of(self, integ, z):
        z = np.asarray(z, dtype=LD)
        dm = self.dm_of(integ(np.zeros_like(z), z))
        return self.DH * dm * dm * self.ezinv(z)          # (1+z)^2 Da^2 = Dm^2

    def v_doc(self, a, b):
        f1 = (LD(b) - LD(a)) / 2
        f2 = (LD(b) + LD(a)) / 2
        z = _X10 * f1 + f2
        return 4 * LD(np.pi) * (f1 * _W10 * self.dv_of(self.int_doc, z)).sum()

    def v_exact(self, a, b, which="A"):
        wid = LD(b) - LD(a)
        u, wu = self._rule(which, wid)
        z = LD(a) + wid * u
        f = self.dv_of(lambda lo, hi: self.int_exact(lo, hi, which), z)
        return 4 * LD(np.pi) * (wid * wu * f).sum()

    def v_closed_form(self, a, b):
        """Hogg eq. 29 family: V(0,z) as a closed form of the exact Dc"""
        def g(z):
            dc = self.DH * self.int_exact(LD(0), LD(z))
            if self.flat or self.ok == 0:
                return 4 * LD(np.pi) / 3 * dc ** 3
            chi = dc * self.s
            if chi < 0.5:
                # (sinh 2chi)/4 - chi/2 = sum_k (2chi)^(2k+1) / (4 (2k+1)!), alternating when closed
                sgn = 1 if self.ok > 0 else -1
                tot = LD(0)
                term = 2 * chi
                for k in range(1, 30):
                    term = term * (2 * chi) ** 2 / ((2 * k) * (2 * k + 1))
                    tot = tot + (sgn ** (k + 1)) * term / 4
                val = tot
            elif self.ok > 0:
                val = np.sinh(2 * chi) / 4 - chi / 2
            else:
                val = chi / 2 - np.sin(2 * chi) / 4
            return 4 * LD(np.pi) / self.s ** 3 * val
        return g(b) - g(a), max(abs(g(a)), abs(g(b)))

    def da_eq19(self, a, b):
        """Hogg eq. 19 (omega_k >= 0): Da between two redshifts from the two Dm(0,z)"""
        d1 = self.dm_of(self.int_exact(LD(0), LD(a)))
        d2 = self.dm_of(self.int_exact(LD(0), LD(b)))
        r1 = np.sqrt(1 + self.ok * d1 * d1 / self.DH ** 2)
        r2 = np.sqrt(1 + self.ok * d2 * d2 / self.DH ** 2)
        return (d2 * r1 - d1 * r2) / (1 + LD(b))

    def scinv_geom(self, integ, zl, zs):
        """Da(0,zl) Da(zl,zs) / Da(0,zs) (0 for zs <= zl)"""
        if zs <= zl:
            return LD(0)
        dl = self.chain(integ, 0.0, zl)["Da"]
        ds = self.chain(integ, 0.0, zs)["Da"]
        dls = self.chain(integ, zl, zs)["Da"]
        return dls * dl / ds

    def distmod_of(self, integ, z):
        dl = self.chain(integ, 0.0, z)["Dl"]
        with np.errstate(all="ignore"):
            return 5 * np.log10(dl * LD(1e5))

    # -- one value of the documented algorithm for an operation (used by the histories)
    def doc_value(self, meth, args):
        if meth == "Ez_inverse":
            return self.ezinv(args[0])
        if meth == "dV":
            return self.dv_of(self.int_doc, args[0])
        if meth == "distmod":
            return self.distmod_of(self.int_doc, args[0])
        if meth == "V":
            return self.v_doc(*args)
        if meth == "sigmacritinv":
            return self.scinv_geom(self.int_doc, *args)        # times K
        return self.chain(self.int_doc, *args)[meth]


_MODELS = {}


def model_of(kw):
    k = repr(kw)
    if k not in _MODELS:
        H0, res = normalise(kw)
        _MODELS[k] = Model(H0, *res[0])
    return _MODELS[k]


class OracleError(AssertionError):
    pass


def self_check(what, v1, v2, rel, scale=None):
    v1 = LD(v1)
    v2 = LD(v2)
    sc = max(abs(v1), abs(v2)) if scale is None else scale
    if not abs(v1 - v2) <= rel * sc:
        raise OracleError("reference self-check failed (%s): %r vs %r" % (what, v1, v2))


# ----------------------------------------------------------------------------
# alphabets

OMS = [0.3, 0.05, 1.0, 1.5]
CURVS = ["flat", 0.1, -0.1, 0.5, -0.5]
HSPELL = [(("H0", 70.0),), (), (("H0", 30.0),), (("H0", 120.0),), (("h", 0.7),)]
HSPELL_T = [(("H0", 100.0),), (("H0", 70),), (("h", 1.2), ("H0", 50.0))]
OMS_T = [0.15, 0.5, 1.2]
CURVS_T = [0.01, -0.01, 0.3, -0.3]
Z = [0.0, 1e-6, 0.1, 0.5, 1.0, 2.0, 5.0]
Z_T = [1e-3, 0.25, 3.5]
MIN_E2 = 0.05

Q2 = ["Ezinv_integral", "Dc", "Dm", "Da", "Dl", "V", "sigmacritinv"]
VEC2 = ["Dc", "Dm", "Da", "Dl", "sigmacritinv"]
VEC1 = ["Ez_inverse", "dV", "distmod"]

ZF = [0.0, 0.1, 0.5, 2.0]            # element alphabet of the float containers
ZI = [0, 1, 2, 5]                    # ... of the integer containers (same positions)
FORMS = ["f8", "list", "tuple", "f4", "i8", "intlist", "strided", "negstride", ">f8"]
INT_FORMS = ("i8", "intlist")
SCALARS = [("py", 0.3), ("py", 3.0), ("py", 0.0), ("pyint", 1), ("npf4", 0.3), ("npf8", 0.1), ("npi8", 2)]

VEC_COSMO = [(("H0", 70.0), ("omega_m", 0.3)),
             (("H0", 70.0), ("omega_k", 0.1), ("omega_l", 0.6), ("omega_m", 0.3)),
             (("H0", 70.0), ("omega_k", -0.5), ("omega_l", 1.2), ("omega_m", 0.3))]
VEC_COSMO_T = [(("h", 0.7), ("omega_k", 0.5), ("omega_l", -1.0), ("omega_m", 1.5)),
               (("omega_k", 0.1), ("omega_l", 0.7), ("omega_m", 0.3))]

COPY_ROUTES = (["copy()", "copy.copy", "deepcopy"] + ["pickle%d" % p for p in range(6)]
               + ["copy-of-copy", "pickle-of-copy", "copy-of-pickle"])

BATTERY = [("Ez_inverse", (0.5,)), ("Ezinv_integral", (0.1, 2.0)), ("Dc", (0.1, 2.0)), ("Dm", (0.1, 2.0)),
           ("Da", (0.1, 2.0)), ("Dl", (0.1, 2.0)), ("dV", (0.5,)), ("V", (0.1, 2.0)), ("distmod", (0.5,)),
           ("sigmacritinv", (0.1, 2.0))]
BATTERY_LONG = BATTERY + [("Dc", (0.0, 5.0)), ("Dm", (1.0, 0.5)), ("V", (0.0, 1.0)), ("sigmacritinv", (0.5, 1.0)),
                          ("Dl", (0.0, 1e-6)), ("Da", (2.0, 5.0))]


def cosmo_kw(om, curv, hs, ol=None):
    kw = dict(hs)
    kw["omega_m"] = om
    if curv != "flat":
        kw["omega_k"] = curv
        kw["omega_l"] = round(1.0 - om - curv, 12) if ol is None else ol
    return tuple(sorted(kw.items()))


def geom_class(kw):
    H0, res = normalise(kw)
    flat, om, ol, ok = res[0]
    if flat:
        return "flat"
    g = "open" if ok > 0 else "closed"
    if abs(om + ol + ok - 1.0) > 1e-9:
        g += "-inconsistent"
    return g


def concordance_like(kw):
    H0, res = normalise(kw)
    flat, om, ol, ok = res[0]
    return 0.2 <= om <= 0.4 and abs(ok) <= 0.1 and abs(om + ol + ok - 1.0) <= 1e-9


def build_arg(spec):
    """argument object from its literal: ('s', kind, v) scalar | (form, values) container"""
    if spec[0] == "s":
        kind, v = spec[1], spec[2]
        if kind == "py":
            return float(v)
        if kind == "pyint":
            return int(v)
        if kind == "npf4":
            return np.float32(v)
        if kind == "npf8":
            return np.float64(v)
        if kind == "npi8":
            return np.int64(v)
        raise ValueError(kind)
    form, vals = spec
    vals = list(vals)
    if form == "list":
        return [float(v) for v in vals]
    if form == "intlist":
        return [int(v) for v in vals]
    if form == "tuple":
        return tuple(float(v) for v in vals)
    if form == "f8":
        return np.array(vals, dtype="f8")
    if form == "f4":
        return np.array(vals, dtype="f4")
    if form == "i8":
        return np.array(vals, dtype="i8")
    if form == ">f8":
        return np.array(vals, dtype=">f8")
    if form == "strided":
        m = np.full((len(vals), 3), 7.25)
        m[:, 1] = vals
        return m[:, 1]
    if form == "negstride":
        return np.array(vals[::-1], dtype="f8")[::-1]
    if form == "0d":
        return np.array(float(vals[0]))
    raise ValueError(form)


def arg_elements(spec):
    """the float64 values the elements of the argument convert to (None for a scalar: broadcast)"""
    a = build_arg(spec)
    if spec[0] == "s":
        return None, float(a)
    return [float(v) for v in np.asarray(a).ravel().tolist()] if not isinstance(a, (list, tuple)) \
        else [float(v) for v in a], None


def is_plain(spec):
    return spec[0] == "f8" and len(spec[1]) == 1


# ----------------------------------------------------------------------------


def main(ctx):
    from esutil.cosmology import Cosmo

    rnd = random.Random(1100 + ctx.seed)
    while True:
        s_om = round(rnd.uniform(0.1, 1.4), 3)
        s_ok = round(rnd.uniform(-0.4, 0.4), 3)
        s_H0 = round(rnd.uniform(30.0, 120.0), 2)
        seed_kw = tuple(sorted(dict(H0=s_H0, omega_m=s_om, omega_k=s_ok,
                                    omega_l=round(1.0 - s_om - s_ok, 12)).items()))
        if s_ok != 0 and model_of(seed_kw).min_e2() > 2 * MIN_E2:
            break
    seed_z = sorted([round(rnd.uniform(0.01, 1.0), 4), round(rnd.uniform(1.0, 5.0), 3)])
    seed_el = round(rnd.uniform(0.6, 1.9), 3)
    ctx.notes.append("seed-chosen generic symbols: cosmology %r, z %r, array element %r" % (seed_kw, seed_z, seed_el))

    def make(kw):
        return Cosmo(**dict(kw))

    kcache = {}

    def k_impl():
        """the library's 4 pi G / c^2, from one fixed call (compared with the physical value by the caller)"""
        if "k" not in kcache:
            c = Cosmo()
            kcache["k"] = c.sigmacritinv(0.5, 1.0) / (c.Da(0.0, 0.5) * c.Da(0.5, 1.0) / c.Da(0.0, 1.0))
        return kcache["k"]

    def getters(c):
        return (c.H0(), c.DH(), c.flat(), c.omega_m(), c.omega_l(), c.omega_k())

    def battery(c, which=BATTERY):
        return tuple(bits(getattr(c, m)(*a)) for m, a in which)

    # ------------------------------------------------------------------ params
    def check_params(case, rec, c, kw):
        """reported parameters against the documented normalisation; returns the resolution or None"""
        H0, res = normalise(kw)
        got = getters(c)
        if not ulp_close(got[0], H0, 4):
            rec.fail(case, "H0() = %r, documented normalisation gives %r" % (got[0], H0))
            return None
        if not ulp_close(got[1], CLIGHT / float(H0), 4):
            rec.fail(case, "DH() = %r, expected c/H0 = %r" % (got[1], CLIGHT / float(H0)))
            return None
        hit = None
        for r in res:
            flat, om, ol, ok = r
            if (bool(got[2]) == flat and got[3] == om and abs(got[4] - ol) <= 1e-15 and got[5] == ok):
                hit = r
                break
        if hit is None:
            rec.fail(case, "reported (flat, omega_m, omega_l, omega_k) = %r, documented normalisation gives %r"
                     % (got[2:], res))
            return None
        if bool(got[2]) and not (got[5] == 0 and abs(got[4] - (1.0 - got[3])) <= 1e-15):
            rec.fail(case, "flat() is set but omega_k = %r, omega_l = %r, omega_m = %r" % (got[5], got[4], got[3]))
            return None
        return hit

    def one_params(case, rec):
        kw = case
        try:
            c = make(kw)
        except Exception as e:
            return rec.fail(case, "constructor raised %s: %s" % (type(e).__name__, e))
        hit = check_params(case, rec, c, kw)
        if hit is None:
            return
        H0, res = normalise(kw)
        # the distances follow the reported parameters (whichever acceptable resolution was taken)
        m = Model(H0, *hit)
        ncall = 6
        for meth, args in (("Dm", (0.0, 2.0)), ("Da", (0.5, 1.0)), ("Ez_inverse", (1.0,))):
            got = getattr(c, meth)(*args)
            ncall += 1
            exp = float(m.doc_value(meth, args))
            if not abs(got - exp) <= 1e-9 * abs(exp):
                return rec.fail(case, "%s%r = %r does not follow the reported parameters (expected %r)"
                                % (meth, args, got, exp))
        d = dict(kw)
        oc = "%s/%s/%s" % ("h" if d.get("h") is not None else ("H0" if "H0" in d else "default-H0"),
                           "flat" if hit[0] else "curved",
                           "flat=%r,ok=%s" % (d.get("flat", "unset"),
                                              "unset" if "omega_k" not in d else
                                              ("None" if d["omega_k"] is None else
                                               ("0" if d["omega_k"] == 0 else "nonzero"))))
        if len(res) > 1:
            oc += "/ambiguous"
        rec.ok(case, outcome=oc, nontrivial=bool(kw), calls=ncall)

    hs_params = [(), (("H0", 70.0),), (("H0", 70),), (("H0", 30.0),), (("H0", 120.0),), (("H0", 100.0),),
                 (("h", 0.7),), (("h", 1.2), ("H0", 50.0)), (("h", None), ("H0", 67.0))]
    geo_params = [()]
    for flat in ("unset", True, False):
        for okv in ("unset", None, 0.0, 0, 0.1, -0.1, 0.5, -0.5):
            # omega_l far from, equal to and a hair off the flat complement 1-omega_m ("c": 4e-7, 1e-9 and one ulp away):
            # a rule applied only when the inputs are "inconsistent enough" keeps the caller's value there
            for olv in ("unset", 0.7, 0.55, "c+4e-7", "c-4e-7", "c+1e-9", "c+ulp", "c-ulp"):
                g = []
                if flat != "unset":
                    g.append(("flat", flat))
                if okv != "unset":
                    g.append(("omega_k", okv))
                if olv != "unset":
                    g.append(("omega_l", olv))
                if g:
                    geo_params.append(tuple(g))
    units_p = []
    for om in ("unset", 0.3, 0.05, 1.0, 1.5):
        for hs in hs_params:
            for g in geo_params:
                kw = dict(hs)
                kw.update(dict(g))
                if isinstance(kw.get("omega_l"), str):
                    comp = 1.0 - (0.3 if om == "unset" else om)
                    sym = kw["omega_l"]
                    kw["omega_l"] = (float(np.nextafter(comp, 2.0)) if sym == "c+ulp" else float(np.nextafter(comp, -2.0)) if sym == "c-ulp"
                                     else comp + float(sym[1:]))
                if om != "unset":
                    kw["omega_m"] = om
                kw = tuple(sorted(kw.items()))
                H0, res = normalise(kw)
                if min(Model(H0, *r).min_e2() for r in res) > MIN_E2:
                    units_p.append(kw)
    ctx.lattice("params", units_p, one_params,
                bounds=dict(hubble=[repr(h) for h in hs_params], geometry_spellings=len(geo_params),
                            omega_m=["unset", 0.3, 0.05, 1.0, 1.5]))

    # ------------------------------------------------------------------ scalar
    def check_value(case, rec, name, got, doc, exact, conc_bound, absolute=False):
        """oracles (i) and (ii) and the statement's absolute bound; True when they hold"""
        if not isinstance(got, float):
            rec.fail(case, "%s returned %s, not a float" % (name, type(got).__name__))
            return False
        doc = float(doc)
        exact = float(exact)
        if not math.isfinite(exact):
            if got != exact:
                rec.fail(case, "%s = %r, definition gives %r" % (name, got, exact))
                return False
            return True
        if not math.isfinite(got):
            rec.fail(case, "%s is not finite: %r (definition %r)" % (name, got, exact))
            return False
        ref = max(abs(doc), 5.0) if absolute else abs(doc)
        if not abs(got - doc) <= 1e-9 * ref:
            rec.fail(case, "%s = %r differs from the documented fixed-order rule %r by %.3g relative (> 1e-9)"
                     % (name, got, doc, abs(got - doc) / ref if ref else float("inf")))
            return False
        trunc = abs(doc - exact)
        if not abs(got - exact) <= 1.5 * trunc + 1e-9 * ref:
            rec.fail(case, "%s = %r: error %.3g against the converged value %r exceeds 1.5 x truncation error %.3g"
                     % (name, got, abs(got - exact), exact, trunc))
            return False
        if conc_bound is not None and exact != 0:
            bound = conc_bound * (5.0 / math.log(10.0) if absolute else abs(exact))
            if not abs(got - exact) <= bound:
                rec.fail(case, "%s = %r: error %.3g relative for concordance-like parameters exceeds the stated %g"
                         % (name, got, abs(got - exact) / abs(exact), conc_bound))
                return False
        rel = abs(got - doc) / ref if ref else 0.0
        rec.count("impl-vs-documented<=1e-%d" % (min(16, int(-math.log10(rel))) if rel > 0 else 16))
        return True

    def one_scalar(case, rec):
        kind, kw = case[0], case[1]
        c = make(kw)
        m = model_of(kw)
        geom = geom_class(kw)
        conc = concordance_like(kw)
        if kind == "z":
            z = case[2]
            bound = (1e-6 if z <= 1 else 1e-3) if conc else None
            got = c.Ez_inverse(z)
            exp = float(m.ezinv(z))
            if not (isinstance(got, float) and ulp_close(got, exp, 4 * m.cond(z))):
                return rec.fail(case, "Ez_inverse = %r, definition gives %r" % (got, exp))
            dv = c.dV(z)
            dv_doc = m.dv_of(m.int_doc, z)
            dv_ex = m.dv_of(m.int_exact, z)
            self_check("dV", dv_ex, m.dv_of(lambda a, b: m.int_exact(a, b, "B"), z), 1e-13)
            if not check_value(case, rec, "dV", dv, dv_doc, dv_ex, bound):
                return
            dmod = c.distmod(z)
            if not check_value(case, rec, "distmod", float(dmod), m.distmod_of(m.int_doc, z),
                               m.distmod_of(m.int_exact, z), bound, absolute=True):
                return
            da = c.Da(0.0, z)
            dl = c.Dl(0.0, z)
            hogg28 = c.DH() * (1.0 + z) ** 2 * da * da * got
            if not abs(dv - hogg28) <= 1e-12 * abs(hogg28):
                return rec.fail(case, "dV = %r but DH (1+z)^2 Da(0,z)^2 Ez_inverse(z) = %r" % (dv, hogg28))
            with np.errstate(all="ignore"):
                dmod_id = 5.0 * np.log10(np.float64(dl) * 1e5)
            if not (dmod == dmod_id or abs(dmod - dmod_id) <= 1e-12):
                return rec.fail(case, "distmod = %r but 5 log10(Dl(0,z) 1e5) = %r" % (dmod, dmod_id))
            return rec.ok(case, outcome="z/%s/%s%s" % (geom, "z=0" if z == 0 else ("z<=1" if z <= 1 else "z<=5"),
                                                      "/concordance" if conc else ""),
                          nontrivial=z > 0, calls=5)
        a, b = case[2], case[3]
        bound = (1e-6 if max(a, b) <= 1 else 1e-3) if conc else None
        got = {}
        for q in Q2:
            got[q] = getattr(c, q)(a, b)
        ncall = len(Q2)
        doc = m.chain(m.int_doc, a, b)
        ex = m.chain(m.int_exact, a, b)
        # the oracle checks itself: second resolution, scipy quad, closed forms
        self_check("1/E integral, second resolution", ex["Ezinv_integral"], m.int_exact(a, b, "B"), 1e-13)
        if a != b:
            from scipy.integrate import quad
            qv = quad(lambda t: float(m.ezinv(t)), a, b, epsabs=0, epsrel=1e-13, limit=200)[0]
            self_check("1/E integral, scipy quad", ex["Ezinv_integral"], qv, 1e-10)
        doc["V"] = m.v_doc(a, b)
        ex["V"] = m.v_exact(a, b)
        vcf, vscale = m.v_closed_form(a, b)
        self_check("V, closed form", ex["V"], vcf, 1e-10, scale=vscale)
        if not m.flat and m.ok > 0:
            self_check("Da, Hogg eq. 19", ex["Da"], m.da_eq19(a, b), 1e-12,
                       scale=abs(m.dm_of(m.int_exact(LD(0), LD(max(a, b))))))
        K = k_impl()
        ncall += 4
        if not abs(K - K_PHYS) <= 1e-3 * K_PHYS:
            return rec.fail(case, "sigmacritinv constant %r is not 4 pi G/c^2 = %r pc^2/Msun/Mpc" % (K, K_PHYS))
        doc["sigmacritinv"] = K * m.scinv_geom(m.int_doc, a, b)
        ex["sigmacritinv"] = K * m.scinv_geom(m.int_exact, a, b)
        for q in Q2:
            if not check_value(case, rec, q, got[q], doc[q], ex[q], bound):
                return
        # identities between the implementation's own results
        if not ulp_close(got["Da"], got["Dm"] / (1.0 + b), 4):
            return rec.fail(case, "Da = %r but Dm/(1+zmax) = %r" % (got["Da"], got["Dm"] / (1.0 + b)))
        if not ulp_close(got["Dl"], got["Dm"] * (1.0 + b), 4):
            return rec.fail(case, "Dl = %r but Dm (1+zmax) = %r" % (got["Dl"], got["Dm"] * (1.0 + b)))
        if m.flat and not ulp_close(got["Dm"], got["Dc"], 4):
            return rec.fail(case, "flat cosmology but Dm = %r, Dc = %r" % (got["Dm"], got["Dc"]))
        if not ulp_close(got["Dc"], c.DH() * got["Ezinv_integral"], 4):
            return rec.fail(case, "Dc = %r but DH x Ezinv_integral = %r" % (got["Dc"], c.DH() * got["Ezinv_integral"]))
        back = c.Dc(b, a)
        ncall += 2
        if not ulp_close(back, -got["Dc"], 4):
            return rec.fail(case, "antisymmetry: Dc(zmin,zmax) = %r, Dc(zmax,zmin) = %r" % (got["Dc"], back))
        if b <= a:
            if got["sigmacritinv"] != 0.0:
                return rec.fail(case, "sigmacritinv = %r for a source at or in front of the lens" % got["sigmacritinv"])
        elif a > 0:
            geo = c.Da(0.0, a) * c.Da(a, b) / c.Da(0.0, b)
            ncall += 3
            if not abs(got["sigmacritinv"] / geo - K) <= 1e-12 * K:
                return rec.fail(case, "sigmacritinv / (Da(0,zl) Da(zl,zs) / Da(0,zs)) = %r, elsewhere %r"
                                % (got["sigmacritinv"] / geo, K))
        elif got["sigmacritinv"] != 0.0:
            return rec.fail(case, "sigmacritinv = %r for a lens at z = 0" % got["sigmacritinv"])
        rec.ok(case, outcome="pair/%s/%s/%s%s" % (geom, "degenerate" if a == b else ("forward" if a < b else "reversed"),
                                                  "z<=1" if max(a, b) <= 1 else "z<=5", "/concordance" if conc else ""),
               nontrivial=a != b, calls=ncall)

    oms = OMS + ctx.pick([], OMS_T)
    curvs = CURVS + ctx.pick([], CURVS_T)
    hsp = HSPELL + ctx.pick([], HSPELL_T)
    zs = sorted(set(Z + seed_z + ctx.pick([], Z_T)))
    cosmos = []
    dropped = []
    for om in oms:
        for curv in curvs:
            for hs in hsp:
                kw = cosmo_kw(om, curv, hs)
                (cosmos if model_of(kw).min_e2() > MIN_E2 else dropped).append(kw)
    cosmos.append(cosmo_kw(0.3, 0.1, (("H0", 70.0),), ol=0.7))          # inconsistent triple
    cosmos.append(cosmo_kw(0.25, -0.05, (("h", 0.7),), ol=0.7))         # ... and a closed one
    cosmos.append(seed_kw)
    ctx.notes.append("scalar: %d cosmologies, %d dropped for E^2 <= %g on [0,5] (omega_m, curvature): %r"
                     % (len(cosmos), len(dropped), MIN_E2,
                        sorted(set((dict(k)["omega_m"], dict(k).get("omega_k")) for k in dropped))))

    def expand_scalar(kw):
        for z in zs:
            yield ("z", kw, z)
        for a in zs:
            for b in zs:
                yield ("pair", kw, a, b)

    ctx.lattice("scalar", cosmos, one_scalar, expand=expand_scalar,
                bounds=dict(omega_m=oms, curvature=[str(v) for v in curvs], hubble=[repr(h) for h in hsp],
                            z=zs, cosmologies=len(cosmos), min_E2=MIN_E2))

    # ------------------------------------------------------------------ vector
    def one_vector(case, rec):
        kw, meth = case[0], case[1]
        specs = case[2:]
        c = make(kw)
        f = getattr(c, meth)
        args = [build_arg(s) for s in specs]
        el = [arg_elements(s) for s in specs]
        lens = [len(e[0]) for e in el if e[0] is not None]
        if not lens:
            # all scalars of some numpy/python kind: same as the call on plain floats
            try:
                got = f(*args)
                exp = f(*[e[1] for e in el])
            except Exception as e:
                return rec.fail(case, "%s on scalar arguments raised %s: %s" % (meth, type(e).__name__, e))
            if not (isinstance(got, float) and bits(got) == bits(exp)):
                return rec.fail(case, "%s on %r = %r, on the float values %r" % (meth, specs, got, exp))
            return rec.ok(case, outcome="scalar-kinds/%s" % "+".join(s[1] for s in specs), nontrivial=True, calls=2)
        if len(set(lens)) > 1:
            try:
                got = f(*args)
            except Exception as e:
                return rec.ok(case, outcome="mismatch-rejected:%s" % type(e).__name__, nontrivial=True, calls=1)
            return rec.fail(case, "%s accepted arrays of lengths %r and returned %r" % (meth, lens, got))
        n = lens[0]
        snaps = [(a.dtype.str, a.shape, a.tobytes()) if isinstance(a, np.ndarray) else None for a in args]
        try:
            got = f(*args)
        except Exception as e:
            return rec.fail(case, "%s raised %s: %s" % (meth, type(e).__name__, e))
        for a, sn in zip(args, snaps):
            if sn is not None and (a.dtype.str, a.shape, a.tobytes()) != sn:
                return rec.fail(case, "%s modified its redshift array argument: now %r" % (meth, a.tolist()))
            if sn is not None and isinstance(got, np.ndarray) and np.shares_memory(got, a):
                return rec.fail(case, "%s returned an array that shares memory with its argument" % meth)
        zero_d = any(s[0] == "0d" for s in specs)
        if not (isinstance(got, np.ndarray) and got.dtype == np.float64):
            return rec.fail(case, "%s returned %r, not a float64 array" % (meth, got))
        if (got.size != n) if zero_d else (got.shape != (n,)):
            return rec.fail(case, "%s returned shape %r for arguments of length %d" % (meth, got.shape, n))
        flat = got.ravel()
        for i in range(n):
            sargs = [e[1] if e[0] is None else e[0][i] for e in el]
            exp = f(*sargs)
            if bits(flat[i]) != bits(exp):
                return rec.fail(case, "%s element %d = %r, the scalar call %r gives %r"
                                % (meth, i, float(flat[i]), tuple(sargs), float(exp)))
        combo = "+".join("scalar" if s[0] == "s" else "array" for s in specs)
        forms = "+".join((s[1] if s[0] == "s" else s[0]) for s in specs)
        rec.ok(case, outcome="%s/%s" % (combo, forms), nontrivial=bool(n >= 2 or not all(
            is_plain(s) for s in specs if s[0] != "s")), calls=1 + n)

    L = ctx.pick(3, 4)
    elems = list(range(len(ZF))) + [len(ZF)]          # index len(ZF) = the seed element

    def values(form, idx):
        if form in INT_FORMS:
            return tuple((ZI + [7])[i] for i in idx)
        return tuple((ZF + [seed_el])[i] for i in idx)

    tuples = [t for n in range(1, L + 1) for t in itertools.product(elems, repeat=n)]
    vcos = VEC_COSMO + ctx.pick([], VEC_COSMO_T)
    units_v = []
    for kw in vcos:
        for meth in VEC2:
            for combo in ("vec1", "vec2", "2vec", "mismatch", "scalars"):
                units_v.append((kw, meth, combo))
        for meth in VEC1:
            units_v.append((kw, meth, "vec"))

    def expand_vector(u):
        kw, meth, combo = u
        sc = [("s",) + s for s in SCALARS]
        if combo == "vec":
            for form in FORMS:
                for t in tuples:
                    yield (kw, meth, (form, values(form, t)))
            for i in elems:
                yield (kw, meth, ("0d", values("0d", (i,))))
            for s in sc:
                yield (kw, meth, s)
        elif combo in ("vec1", "vec2"):
            for form in FORMS + ["0d"]:
                for t in tuples:
                    if form == "0d" and len(t) > 1:
                        continue
                    for s in sc:
                        arr = (form, values(form, t))
                        yield (kw, meth, arr, s) if combo == "vec1" else (kw, meth, s, arr)
        elif combo == "2vec":
            for fa in FORMS:
                for fb in FORMS:
                    for t in tuples:
                        if len(t) == L and L > 2 and not (fa == fb or "f8" in (fa, fb)):
                            continue
                        for t2 in (t[::-1], tuple((i + 1) % len(elems) for i in t)):
                            yield (kw, meth, (fa, values(fa, t)), (fb, values(fb, t2)))
            for fa in ("0d", "f8", "list"):
                for fb in ("0d", "f8", "list"):
                    if "0d" in (fa, fb):
                        for i in elems:
                            yield (kw, meth, (fa, values(fa, (i,))), (fb, values(fb, ((i + 2) % len(elems),))))
        elif combo == "mismatch":
            for fa in ("f8", "list", "f4", "i8", "strided", "0d"):
                for fb in ("f8", "list", "f4", "i8", "strided", "0d"):
                    for na in range(1, L + 2):
                        for nb in range(1, L + 2):
                            if na == nb or (fa == "0d" and na > 1) or (fb == "0d" and nb > 1):
                                continue
                            yield (kw, meth, (fa, values(fa, tuple((i + 1) % len(elems) for i in range(na)))),
                                   (fb, values(fb, tuple(i % len(elems) for i in range(nb)))))
        else:
            for s1 in sc:
                for s2 in sc:
                    yield (kw, meth, s1, s2)

    ctx.lattice("vector", units_v, one_vector, expand=expand_vector,
                bounds=dict(max_len=L, float_elements=ZF + [seed_el], int_elements=ZI + [7], containers=FORMS + ["0d"],
                            scalars=[repr(s) for s in SCALARS], cosmologies=[repr(k) for k in vcos],
                            quantities=VEC2 + VEC1))

    # ------------------------------------------------------------------ copies
    def route_copy(c, route):
        if route == "copy()":
            return c.copy()
        if route == "copy.copy":
            return copy.copy(c)
        if route == "deepcopy":
            return copy.deepcopy(c)
        if route.startswith("pickle") and route[6:].isdigit():
            return pickle.loads(pickle.dumps(c, protocol=int(route[6:])))
        if route == "copy-of-copy":
            return c.copy().copy()
        if route == "pickle-of-copy":
            return pickle.loads(pickle.dumps(copy.deepcopy(c)))
        if route == "copy-of-pickle":
            return pickle.loads(pickle.dumps(c)).copy()
        raise ValueError(route)

    def one_copy(case, rec):
        kw, route = case
        c = make(kw)
        p0 = getters(c)
        b0 = battery(c, BATTERY_LONG)
        try:
            c2 = route_copy(c, route)
        except Exception as e:
            return rec.fail(case, "%s raised %s: %s" % (route, type(e).__name__, e))
        if not isinstance(c2, Cosmo) or c2 is c:
            return rec.fail(case, "%s returned %r" % (route, c2))
        p2 = getters(c2)
        if p2 != p0 or [type(v) for v in p2[1:]] != [type(v) for v in p0[1:]]:
            return rec.fail(case, "%s reports parameters %r, the original %r" % (route, p2, p0))
        b2 = battery(c2, BATTERY_LONG)
        if b2 != b0:
            i = [x != y for x, y in zip(b0, b2)].index(True)
            return rec.fail(case, "%s: %s%r differs from the original: %r vs %r"
                            % (route, BATTERY_LONG[i][0], BATTERY_LONG[i][1],
                               struct.unpack("<d", b2[i])[0], struct.unpack("<d", b0[i])[0]))
        # the copy lives on its own: drop the original, use the copy again
        del c
        gc.collect()
        if getters(c2) != p0 or battery(c2, BATTERY_LONG) != b0:
            return rec.fail(case, "%s: the copy changed after the original was dropped" % route)
        rec.ok(case, outcome="%s/%s" % (route, geom_class(kw)), nontrivial=True,
               calls=2 * 6 + 3 * len(BATTERY_LONG) + 1)

    copy_cosmos = list(cosmos) + units_p[::ctx.pick(7, 1)]
    # every whole-number Hubble constant 30..120 (as H0 and as h): a copy route that re-derives H0 from another stored
    # quantity (c/DH) returns it one ulp off for about one value in ten
    copy_cosmos += [cosmo_kw(0.3, "flat", (("H0", float(hh)),)) for hh in range(30, 121)]
    copy_cosmos += [cosmo_kw(0.3, 0.1, (("h", hh / 100.0),)) for hh in range(30, 121, ctx.pick(3, 1))]
    copy_cosmos = sorted(set(copy_cosmos), key=repr)

    def expand_copy(kw):
        for route in COPY_ROUTES:
            yield (kw, route)

    ctx.lattice("copies", copy_cosmos, one_copy, expand=expand_copy,
                bounds=dict(routes=COPY_ROUTES, cosmologies=len(copy_cosmos), battery=[repr(b) for b in BATTERY_LONG]))

    # containers holding SEVERAL cosmologies, copied in one go (a parameter grid for numerical derivatives: the
    # fiducial model plus members that differ in the 8th digit of one parameter, the same object twice): every member
    # of the copy must report ITS parameters and distances, the same object twice must stay one object
    def one_group(case, rec):
        base, param, steps, route = case
        kws = []
        for st in steps:
            kw = dict(base)
            kw[param] = kw[param] + st
            kws.append(kw)
        objs = [Cosmo(**kw) for kw in kws]
        group = objs + [objs[0]]
        ref = [(getters(o), battery(o, BATTERY)) for o in objs]
        try:
            if route == "deepcopy-list":
                cp = copy.deepcopy(group)
            elif route == "deepcopy-dict":
                d = copy.deepcopy({i: o for i, o in enumerate(group)})
                cp = [d[i] for i in range(len(group))]
            elif route == "deepcopy-nested":
                cp = copy.deepcopy([group[:1], tuple(group[1:])])
                cp = list(cp[0]) + list(cp[1])
            elif route == "pickle-list":
                cp = pickle.loads(pickle.dumps(group))
            else:
                cp = copy.copy(group)
                cp = [copy.copy(o) for o in cp[:-1]] + [cp[-1]]
        except Exception as e:
            return rec.fail(case, "%s raised %s: %s" % (route, type(e).__name__, e))
        for i, (o, (p0, b0)) in enumerate(zip(cp[:len(objs)], ref)):
            if getters(o) != p0:
                return rec.fail(case, "%s: member %d of the copy reports %r, the original %r (members differ by %r in %s)" % (route, i, getters(o), p0, steps, param))
            if battery(o, BATTERY) != b0:
                return rec.fail(case, "%s: member %d of the copy gives other distances than its original" % (route, i))
            if route != "copy.copy-each" and o is objs[i]:
                return rec.fail(case, "%s: member %d of the copy is the original object" % (route, i))
        if route.startswith("deepcopy") or route == "pickle-list":
            if cp[-1] is not cp[0]:
                return rec.fail(case, "%s: the object contained twice became two objects" % route)
        rec.ok(case, outcome="group:%s" % route, nontrivial=True, calls=len(objs) * 12)

    GBASE = [dict(omega_m=0.3, omega_l=0.6, flat=False, H0=70.0), dict(omega_m=0.25, H0=64.0), dict(omega_m=0.3, omega_k=-0.1, H0=100.0)]
    gunits = [(tuple(sorted(b.items())), prm, steps, route) for b in GBASE for prm in ("omega_m", "H0") + (("omega_l",) if "omega_l" in b else ())
              for steps in ((0.0, 1e-7, -1e-7), (0.0, 1e-9), (0.0, 1e-12, 2e-12), (0.0, 0.0))
              for route in ("deepcopy-list", "deepcopy-dict", "deepcopy-nested", "pickle-list", "copy.copy-each")]
    ctx.lattice("copies-of-groups", gunits, one_group, bounds=dict(steps=["0,+-1e-7", "0,1e-9", "0,1e-12,2e-12", "0,0 (equal members)"],
                                                                   routes=["deepcopy-list", "deepcopy-dict", "deepcopy-nested", "pickle-list", "copy.copy-each"]))

    # --------------------------------------------------------------- histories
    A3 = (0.1, 0.5, 2.0)
    OPS = []
    for meth, args in BATTERY:
        OPS.append(("call", meth) + tuple(("s", "py", v) for v in args))
    OPS.append(("call", "Dc", ("s", "py", 2.0), ("s", "py", 0.1)))
    for meth in VEC1:
        OPS.append(("call", meth, ("f8", A3)))
    for meth in VEC2:
        OPS.append(("call", meth, ("f8", A3), ("s", "py", 3.0)))
        OPS.append(("call", meth, ("s", "py", 0.05), ("list", A3)))
        OPS.append(("call", meth, ("f4", (0.0, 0.5, 1.0)), ("strided", (0.5, 0.5, 5.0))))
    OPS.append(("params",))
    for route in ("copy()", "copy.copy", "deepcopy", "pickle2"):
        OPS.append(("probe-copy", route))
    OPS.append(("become", "copy()"))
    OPS.append(("become", "pickle2"))
    OPS.append(("other",))
    OPS = tuple(OPS)
    OTHER_KW = (("H0", 50.0), ("omega_k", -0.3), ("omega_l", 0.9), ("omega_m", 0.4))

    def run_op(c, op):
        """-> (new current object, result as a tuple of float64 arrays / python values)"""
        if op[0] == "call":
            r = getattr(c, op[1])(*[build_arg(s) for s in op[2:]])
            return c, r
        if op[0] == "params":
            return c, getters(c)
        if op[0] == "probe-copy":
            c2 = route_copy(c, op[1])
            return c, getters(c2) + battery(c2)
        if op[0] == "become":
            c2 = route_copy(c, op[1])
            del c
            gc.collect()
            return c2, getters(c2)
        if op[0] == "other":
            # another cosmology, called with the very arguments the menu uses
            o = make(OTHER_KW)
            r = tuple(getattr(o, m)(*a) for m, a in BATTERY)
            r = r + tuple(o.Da(list(A3), 3.0).tolist()) + tuple(o.Dm(0.05, np.array(A3)).tolist())
            del o
            gc.collect()
            return c, r
        raise ValueError(op)

    def freeze(r):
        if isinstance(r, np.ndarray):
            return ("A", r.dtype.str, r.shape, r.tobytes())
        if isinstance(r, tuple):
            return tuple(freeze(v) for v in r)
        if isinstance(r, float):
            return ("F", bits(r))
        return r

    OBS_NAMES = ["H0()", "DH()", "flat()", "omega_m()", "omega_l()", "omega_k()"] + [
        "%s%r" % (m, a) for m, a in BATTERY]

    def observe(c):
        """(fingerprint of the python state, parameter getters and battery results as plain numbers)"""
        return (fingerprint(c.__dict__),) + tuple(getters(c)) + tuple(float(getattr(c, m)(*a)) for m, a in BATTERY)

    def obs_key(obs):
        return (obs[0],) + tuple(bits(v) for v in obs[1:])

    fresh_cache = {}

    def fresh(kw, op):
        k = (kw, op)
        if k not in fresh_cache:
            fresh_cache[k] = freeze(run_op(make(kw), op)[1])
        return fresh_cache[k]

    def reference_ok(kw, op, r):
        """the result of a 'call' operation against the documented algorithm (1e-9)"""
        if op[0] != "call":
            return True
        m = model_of(kw)
        el = [arg_elements(s) for s in op[2:]]
        n = max([len(e[0]) for e in el if e[0] is not None] or [0])
        got = [float(r)] if n == 0 else [float(v) for v in np.asarray(r).ravel()]
        for i in range(max(n, 1)):
            sargs = [e[1] if e[0] is None else e[0][i] for e in el]
            exp = float(m.doc_value(op[1], sargs))
            if op[1] == "sigmacritinv":
                exp *= K_PHYS
                tol = 2e-3 * abs(exp)
            else:
                tol = 1e-9 * max(abs(exp), 5.0 if op[1] == "distmod" else 0.0)
            if not (got[i] == exp or abs(got[i] - exp) <= tol):
                return False
        return True

    def execute(hist, rec):
        if not hist or hist[0][0] != "new":
            raise ValueError("a history starts with ('new', kwargs)")
        kw = hist[0][1]
        c = make(kw)
        kept = []
        last = None
        for pos, op in enumerate(hist[1:]):
            try:
                c, r = run_op(c, op)
            except Exception as e:
                rec.fail(hist, "event %d %r raised %s: %s" % (pos, op, type(e).__name__, e))
                return None
            rec.count("operations")
            kept.append((r, freeze(r)))
            last = (op, r)
        if last is not None:
            op, r = last
            fr = fresh(kw, op)
            if freeze(r) != fr:
                rec.fail(hist, "result of %r after %r differs from the same call on a fresh object: %r vs %r"
                         % (op, hist[1:-1], r, fr))
                return None
            if not reference_ok(kw, op, r):
                rec.fail(hist, "result of %r after %r disagrees with the reference model: %r" % (op, hist[1:-1], r))
                return None
        for pos, (r, fz) in enumerate(kept):
            if freeze(r) != fz:
                rec.fail(hist, "the result returned by event %d %r changed afterwards" % (pos, hist[1 + pos]))
                return None
        obs = observe(c)
        base = observe(make(kw))
        if obs_key(obs)[1:] != obs_key(base)[1:]:
            i = [bits(x) != bits(y) for x, y in zip(obs[1:], base[1:])].index(True)
            rec.fail(hist, "observable state after the history differs from a fresh object: %s = %r, fresh %r"
                     % (OBS_NAMES[i], obs[1 + i], base[1 + i]))
            return None
        return obs_key(obs), OPS

    hcos = [VEC_COSMO[0], VEC_COSMO[1], VEC_COSMO[2]] + ctx.pick([], [cosmo_kw(0.3, 0.1, (("h", 0.7),), ol=0.7), seed_kw])
    depth = 1 + ctx.pick(2, 3)
    ctx.histories("histories", [(("new", kw),) for kw in hcos], execute, depth=depth, nodedup_depth=depth,
                  bounds=dict(calls_max=depth - 1, operations=[repr(o) for o in OPS], cosmologies=[repr(k) for k in hcos],
                              key="fingerprint(__dict__) + parameter getters + bits of a 10-call battery"))

    # ------------------------------------------- several live objects (process-wide state)
    # up to 3 Cosmo objects of different parameters alive in one process (mc/worlds.py); the C struct of
    # one object, or anything the extension keeps at module level, must not leak into another object
    from mc.worlds import object_world
    CK = {
        "flat": dict(),
        "open": dict(omega_m=0.3, omega_l=0.5, omega_k=0.2, flat=False),
        "closed": dict(omega_m=0.4, omega_l=0.8, omega_k=-0.2, flat=False),
        "h07": dict(h=0.7, omega_m=0.25, omega_l=0.75),
    }
    ZV = np.array([0.1, 0.5, 0.1, 2.0])

    def c_do(c, kind, op):
        if op[0] == "vec":
            return [getattr(c, op[1])(0.05, ZV)]
        if op[0] == "copy":
            return [getattr(c.copy(), op[1])(op[2], op[3])]
        if op[0] == "params":
            return [c.H0(), c.DH(), c.omega_m(), c.omega_l(), c.omega_k(), float(c.flat())]
        if op[0] == "badvec":
            return [c.Da(np.array([0.1, 0.2, 0.3]), np.array([0.5, 0.6]))]      # mismatched lengths: must raise
        return [getattr(c, op[0])(*op[1:])]

    def c_modules():
        import esutil.cosmology.cosmology as cm
        return [cm]

    object_world(ctx, "several-objects", list(CK), lambda kind: Cosmo(**CK[kind]),
                 [("Dc", 0.1, 1.0), ("Da", 0.2, 0.8), ("sigmacritinv", 0.2, 0.8), ("V", 0.0, 0.5), ("vec", "Dl"),
                  ("copy", "Dm", 0.0, 1.5), ("params",), ("badvec",)],
                 c_do, c_modules, result_edits=True, depth=ctx.pick(3, 4), nodedup_depth=ctx.pick(3, 4),
                 state=lambda c: {k: v for k, v in c.__dict__.items() if k != "Distmod"},
                 must_raise=lambda kind, op: op[0] == "badvec")

    # ------------------------------------------------ long arrays through the vectorised wrappers (mc/longarr.py)
    from mc.longarr import tiled_elementwise, PERIOD, marks
    LC = {k: Cosmo(**kw) for k, kw in (("flat", dict(omega_m=0.3)), ("open", dict(omega_m=0.3, omega_l=0.6, flat=False, H0=70.0)),
                                       ("closed", dict(omega_m=0.4, omega_l=0.8, flat=False, H0=55.0)))}

    def zbase():
        z = np.linspace(0.0, 5.0, PERIOD)
        z[7] = 0.0
        z[11] = z[12]
        return z

    def zpair():
        z = zbase()
        z2 = np.roll(z, 17) + 0.0
        z2[3] = z[3]                                  # identical pair, and pairs with source in front of the lens
        return z, z2

    lspecs = {}
    for ck, cobj in LC.items():
        for meth in ("Dc", "Dm", "Da", "Dl"):                 # V is documented scalar-only
            lspecs["%s.%s(0,z)" % (ck, meth)] = ((lambda: (zbase(),)), (lambda z, c=cobj, m=meth: getattr(c, m)(0.0, z)))
            lspecs["%s.%s(z,z2)" % (ck, meth)] = (zpair, (lambda z, z2, c=cobj, m=meth: getattr(c, m)(np.minimum(z, z2), np.maximum(z, z2))))
            lspecs["%s.%s(z,5.5)" % (ck, meth)] = ((lambda: (zbase(),)), (lambda z, c=cobj, m=meth: getattr(c, m)(z, 5.5)))
        for meth in ("Ez_inverse", "dV", "distmod"):
            lspecs["%s.%s(z)" % (ck, meth)] = ((lambda: (zbase() + 0.01,)), (lambda z, c=cobj, m=meth: getattr(c, m)(z)))
        lspecs["%s.sigmacritinv(zl,zs)" % ck] = (zpair, (lambda z, z2, c=cobj: c.sigmacritinv(z, z2)))
        lspecs["%s.sigmacritinv(0.3,zs)" % ck] = ((lambda: (zbase(),)), (lambda z, c=cobj: c.sigmacritinv(0.3, z)))
        lspecs["%s.sigmacritinv(zl,2)" % ck] = ((lambda: (zbase(),)), (lambda z, c=cobj: c.sigmacritinv(z, 2.0)))
    tiled_elementwise(ctx, "long-arrays", lspecs, marks(ctx), small=lambda l: not l.startswith("open."), small_marks=marks(ctx, small=True), harvest=([__import__("esutil.cosmology.cosmology", fromlist=["x"])], ["cosmology"]))

    # ------------------------------------------------------------ scalar arguments and parameters in other numeric types
    # redshifts as float32 / numpy and Python integers / 0-d arrays, H0 / omega_m as integers or float32 (values exact in
    # every type used): bit-identical to the call with Python floats of the same value; a loud TypeError is not a
    # wrong answer
    def one_typed(case, rec):
        meth, zs, form, where = case
        conv = {"f4": np.float32, "f8": np.float64, "i8": np.int64, "i1": np.int8, "u1": np.uint8, "pyint": int, "0d": lambda v: np.array(v, dtype="f8"),
                "0d-f4": lambda v: np.array(v, dtype="f4"), "0d-i4": lambda v: np.array(v, dtype="i4")}[form]
        kw = dict(omega_m=0.25, omega_l=0.5, flat=False, H0=64.0)
        try:
            cref = Cosmo(**kw)
            ref = getattr(cref, meth)(*[float(z) for z in zs])
            if where == "z":
                got = getattr(cref, meth)(*[conv(z) for z in zs])
            else:
                kw2 = dict(kw)
                kw2[where] = conv(kw[where])
                got = getattr(Cosmo(**kw2), meth)(*[float(z) for z in zs])
        except TypeError:
            return rec.ok(case, outcome="typed:%s:%s:rejected-by-type" % (where, form), nontrivial=False, calls=2)
        except Exception as e:
            return rec.fail(case, "%s%r with %s given as %s raised %s: %s" % (meth, zs, where, form, type(e).__name__, e))
        # (a 0-d array may be answered with a one-element array: the value counts)
        g, r = np.asarray(got, dtype="f8").reshape(-1), np.asarray(ref, dtype="f8").reshape(-1)
        if g.shape != r.shape or not np.array_equal(g, r):
            return rec.fail(case, "%s%r with %s given as %s = %r, with Python floats of the same value %r" % (meth, zs, where, form, g.tolist(), r.tolist()))
        rec.ok(case, outcome="typed:%s:%s" % (where, form), nontrivial=True, calls=2)

    tyunits = []
    for meth, zsets in (("Dc", [(0.5, 2.0), (0.0, 1.0), (2.0, 1.0)]), ("Dm", [(0.5, 2.0)]), ("Da", [(0.0, 1.0), (0.5, 2.0)]), ("Dl", [(0.5, 2.0)]),
                        ("V", [(0.0, 1.0)]), ("sigmacritinv", [(0.5, 2.0), (2.0, 1.0)]), ("Ez_inverse", [(0.5,), (2.0,)]), ("dV", [(1.0,)]),
                        ("distmod", [(1.0,), (0.5,)]), ("Ezinv_integral", [(0.0, 2.0)])):
        for zs in zsets:
            integral = all(float(z).is_integer() for z in zs)
            for form in ("f4", "f8", "0d", "0d-f4") + (("i8", "i1", "u1", "pyint", "0d-i4") if integral else ()):
                tyunits.append((meth, zs, form, "z"))
            for where, forms in (("H0", ("f4", "i8", "i1", "pyint", "0d")), ("omega_m", ("f4", "0d")), ("omega_l", ("f4", "0d"))):
                for form in forms:
                    tyunits.append((meth, zs, form, where))
    ctx.lattice("typed-scalars", tyunits, one_typed, bounds=dict(types=["f4", "f8", "i8", "i1", "u1", "Python int", "0-d arrays"], where=["z", "H0", "omega_m", "omega_l"]))

    # ------------------------------------------------------------ many distinct calls / objects, then each again
    from mc.worlds import revisit
    ZP = [(round(0.05 * k, 3), round(0.05 * k + 0.3 + 0.01 * k, 3)) for k in range(44)]
    R_OMS = [round(0.1 + 0.02 * k, 3) for k in range(44)]
    revisit(ctx, "revisit-after-many-distinct-calls", {
        "one Cosmo, 44 redshift pairs": (lambda: Cosmo(omega_m=0.3, omega_l=0.6, flat=False, H0=70.0), [("pair",) + p for p in ZP],
                                         lambda c, q: [np.asarray(getattr(c, m)(q[1], q[2])) for m in ("Dc", "Dm", "Da", "Dl", "V", "sigmacritinv")]),
        "44 cosmologies in turn": (lambda: {}, [("cosmo", om) for om in R_OMS],
                                   lambda cache, q: [np.asarray(Cosmo(omega_m=q[1], omega_l=0.7, flat=False).Dm(0.2, 1.7)), np.asarray(Cosmo(omega_m=q[1]).Da(0.0, np.array([0.5, 1.0])))]),
    })

    # ------------------------------------------------------------ a stale errno in the calling thread
    # the C library's errno is process state the caller may leave in any condition: an unrelated, already handled domain
    # error (math.acos(2) in a try/except, log10(0)) immediately before a call must not change what the call returns
    def one_errno(case, rec):
        kw, poison = case
        c = make(kw)

        def spoil():
            for f, a in ((math.acos, 2.0), (math.log10, 0.0), (math.sqrt, -1.0), (math.exp, 1e6)):
                if poison in (f.__name__, "all"):
                    try:
                        f(a)
                    except (ValueError, OverflowError):
                        pass
        for meth, args in BATTERY_LONG:
            ref = getattr(c, meth)(*args)
            try:
                spoil()
                got = getattr(c, meth)(*args)
                spoil()
                gv = getattr(c, meth)(np.array([args[0], args[0]]), *args[1:]) if meth in VEC1 or meth in VEC2 else None
            except Exception as e:
                return rec.fail(case, "%s%r raised %s: %s right after an unrelated, handled math domain error (%s) in the same thread" % (meth, args, type(e).__name__, e, poison))
            if bits(got) != bits(ref):
                return rec.fail(case, "%s%r = %r right after an unrelated math domain error, %r otherwise" % (meth, args, got, ref))
            if gv is not None and bits(float(np.asarray(gv).reshape(-1)[0])) != bits(ref):
                return rec.fail(case, "%s (array form) after an unrelated math domain error differs: %r vs %r" % (meth, np.asarray(gv).tolist(), ref))
        rec.ok(case, outcome="errno:%s" % poison, nontrivial=True, calls=3 * len(BATTERY_LONG))

    eunits = [(kw, p) for kw in list(cosmos)[:6] for p in ("acos", "log10", "sqrt", "exp", "all")]
    ctx.lattice("stale-errno", eunits, one_errno, bounds=dict(spoilers=["math.acos(2)", "math.log10(0)", "math.sqrt(-1)", "math.exp(1e6)", "all"], cosmologies=6))
