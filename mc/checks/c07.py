"""C07 - structured-array field operations preserve data, types and documented order (E1 + E2)."""
import itertools

import numpy as np

from mc.util import fingerprint

RULE = (
    "full products over a 7-symbol field alphabet (x >f8, v <i2 (2,), s S3, u <U2, xv >i4 (2,2), b i1 and "
    "one seed-chosen generic field g; the name 'xv' contains two other names): base arrays = every "
    "ORDERED selection of 1..3 (T: 1..4) fields x shape {(), (3,), (2,2)} (+ (1,), (0,) for the short "
    "selections), plus every selection of 1..2 (T: 1..3) fields of the same alphabet in the OPPOSITE "
    "byte order, deterministic non-zero contents; [select] x every ordered selection of <=3 names "
    "from (the array's names + one of two missing names: 'zz' / the upper-cased first name) x "
    "container {scalar,list,tuple,ndarray} x strict {on,off} for extract_fields/reorder_fields, "
    "{scalar,list} for remove_fields, and x getnames for split_fields(fields=); [add] x 5 fresh "
    "descriptors (list / np.dtype object, scalar and sub-array fields, non-native order) x defaults "
    "{None, per-field scalars, sub-array shaped, bare scalar} and 3 descriptors with a clashing name "
    "(first / last existing name, before / after a fresh one) x {list, np.dtype} x defaults on/off; [combine] every ordered "
    "selection of 1..4 of 6 disjoint arrays x shape x {list,tuple}, every list of 2..4 with a shared "
    "name, every list of 2..4 with one array of another length, the empty list; [copy] every (source "
    "selection) x (target made of 1..2 (T: 3) of the 7 names, each with the same or a wider/byte-"
    "swapped type); [copy-by-name] every name selection x container {scalar,list,tuple,ndarray} x "
    "{scalar value, full array value, bare scalar}; [compare] every single-"
    "element perturbation of every field x {same, reversed, extra field on either side, other "
    "sub-array shape} x ignore_missing; [chains, E2] BFS over all chains of 2 (T: 3) operations "
    "from a 12-operation menu on 1..2-field roots, composite compared with the model, every "
    "earlier result must stay bit-identical.  non-trivial = the call is expected to be rejected or "
    "its result differs from its input (field list, order, type list or data change)."
)
ASSUMPTIONS = [
    "reference model: plain python lists of (name, base type, sub-array shape, independent plain ndarray); "
    "the input structured array is assembled with numpy field assignment, which is trusted",
    "'same type and byte order' is decided on dtype.base.str, 'sub-array shape' on dtype.shape, "
    "'element-wise equal' with numpy.array_equal (no NaN in the contents)",
    "'new array' is read as: the result shares no memory with the input and the input is bit-identical "
    "afterwards; combine_fields of a ONE-element list returns that very array (by construction of the code); "
    "this is accepted and reported as its own outcome class",
    "'rejected with an error': ValueError is demanded where a docstring names it (extract_fields / "
    "reorder_fields strict mode); elsewhere any exception counts as a rejection, its type is part of the outcome class",
    "only packed dtypes, no titles, no duplicate names in a selection; remove_fields documents no container, "
    "so only scalar and list are given to it (design decision, DESIGN.md C07)",
    "copy_fields between different field types is only enumerated for value-preserving widenings "
    "(S3->S5, U2->U3, i2->i4, i4->i8, i1->i2) and byte swaps, where element-wise equality is well defined",
    "array length / field count / selection length bounds as listed in the bounds of each part",
]

# ----------------------------------------------------------------------------
# alphabets (name, base type string, sub-array shape)

F = [("x", ">f8", ()), ("v", "<i2", (2,)), ("s", "S3", ()), ("u", "<U2", ()),
     ("xv", ">i4", (2, 2)), ("b", "i1", ())]
# the same names in the opposite byte order (s and b have none)
FSWAP = [("x", "<f8", ()), ("v", ">i2", (2,)), ("s", "S3", ()), ("u", ">U2", ()),
         ("xv", "<i4", (2, 2)), ("b", "i1", ())]
# the seed picks ONE generic representative that joins the six fixed symbols
GENERIC = [("g", ">U3", (2,)), ("g", "<u8", ()), ("g", ">c8", (3,)), ("g", "?", ()),
           ("g", ">u2", (2, 1)), ("g", "<f4", (1,)), ("g", ">i8", ()), ("g", "S1", (3,))]
MISSING = "zz"
# copy_fields targets: same name, value-preserving wider and/or byte-swapped type
WIDE = {"x": ("x", "<f8", ()), "v": ("v", ">i4", (2,)), "s": ("s", "S5", ()),
        "u": ("u", ">U3", ()), "xv": ("xv", "<i8", (2, 2)), "b": ("b", "<i2", ())}
FOREIGN = ("zz", "<f4", ())
# combine_fields pool: six arrays with disjoint names, two that share a name with one of them
POOL = [
    (("x", ">f8", ()),),
    (("v", "<i2", (2,)), ("s", "S3", ())),
    (("u", "<U2", ()),),
    (("xv", ">i4", (2, 2)), ("b", "i1", ())),
    (("w", ">U3", (2,)),),
    (("f", "<f4", ()), ("h", ">i8", ()), ("k", "S1", ())),
    (("s", "S3", ()), ("j", "<i4", ())),      # shares 's' with POOL[1]
    (("x", "<f4", ()),),                       # shares 'x' (other type) with POOL[0]
]
NDISJOINT = 6
ADDS = [
    # (descriptor, given as np.dtype object?, list of defaults variants)
    ((("n", "<U4", ()),), False, [None, ["ab"], "ab"]),
    ((("q", ">f4", ()), ("w", "<i8", (2,))), False, [None, [2.5, 7], [-1.5, [3, 4]]]),
    ((("n", "S2", ()),), True, [None, [b"q"], b"q"]),
    ((("p", ">U3", (2,)), ("r", "<u2", ())), True, [None, [["a", "bcd"], 9]]),
    ((("t", ">i4", (2, 2)),), False, [None, [[[1, 2], [3, 4]]], 5]),
    # defaults of mixed kinds in one call, each exact in its own field type only (an int beyond 2^53 next to a float,
    # a uint64 beyond 2^63 next to a negative int): the defaults must not be coerced to one common type
    ((("k", "<i8", ()), ("f", "<f8", ())), False, [None, [2 ** 53 + 1, 0.5], [-(2 ** 62) - 1, 1e-300]]),
    ((("u", "<u8", ()), ("m", "<i2", ()), ("g", ">f4", ())), False, [None, [2 ** 64 - 1, -3, 0.25], [2 ** 63 + 1, 7, -1.5]]),
]
DIMWORD = {0: "zero-dim", 1: "one-dim", 2: "two-dim"}
REJECT = "REJECT"


# ----------------------------------------------------------------------------
# construction of inputs and of the independent reference data


def _salt(name):
    return sum(ord(c) for c in name)


def content(name, base, full_shape, cseed, salt=0):
    """deterministic non-zero content of one field as a PLAIN array of type `base`"""
    dt = np.dtype(base)
    n = 1
    for d in full_shape:
        n *= d
    k0 = 7 * cseed + 13 * _salt(name) + 29 * salt
    vals = []
    if dt.kind in "SU":
        width = dt.itemsize // (4 if dt.kind == "U" else 1)
        for e in range(n):
            k = k0 + 3 * e
            if dt.kind == "U" and k % 2:
                ch = chr(0xE0 + k % 23)
            else:
                ch = chr(97 + k % 26)
            s = ch * (1 + k % width)
            vals.append(s if dt.kind == "U" else s.encode("ascii"))
    elif dt.kind == "b":
        vals = [(k0 + e) % 3 != 0 for e in range(n)]
    else:
        for e in range(n):
            v = 1 + (k0 + 3 * e) % 53
            if dt.kind in "ifc" and (k0 + e) % 3 == 0:
                v = -v
            if dt.kind == "f":
                v = v + 0.25
            elif dt.kind == "c":
                v = complex(v + 0.25, -v)
            vals.append(v)
    return np.array(vals, dtype=dt).reshape(full_shape)


def np_descr(fields):
    return [(n, b, tuple(s)) if len(s) else (n, b) for (n, b, s) in fields]


def build(fields, shape, cseed, salt=0):
    """-> (structured array, model = list of (name, base, sub, plain data array))"""
    shape = tuple(shape)
    arr = np.zeros(shape, dtype=np_descr(fields))
    model = []
    for (n, b, s) in fields:
        d = content(n, b, shape + tuple(s), cseed, salt)
        arr[n] = d
        model.append((n, b, tuple(s), d))
    return arr, model


def mkarg(sel, cont):
    if cont == "scalar":
        assert len(sel) == 1
        return sel[0]
    if cont == "list":
        return list(sel)
    if cont == "tuple":
        return tuple(sel)
    if cont == "array":
        return np.array(list(sel))
    raise ValueError(cont)


def verify(out, shape, exp):
    """None if `out` is exactly the documented array, else a message"""
    if not isinstance(out, np.ndarray):
        return "result is not an array (%s)" % type(out).__name__
    names = [e[0] for e in exp]
    if out.dtype.names is None or list(out.dtype.names) != names:
        return "field list %r, documented %r" % (list(out.dtype.names or ()), names)
    if out.shape != tuple(shape):
        return "result shape differs from the input shape (%r, input %r)" % (out.shape, tuple(shape))
    for name, base, sub, dat in exp:
        fdt = out.dtype.fields[name][0]
        want = np.dtype(base)
        if fdt.base.kind != want.kind or fdt.base.itemsize != want.itemsize:
            return "type of a field changed (%r: %s, was %s)" % (name, fdt.base.str, want.str)
        if fdt.base.str != want.str:
            return "byte order of a field changed (%r: %s, was %s)" % (name, fdt.base.str, want.str)
        if fdt.shape != tuple(sub):
            return "sub-array shape of a field changed (%r: %r, was %r)" % (name, fdt.shape, tuple(sub))
        got = out[name]
        if got.shape != dat.shape or not np.array_equal(got, dat):
            return "data of a field differ (%r: %r, expected %r)" % (name, got.tolist(), dat.tolist())
    return None


def unchanged(arr, model):
    """the input array still holds the reference data (it was not written to)"""
    return verify(arr, arr.shape, model) is None


def errname(e):
    return type(e).__name__


# ----------------------------------------------------------------------------
# the reference model of the documented field lists


def m_extract(names, sel, strict):
    if strict and any(s not in names for s in sel):
        return REJECT, "names a missing field in strict mode"
    keep = [n for n in names if n in sel]
    if not keep:
        return REJECT, "would leave no field"
    return keep, None


def m_remove(names, sel):
    keep = [n for n in names if n not in sel]
    if not keep:
        return REJECT, "would leave no field"
    return keep, None


def m_reorder(names, sel, strict):
    if strict and any(s not in names for s in sel):
        return REJECT, "names a missing field in strict mode"
    first = [s for s in sel if s in names]
    return first + [n for n in names if n not in first], None


def m_split(names, sel):
    if sel is None:
        return list(names), None
    if any(s not in names for s in sel):
        return REJECT, "names a missing field"
    return list(sel), None


def scalar_value(base):
    k = np.dtype(base).kind
    return {"S": b"Q", "U": "\xd1", "b": True, "c": complex(2.5, -3.0), "f": -1.5,
            "i": -7, "u": 7}[k]


def selections(cand, maxlen):
    out = []
    for ln in range(1, min(maxlen, len(cand)) + 1):
        out.extend(itertools.permutations(cand, ln))
    return out


# ----------------------------------------------------------------------------


def main(ctx):
    # every lattice part once more under FP traps + warnings-as-errors (clean on the unchanged tree, see DESIGN section 0)
    ctx.envstrict_all = "small"
    from esutil import numpy_util as nu

    cseed = int(ctx.seed)
    generic = GENERIC[cseed % len(GENERIC)]
    F7 = F + [generic]

    # ======================================================================
    # part 1: extract / reorder / remove / split with name selections
    def one_select(case, rec):
        op, fields, shape, cs, sel, cont, flag = case
        shape = tuple(shape)
        arr, model = build(fields, shape, cs)
        names = [f[0] for f in fields]
        bym = dict((m[0], m) for m in model)
        dim = DIMWORD[len(shape)]
        arg = None if sel is None else mkarg(sel, cont)
        valueerror_documented = False
        if op == "extract":
            exp, why = m_extract(names, sel, flag)
            valueerror_documented = True

            def call():
                return nu.extract_fields(arr, arg, strict=flag)
        elif op == "reorder":
            exp, why = m_reorder(names, sel, flag)
            valueerror_documented = True

            def call():
                return nu.reorder_fields(arr, arg, strict=flag)
        elif op == "remove":
            exp, why = m_remove(names, sel)

            def call():
                return nu.remove_fields(arr, arg)
        elif op == "split":
            exp, why = m_split(names, sel)

            def call():
                if sel is None:
                    return nu.split_fields(arr, getnames=flag)
                return nu.split_fields(arr, fields=arg, getnames=flag)
        else:
            raise ValueError(op)
        what = "%s_fields (%s names, %s input)" % (op, cont, dim)
        try:
            out = call()
            err = None
        except Exception as e:
            out = None
            err = e
        if exp is REJECT:
            if err is None:
                return rec.fail(case, "%s: a request that %s was accepted" % (what, why))
            if valueerror_documented and not isinstance(err, ValueError):
                return rec.fail(case, "%s: a request that %s raised %s instead of the documented ValueError"
                                % (what, why, errname(err)))
            if not unchanged(arr, model):
                return rec.fail(case, "%s: the input array was modified by a rejected request" % what)
            return rec.ok(case, outcome="%s:rejected(%s):%s" % (op, why, errname(err)), nontrivial=True)
        if err is not None:
            return rec.fail(case, "%s: raised %s: %s" % (what, errname(err), err))
        ignored = sel is not None and any(s not in names for s in sel)
        if op == "split":
            got_names = None
            if flag:
                if not (isinstance(out, tuple) and len(out) == 2):
                    return rec.fail(case, "%s: getnames=True did not return a pair" % what)
                out, got_names = out
            if not isinstance(out, tuple) or len(out) != len(exp):
                return rec.fail(case, "%s: %d views returned for %d requested fields" % (what, len(out), len(exp)))
            if got_names is not None and [str(n) for n in got_names] != exp:
                return rec.fail(case, "%s: returned names %r, expected %r" % (what, list(got_names), exp))
            for v, n in zip(out, exp):
                _, base, sub, dat = bym[n]
                if not isinstance(v, np.ndarray) or v.dtype.str != np.dtype(base).str:
                    return rec.fail(case, "%s: view of a field has another type (%r: %r)" % (what, n, getattr(v, "dtype", None)))
                if v.shape != shape + sub or not np.array_equal(v, dat):
                    return rec.fail(case, "%s: view of a field differs from the field (%r)" % (what, n))
                if arr.size and not np.shares_memory(v, arr):
                    return rec.fail(case, "%s: a returned field is a copy, not a view (%r)" % (what, n))
            if not unchanged(arr, model):
                return rec.fail(case, "%s: the input array was modified" % what)
            oc = "split:" + ("all-default" if sel is None else "all" if len(exp) == len(names) else "subset")
            if sel is not None and exp != [n for n in names if n in exp]:
                oc += "+reordered"
            if flag:
                oc += "+names"
            return rec.ok(case, outcome=oc, nontrivial=(sel is not None and exp != names))
        msg = verify(out, shape, [bym[n] for n in exp])
        if msg:
            return rec.fail(case, "%s: %s" % (what, msg))
        if out is arr or (arr.size and np.shares_memory(out, arr)):
            return rec.fail(case, "%s: the result is not a new array (shares memory with the input)" % what)
        if not unchanged(arr, model):
            return rec.fail(case, "%s: the input array was modified" % what)
        if exp == names:
            oc = "identity"
        elif sorted(exp) == sorted(names):
            oc = "permuted"
        else:
            oc = "subset"
        if ignored:
            oc += "+missing-ignored"
        rec.ok(case, outcome="%s:%s" % (op, oc), nontrivial=(exp != names))

    KQ = ctx.pick(3, 4)           # fields per base array
    NSEL = 3                      # names per selection
    MAIN_SHAPES = [(), (3,), (2, 2)]
    SMALL_SHAPES = [(1,), (0,)]

    def base_units(alphabet, kmax, small_kmax):
        units = []
        for k in range(1, kmax + 1):
            for fields in itertools.permutations(alphabet, k):
                for shape in MAIN_SHAPES + (SMALL_SHAPES if k <= small_kmax else []):
                    units.append((tuple(fields), shape))
        return units

    def expand_select(u):
        fields, shape = u
        names = [f[0] for f in fields]
        # case sensitivity: the upper-cased first name is a missing name too
        # ... and so are a real name with one more character, and the longest name extended (a name table of fixed
        # width would truncate both to an existing name)
        longest = max(names, key=len)
        cands = [names + [MISSING], names + [names[0].upper()], names + [longest + "z"], names + [names[-1] + "_err"]]
        seen = set()
        for cand in cands:
            cand = list(dict.fromkeys(cand))     # a candidate list never names the same field twice
            for sel in selections(cand, NSEL):
                if sel in seen:
                    continue
                seen.add(sel)
                for cont in ("scalar", "list", "tuple", "array"):
                    if cont == "scalar" and len(sel) != 1:
                        continue
                    for strict in (True, False):
                        yield ("extract", fields, shape, cseed, sel, cont, strict)
                        yield ("reorder", fields, shape, cseed, sel, cont, strict)
                    if cont in ("scalar", "list"):
                        yield ("remove", fields, shape, cseed, sel, cont, None)
                    for getnames in (False, True):
                        yield ("split", fields, shape, cseed, sel, cont, getnames)
        for getnames in (False, True):
            yield ("split", fields, shape, cseed, None, "none", getnames)

    # the byte-swapped alphabet: only arrays that contain a field with a byte order
    KSW = ctx.pick(2, 3)
    swapped_units = [u for u in base_units(FSWAP, KSW, KSW) if any(f not in F for f in u[0])]
    # arrays holding two fields whose names differ only in case ('x' / 'X'): each is its own field
    FX, FXU, FS = ("x", ">f8", ()), ("X", "<i4", ()), ("s", "S3", ())
    case_units = [(fl, sh) for fl in ((FX, FXU), (FXU, FX), (FX, FS, FXU), (FXU, FS, FX), (FS, FXU, FX)) for sh in MAIN_SHAPES]
    # wide tables (40 and 70 fields) with requests of more than 32 / 64 names in another order than the table's
    def _wide_cases():
        WIDE = {n: tuple(("f%02d" % j, ("<i4", ">f8", "S3", "<i2")[j % 4], (2,) if j % 11 == 5 else ()) for j in range(n)) for n in (40, 70)}
        out = []
        for n, flds in WIDE.items():
            nm = [f[0] for f in flds]
            for sel in (tuple(nm[::-1]), tuple(nm[5:] + nm[:5]), tuple(nm[::-1][:n - 5]), tuple(nm[3:n - 3][::-1]), tuple(nm[1::2] + nm[0::2]), tuple(nm[:33][::-1]), tuple(nm[:n - 2])):
                for cont in ("list", "tuple", "array"):
                    for strict in (True, False):
                        out.append(("extract", flds, (3,), 0, sel, cont, strict))
                        out.append(("reorder", flds, (3,), 0, sel, cont, strict))
                    if cont == "list":
                        out.append(("remove", flds, (3,), 0, sel[:n - 3], cont, None))
                        out.append(("split", flds, (3,), 0, sel, cont, True))
        return out
    wide_cases = _wide_cases()
    ctx.lattice("select-wide-tables", wide_cases, one_select, bounds=dict(fields=[40, 70], requests="reversed, rotated, reversed prefixes, odd-then-even, first 33 reversed, all but two"))

    # field names that contain characters a "convenience" parser of name lists would trip over: a comma, a blank, a
    # colon, a bracket, non-ASCII, a leading digit - next to the parts such a name would be split into ('g', 'r')
    ODD = [("g,r", ">f8", ()), ("a b", "<i4", ()), ("x:y", "S3", ()), ("v[0]", "<i2", (2,)), ("é", "<f4", ()), ("1st", "i1", ())]
    PARTS = [("g", "<i2", ()), ("r", ">i4", ())]
    odd_units = [((o, PARTS[0]), sh) for o in ODD for sh in MAIN_SHAPES[:2]] + [((PARTS[1], ODD[0], PARTS[0]), MAIN_SHAPES[0]), ((ODD[0], ODD[1]), MAIN_SHAPES[0]),
                                                                                ((ODD[2], ODD[4], ODD[5]), MAIN_SHAPES[0])]
    ctx.lattice("select", base_units(F7, KQ, ctx.pick(2, 4)) + swapped_units + case_units + odd_units, one_select, expand=expand_select,
                bounds=dict(alphabet=F7, max_fields=KQ, swapped_alphabet=FSWAP, max_fields_swapped=KSW,
                            max_names=NSEL, shapes=MAIN_SHAPES,
                            small_shapes=SMALL_SHAPES, missing=[MISSING, "<first name upper-cased>", "<longest name>+z", "<last name>_err"],
                            containers=["scalar", "list", "tuple", "array"],
                            ops=["extract_fields", "reorder_fields", "remove_fields", "split_fields"]))

    # names that differ from an existing name only by white space (a trailing / leading blank, a tab): 'mag ' is not
    # 'mag' - it is a missing name where only 'mag' exists, and its own field where both exist (round 8: a comparison
    # that strips trailing blanks)
    def expand_ws(u):
        fields, shape = u
        names = [f[0] for f in fields]
        cands = [names + [names[0] + " "], names + [" " + names[0]], names + [names[0] + "\t"], names + [names[-1] + "  "],
                 names + [names[0].strip()]]
        seen = set()
        for cand in cands:
            cand = list(dict.fromkeys(cand))
            for sel in selections(cand, NSEL):
                if sel in seen:
                    continue
                seen.add(sel)
                for cont in ("scalar", "list", "tuple", "array"):
                    if cont == "scalar" and len(sel) != 1:
                        continue
                    for strict in (True, False):
                        yield ("extract", fields, shape, cseed, sel, cont, strict)
                        yield ("reorder", fields, shape, cseed, sel, cont, strict)
                    if cont in ("scalar", "list"):
                        yield ("remove", fields, shape, cseed, sel, cont, None)
                    yield ("split", fields, shape, cseed, sel, cont, True)

    WM, WMB, WBM, WMT = ("mag", ">f8", ()), ("mag ", "<i4", ()), (" mag", "S3", ()), ("mag\t", "<i2", (2,))
    ws_units = [(fl, sh) for fl in ((WM, WMB), (WMB, WM), (WM, WBM), (WMB, FS, WM), (WM, WMT), (WMB, WBM, WM), (WMB,), (WM,))
                for sh in MAIN_SHAPES[:2]]
    ws_units += base_units(F7, 2, 1)
    ctx.lattice("select-whitespace-names", ws_units, one_select, expand=expand_ws,
                bounds=dict(variants=["name+blank", "blank+name", "name+tab", "name+two blanks", "stripped name"],
                            tables_with_both=["mag / 'mag '", "mag / ' mag'", "mag / 'mag\\t'"], max_names=NSEL))

    # ======================================================================
    # part 2: add_fields
    def one_add(case, rec):
        _, fields, shape, cs, add, as_dtype, defaults = case
        shape = tuple(shape)
        arr, model = build(fields, shape, cs)
        names = [f[0] for f in fields]
        dim = DIMWORD[len(shape)]
        descr = np_descr(add)
        arg = np.dtype(descr) if as_dtype else descr
        what = "add_fields (%s, %s, %s input)" % (
            "dtype object" if as_dtype else "descr list",
            "zero-filled" if defaults is None else "defaults", dim)
        clash = any(a[0] in names for a in add)
        try:
            out = nu.add_fields(arr, arg, defaults=defaults)
            err = None
        except Exception as e:
            out = None
            err = e
        if clash:
            if err is None:
                return rec.fail(case, "%s: adding an existing name was accepted" % what)
            if not unchanged(arr, model):
                return rec.fail(case, "%s: the input array was modified by a rejected request" % what)
            return rec.ok(case, outcome="add:rejected(existing name):%s" % errname(err), nontrivial=True)
        if err is not None:
            return rec.fail(case, "%s: raised %s: %s" % (what, errname(err), err))
        exp = list(model)
        for i, (n, b, s) in enumerate(add):
            dat = np.zeros(shape + tuple(s), dtype=b)
            if defaults is not None:
                val = defaults[i] if isinstance(defaults, list) else defaults
                dat[...] = np.array(val, dtype=np.dtype(b))
            exp.append((n, b, tuple(s), dat))
        msg = verify(out, shape, exp)
        if msg:
            return rec.fail(case, "%s: %s" % (what, msg))
        if out is arr or (arr.size and np.shares_memory(out, arr)):
            return rec.fail(case, "%s: the result is not a new array (shares memory with the input)" % what)
        if not unchanged(arr, model):
            return rec.fail(case, "%s: the input array was modified" % what)
        oc = "add:%d-new:%s" % (len(add), "zero" if defaults is None else
                                "defaults-list" if isinstance(defaults, list) else "default-bare")
        rec.ok(case, outcome=oc, nontrivial=True)

    def expand_add(u):
        fields, shape = u
        names = [f[0] for f in fields]
        for add, as_dtype, dvs in ADDS:
            for dv in dvs:
                yield ("add", fields, shape, cseed, add, as_dtype, dv)
        # clashing names: first / last existing name, alone, before or after a fresh name
        old_first = (names[0], "<f8", ())
        old_last = (names[-1], "<i4", (2,))
        fresh = ("n", "<U4", ())
        for add in ((old_first,), (fresh, old_last), (old_last, fresh)):
            for as_dtype in (False, True):
                for dv in (None, [1] * len(add)):
                    yield ("add", fields, shape, cseed, add, as_dtype, dv)

    ctx.lattice("add", base_units(F7, KQ, ctx.pick(2, 4)) + swapped_units, one_add, expand=expand_add,
                bounds=dict(alphabet=F7, max_fields=KQ, swapped_alphabet=FSWAP, max_fields_swapped=KSW, descriptors=[a[0] for a in ADDS],
                            clashes=["first name", "fresh+last name", "last name+fresh"]))

    # ======================================================================
    # part 3: combine_fields
    def one_combine(case, rec):
        _, members, cs, cont = case
        arrs = []
        models = []
        for pos, (pi, shape) in enumerate(members):
            a, m = build(POOL[pi], shape, cs, salt=pos)
            arrs.append(a)
            models.append(m)
        allnames = [m[0] for mod in models for m in mod]
        shapes = [tuple(s) for _, s in members]
        dim = DIMWORD[len(shapes[0])] if shapes else "no"
        what = "combine_fields of %d arrays, %s inputs" % (len(members), dim)
        if not members:
            why = "combines no array"
        elif len(set(shapes)) > 1:
            why = "combines arrays of different length"
        elif len(set(allnames)) < len(allnames):
            why = "combines arrays with a shared name"
        else:
            why = None
        try:
            out = nu.combine_fields(list(arrs) if cont == "list" else tuple(arrs))
            err = None
        except Exception as e:
            out = None
            err = e
        for a, m in zip(arrs, models):
            if not unchanged(a, m):
                return rec.fail(case, "%s: an input array was modified" % what)
        if why is not None:
            if err is None:
                return rec.fail(case, "%s: a request that %s was accepted" % (what, why))
            return rec.ok(case, outcome="combine:rejected(%s):%s" % (why, errname(err)), nontrivial=True)
        if err is not None:
            return rec.fail(case, "%s: raised %s: %s" % (what, errname(err), err))
        exp = [m for mod in models for m in mod]
        msg = verify(out, shapes[0], exp)
        if msg:
            return rec.fail(case, "%s: %s" % (what, msg))
        if len(arrs) == 1:
            oc = "combine:single:" + ("returns-the-input-itself" if out is arrs[0] else "new-array")
            return rec.ok(case, outcome=oc, nontrivial=False)
        for a in arrs:
            if out is a or (a.size and np.shares_memory(out, a)):
                return rec.fail(case, "%s: the result is not a new array (shares memory with an input)" % what)
        rec.ok(case, outcome="combine:%d-arrays" % len(arrs), nontrivial=True)

    COMB_SHAPES = MAIN_SHAPES + SMALL_SHAPES
    KC = 4
    units_c = [("ok", shape, first) for shape in COMB_SHAPES for first in range(NDISJOINT)]
    units_c += [("clash", shape, None) for shape in COMB_SHAPES]
    units_c += [("length", None, None), ("empty", None, None)]
    LENGTH_PAIRS = [((3,), (4,)), ((3,), (2,)), ((3,), (1,)), ((3,), (0,)), ((1,), (2,)), ((0,), (1,)),
                    ((2, 2), (3, 2)), ((2, 2), (2, 3)), ((2, 2), (1, 2))]

    def expand_combine(u):
        kind, shape, first = u
        if kind == "ok":
            rest = [i for i in range(NDISJOINT) if i != first]
            for k in range(0, KC):
                for tail in itertools.permutations(rest, k):
                    for cont in ("list", "tuple"):
                        yield ("combine", tuple((i, shape) for i in (first,) + tail), cseed, cont)
        elif kind == "clash":
            npool = len(POOL)
            for k in (2, 3, 4):
                for idx in itertools.product(range(npool), repeat=k) if k == 2 else \
                        itertools.permutations(range(npool), k):
                    nm = [f[0] for i in idx for f in POOL[i]]
                    if len(set(nm)) == len(nm):
                        continue
                    if k == 4 and idx[0] > 1:
                        continue
                    yield ("combine", tuple((i, shape) for i in idx), cseed, "list")
        elif kind == "length":
            for common, odd in LENGTH_PAIRS:
                for a, b in ((common, odd), (odd, common)):
                    for k in (2, 3, 4):
                        for pos in range(k):
                            yield ("combine", tuple((i, b if i == pos else a) for i in range(k)), cseed, "list")
        else:
            yield ("combine", (), cseed, "list")
            yield ("combine", (), cseed, "tuple")

    ctx.lattice("combine", units_c, one_combine, expand=expand_combine,
                bounds=dict(pool=POOL, disjoint=NDISJOINT, max_arrays=KC, shapes=COMB_SHAPES,
                            length_pairs=LENGTH_PAIRS, containers=["list", "tuple (disjoint selections)"]))

    # ======================================================================
    # part 4: copy_fields(arr1, arr2)
    def one_copy(case, rec):
        _, fields1, shape, cs, fields2 = case
        shape = tuple(shape)
        a1, m1 = build(fields1, shape, cs, salt=0)
        a2, m2 = build(fields2, shape, cs, salt=1)
        src = dict((m[0], m) for m in m1)
        dim = DIMWORD[len(shape)]
        what = "copy_fields (%s arrays)" % dim
        try:
            r = nu.copy_fields(a1, a2)
        except Exception as e:
            return rec.fail(case, "%s: raised %s: %s" % (what, errname(e), e))
        if r is not None:
            return rec.fail(case, "%s: returned %s" % (what, type(r).__name__))
        exp = []
        ncommon = 0
        nconv = 0
        for (n, b, s, d) in m2:
            if n in src:
                ncommon += 1
                if np.dtype(src[n][1]).str != np.dtype(b).str:
                    nconv += 1
                d = src[n][3]            # array_equal compares values across the two types
            exp.append((n, b, s, d))
        msg = verify(a2, shape, exp)
        if msg:
            return rec.fail(case, "%s: target after the copy: %s" % (what, msg))
        if not unchanged(a1, m1):
            return rec.fail(case, "%s: the source array was modified" % what)
        oc = "copy:%s%s" % ("none-common" if ncommon == 0 else "all-common" if ncommon == len(m2) else "some-common",
                            "+converted" if nconv else "")
        rec.ok(case, outcome=oc, nontrivial=ncommon > 0)

    K1 = 3
    K2 = ctx.pick(2, 3)
    TNAMES = [f[0] for f in F] + [FOREIGN[0]]

    def expand_copy(u):
        fields1, shape = u
        for k in range(1, K2 + 1):
            for tn in itertools.permutations(TNAMES, k):
                variants = []
                for n in tn:
                    if n == FOREIGN[0]:
                        variants.append([FOREIGN])
                    else:
                        variants.append([[f for f in F if f[0] == n][0], WIDE[n]])
                for fields2 in itertools.product(*variants):
                    yield ("copy", fields1, shape, cseed, tuple(fields2))

    ctx.lattice("copy", base_units(F, K1, 1), one_copy, expand=expand_copy,
                bounds=dict(source_fields=F, max_source_fields=K1, target_names=TNAMES,
                            max_target_fields=K2, wide=sorted(WIDE.values())))

    # ======================================================================
    # part 5: copy_fields_by_name(arr, names, vals)
    def one_byname(case, rec):
        _, fields, shape, cs, sel, cont, vkind = case
        shape = tuple(shape)
        arr, model = build(fields, shape, cs)
        bym = dict((m[0], m) for m in model)
        dim = DIMWORD[len(shape)]
        what = "copy_fields_by_name, %s names (%s values, %s array)" % (cont, vkind, dim)
        vals = []
        newdat = {}
        for n in sel:
            _, b, s, d = bym[n]
            if vkind == "array":
                v = content(n, b, shape + s, cs, salt=3)
                newdat[n] = v
                vals.append(v.copy())
            else:
                v = scalar_value(b)
                nd = np.zeros(shape + s, dtype=b)
                nd[...] = np.array(v, dtype=np.dtype(b))
                newdat[n] = nd
                vals.append(v)
        if vkind == "bare":
            vals = vals[0]
        try:
            r = nu.copy_fields_by_name(arr, mkarg(sel, cont), vals)
        except Exception as e:
            return rec.fail(case, "%s: raised %s: %s" % (what, errname(e), e))
        if r is not None:
            return rec.fail(case, "%s: returned %s" % (what, type(r).__name__))
        exp = [(n, b, s, newdat.get(n, d)) for (n, b, s, d) in model]
        msg = verify(arr, shape, exp)
        if msg:
            return rec.fail(case, "%s: array after the copy: %s" % (what, msg))
        rec.ok(case, outcome="by-name:%s:%s:%s" % (cont, vkind, "all" if len(sel) == len(fields) else "some"),
               nontrivial=True)

    def expand_byname(u):
        fields, shape = u
        names = [f[0] for f in fields]
        for sel in selections(names, NSEL):
            for cont in ("scalar", "list", "tuple", "array"):
                if cont == "scalar" and len(sel) != 1:
                    continue
                for vkind in ("scalar", "array"):
                    yield ("byname", fields, shape, cseed, sel, cont, vkind)
                if len(sel) == 1:
                    yield ("byname", fields, shape, cseed, sel, cont, "bare")

    ctx.lattice("copy-by-name", base_units(F7, 3, ctx.pick(1, 3)), one_byname, expand=expand_byname,
                bounds=dict(alphabet=F7, max_fields=3, max_names=NSEL,
                            containers=["scalar", "list", "tuple", "array"],
                            values=["scalar per name", "full array per name", "bare scalar"]))

    # ======================================================================
    # part 6: compare_arrays
    def one_compare(case, rec):
        _, fields, shape, cs, variant, perturb, ignore_missing = case
        shape = tuple(shape)
        a1, m1 = build(fields, shape, cs)
        f2 = list(fields)
        if variant == "reversed":
            f2 = f2[::-1]
        elif variant == "extra-in-second":
            f2 = f2 + [FOREIGN]
        elif variant == "missing-in-second":
            f2 = f2[1:]
        elif variant == "sub-array-shape":
            f2 = [(n, b, tuple(s[:-1]) + (s[-1] + 1,)) if (len(s) and n == perturb_name(fields)) else (n, b, s)
                  for (n, b, s) in f2]
        a2 = np.zeros(shape, dtype=np_descr(f2))
        names2 = [f[0] for f in f2]
        for (n, b, s, d) in m1:
            if n in names2 and a2[n].shape == d.shape:
                a2[n] = d
        if FOREIGN[0] in names2:
            a2[FOREIGN[0]] = 1.5
        nan_first = False
        if perturb is not None and len(perturb) == 3:
            # the difference is "NaN in the FIRST array where the second holds a number" (and the reverse)
            fi, ei, which = perturb
            n, b, s, d = m1[fi]
            if which == "nan-in-first":
                flat = a1[n].reshape(-1).copy()
                flat[ei] = np.nan
                a1[n] = flat.reshape(a1[n].shape)
                nan_first = True
            else:
                flat = a2[n].reshape(-1).copy()
                flat[ei] = np.nan
                a2[n] = flat.reshape(a2[n].shape)
            perturb = (fi, ei, which)
        elif perturb is not None:
            fi, ei = perturb
            n, b, s, d = m1[fi]
            d2 = d.copy().reshape(-1)
            k = d2.dtype.kind
            if k == "S":
                d2[ei] = b"Q" if d2[ei] != b"Q" else b"R"
            elif k == "U":
                d2[ei] = "Q" if d2[ei] != "Q" else "R"
            elif k == "b":
                d2[ei] = not d2[ei]
            else:
                d2[ei] = d2[ei] + 1
            a2[n] = d2.reshape(d.shape)
        names_equal = set(names2) == set(f[0] for f in fields)
        expect = perturb is None and variant != "sub-array-shape" and (ignore_missing or names_equal)
        try:
            got = nu.compare_arrays(a1, a2, ignore_missing=ignore_missing)
        except Exception as e:
            return rec.fail(case, "compare_arrays (%s, %s): raised %s: %s"
                            % (variant, DIMWORD[len(shape)], errname(e), e))
        if bool(got) is not expect or not isinstance(got, (bool, np.bool_)):
            return rec.fail(case, "compare_arrays (%s, %s): returned %r, field-by-field answer is %r"
                            % (variant, DIMWORD[len(shape)], got, expect))
        if not nan_first and not unchanged(a1, m1):
            return rec.fail(case, "compare_arrays: the first array was modified")
        rec.ok(case, outcome="compare:%s:%s:%s" % (variant, "perturbed" if perturb else "equal-data", expect),
               nontrivial=(perturb is not None or variant != "same"))

    def perturb_name(fields):
        for (n, b, s) in fields:
            if len(s):
                return n
        return None

    def expand_compare(u):
        fields, shape = u
        size = 1
        for d in shape:
            size *= d
        for variant in ("same", "reversed", "extra-in-second", "missing-in-second", "sub-array-shape"):
            if variant == "missing-in-second" and len(fields) < 2:
                continue
            if variant == "sub-array-shape" and perturb_name(fields) is None:
                continue
            perturbs = [None]
            for fi, (n, b, s) in enumerate(fields):
                if variant == "missing-in-second" and fi == 0:
                    continue
                if variant == "sub-array-shape" and n == perturb_name(fields):
                    continue
                ne = size
                for d in s:
                    ne *= d
                perturbs.extend((fi, ei) for ei in range(ne))
                if np.dtype(b).kind in "fc" and variant in ("same", "reversed") and ne > 0:
                    perturbs.extend((fi, 0, w) for w in ("nan-in-first", "nan-in-second"))
            for p in perturbs:
                for im in (True, False):
                    yield ("compare", fields, shape, cseed, variant, p, im)

    ctx.lattice("compare", base_units(F7, ctx.pick(2, 3), ctx.pick(2, 3)), one_compare, wstrict=True, expand=expand_compare,
                bounds=dict(alphabet=F7, max_fields=ctx.pick(2, 3),
                            variants=["same", "reversed", "extra-in-second", "missing-in-second", "sub-array-shape"],
                            perturbation="every single element of every compared field"))

    # ======================================================================
    # part 7 (E2): chains of operations, composite checked against the model
    MENU = (
        ("extract", "first2", "list", True),
        ("extract", "last", "scalar", True),
        ("extract", "last+missing", "tuple", False),
        ("remove", "first", "scalar"),
        ("remove", "last2", "list"),
        ("reorder", "reversed", "array", True),
        ("reorder", "last", "scalar", True),
        ("add", (("n", "<U4", ()),), None),
        ("add", (("q", ">f4", ()), ("w", "<i8", (2,))), [2.5, [3, 4]]),
        ("combine", "right", (("c1", "<f4", ()), ("c2", "S2", (2,)))),
        ("combine", "left", (("d1", ">u2", ()),)),
        ("copy", "first+last"),
    )

    def resolve(selname, names):
        return {"first2": names[:2], "last": names[-1:], "last+missing": [names[-1], MISSING],
                "first": names[:1], "last2": names[-2:], "reversed": names[::-1]}[selname]

    def execute(hist, rec):
        root = hist[0]
        _, fields, shape, cs = root
        shape = tuple(shape)
        cur, model = build(fields, shape, cs)
        kept = [[cur, cur.tobytes(), "the base array"]]      # every array ever produced + snapshot
        for step, ev in enumerate(hist[1:], 1):
            names = [m[0] for m in model]
            bym = dict((m[0], m) for m in model)
            op = ev[0]
            what = "chain step %s (%s)" % (op, ev[1] if isinstance(ev[1], str) else "fields")
            inplace = False
            if op in ("extract", "reorder", "remove"):
                sel = resolve(ev[1], names)
                arg = mkarg(sel, ev[2])
                if op == "extract":
                    exp, why = m_extract(names, sel, ev[3])
                    fn = lambda: nu.extract_fields(cur, arg, strict=ev[3])  # noqa: E731
                elif op == "reorder":
                    exp, why = m_reorder(names, sel, ev[3])
                    fn = lambda: nu.reorder_fields(cur, arg, strict=ev[3])  # noqa: E731
                else:
                    exp, why = m_remove(names, sel)
                    fn = lambda: nu.remove_fields(cur, arg)  # noqa: E731
                newmodel = None if exp is REJECT else [bym[n] for n in exp]
            elif op == "add":
                add, dv = ev[1], ev[2]
                if any(a[0] in names for a in add):
                    newmodel, why = None, "adds an existing name"
                else:
                    newmodel = list(model)
                    for i, (n, b, s) in enumerate(add):
                        dat = np.zeros(shape + tuple(s), dtype=b)
                        if dv is not None:
                            dat[...] = np.array(dv[i], dtype=np.dtype(b))
                        newmodel.append((n, b, tuple(s), dat))
                fn = lambda: nu.add_fields(cur, np_descr(add), defaults=dv)  # noqa: E731
            elif op == "combine":
                other, omodel = build(ev[2], shape, cs, salt=10 + step)
                if any(m[0] in names for m in omodel):
                    newmodel, why = None, "combines arrays with a shared name"
                elif ev[1] == "right":
                    newmodel = list(model) + omodel
                else:
                    newmodel = omodel + list(model)
                lst = [cur, other] if ev[1] == "right" else [other, cur]
                fn = lambda: nu.combine_fields(lst)  # noqa: E731
            elif op == "copy":
                srcf = [model[0][:3], FOREIGN_CHAIN] + ([model[-1][:3]] if len(model) > 1 else [])
                src, smodel = build(srcf, shape, cs, salt=20 + step)
                sm = dict((m[0], m) for m in smodel)
                newmodel = [sm[m[0]] if m[0] in sm else m for m in model]
                inplace = True
                fn = lambda: nu.copy_fields(src, cur)  # noqa: E731
            else:
                raise ValueError(op)
            try:
                out = fn()
                err = None
            except Exception as e:
                out = None
                err = e
            if newmodel is None:
                if err is None:
                    rec.fail(hist, "%s: a request that %s was accepted" % (what, why))
                    return None
                rec.count("rejected:" + why)
            else:
                if err is not None:
                    rec.fail(hist, "%s: raised %s: %s" % (what, errname(err), err))
                    return None
                if inplace:
                    out = cur
                msg = verify(out, shape, newmodel)
                if msg:
                    rec.fail(hist, "%s: composite result: %s" % (what, msg))
                    return None
                if inplace:
                    kept[-1][1] = cur.tobytes()
                else:
                    kept.append([out, out.tobytes(), "the result of step %d" % step])
                    cur = out
                model = newmodel
            # history-wide oracle: nothing produced earlier has changed
            for a, snap, label in kept:
                if a.tobytes() != snap:
                    rec.fail(hist, "%s: an array produced earlier was modified (%s)" % (what, label))
                    return None
        return fingerprint(cur), MENU

    FOREIGN_CHAIN = ("zz9", "<f4", ())
    roots = [(("base", fields, shape, cseed),)
             for (fields, shape) in base_units(F, 2, 0)]
    ctx.histories("chains", roots, execute, depth=ctx.pick(3, 4), nodedup_depth=ctx.pick(2, 3),
                  bounds=dict(menu=[repr(m) for m in MENU], operations=ctx.pick(2, 3),
                              root_fields=F, max_root_fields=2, shapes=MAIN_SHAPES))

    # ------------------------------------------------------------ call sequences
    # sequences of field-function calls in one process: two arrays with the SAME field names but different
    # types/shapes/byte order, and name lists that are reused from call to call (mc/worlds.py call_sequences):
    # a layout cache keyed by names only, or a function that edits the caller's list of names, shows up as a
    # call whose result depends on the earlier calls
    from mc.worlds import call_sequences

    def seq_pool():
        a = np.zeros(3, dtype=[("x", ">f8"), ("v", "<i2", (2,)), ("s", "S3"), ("b", "i1")])
        a["x"] = [1.5, -2.0, 3.25]
        a["v"] = [[1, 2], [3, 4], [5, 6]]
        a["s"] = [b"a", b"", b"abc"]
        a["b"] = [1, -2, 3]
        b = np.zeros(3, dtype=[("x", "<i4"), ("v", "<f4", (3,)), ("s", "S5"), ("b", ">u2")])
        b["x"] = [7, 8, 9]
        b["v"] = np.arange(9).reshape(3, 3) + 0.5
        b["s"] = [b"hello", b"w", b""]
        b["b"] = [10, 20, 65535]
        return dict(a=a, b=b, names_sx=["s", "x"], names_vb=["v", "b"], names_all=["x", "v", "s", "b"])

    SEQ_CALLS = [(fn, arr, nm) for fn in ("extract", "remove", "reorder") for arr in ("a", "b")
                 for nm in ("names_sx", "names_vb")] + [("extract", "a", "names_all"), ("split", "a", "names_sx"),
                                                       ("split", "b", "names_sx"), ("add", "a", None), ("add", "b", None)]

    def seq_run(c, pool):
        fn, arr, nm = c
        x = pool[arr]
        if fn == "extract":
            r = nu.extract_fields(x, pool[nm])
        elif fn == "remove":
            r = nu.remove_fields(x, pool[nm])
        elif fn == "reorder":
            r = nu.reorder_fields(x, pool[nm])
        elif fn == "split":
            return [np.asarray(v) for v in nu.split_fields(x, fields=pool[nm])]
        else:
            r = nu.add_fields(x, [("n", "f4"), ("t", "S2")])
        return [r, np.array(repr(r.dtype.descr))]

    call_sequences(ctx, "call-sequences", seq_pool, SEQ_CALLS, seq_run, lambda: [nu], depth=ctx.pick(3, 3), nodedup_depth=3)

    # ------------------------------------------------------------ long arrays (block-wise copies)
    # the field functions on arrays whose length sits on / next to decimal and binary marks: an implementation that
    # copies in blocks loses rows for particular lengths only
    def one_longfields(case, rec):
        op, n = case
        a = np.zeros(n, dtype=[("x", ">f8"), ("v", "<i2", (2,)), ("s", "S3"), ("b", "i1")])
        idx = np.arange(n)
        a["x"] = idx * 0.5 + 0.25
        a["v"] = np.stack([idx % 30000, -(idx % 29999)], axis=1)
        a["s"] = np.array([b"a", b"bc", b"def"])[idx % 3]
        a["b"] = (idx % 251) - 125
        try:
            if op == "extract":
                out, names = nu.extract_fields(a, ["s", "x"]), ["x", "s"]
            elif op == "remove":
                out, names = nu.remove_fields(a, "v"), ["x", "s", "b"]
            elif op == "reorder":
                out, names = nu.reorder_fields(a, ["b", "s"]), ["b", "s", "x", "v"]
            elif op == "add":
                out, names = nu.add_fields(a, [("n", "f4")]), ["x", "v", "s", "b", "n"]
            else:
                b = np.zeros(n, dtype=[("q", "<i4")])
                b["q"] = idx
                out, names = nu.combine_fields([a, b]), ["x", "v", "s", "b", "q"]
        except Exception as e:
            return rec.fail(case, "%s on %d rows raised %s: %s" % (op, n, type(e).__name__, e))
        if list(out.dtype.names) != names or out.shape != (n,):
            return rec.fail(case, "%s on %d rows: fields %r shape %r" % (op, n, out.dtype.names, out.shape))
        for nm in names:
            if nm in a.dtype.names and not np.array_equal(out[nm], a[nm]):
                bad = np.nonzero(np.atleast_1d((out[nm] != a[nm]).reshape(n, -1).any(axis=1)))[0]
                return rec.fail(case, "%s on %d rows: field %r differs from the input in rows %r" % (op, n, nm, bad[:5].tolist()))
        rec.ok(case, outcome="long:%s" % op, nontrivial=True)

    from mc.longarr import marks as _marks
    # universal marks (mc/longarr.py): multiples of as many block sizes as possible, each with mark-1, mark, mark+1
    from mc.longarr import harvest_lengths
    _hl, _hb = harvest_lengths([nu])
    ctx.notes.append("long-arrays: integer constants harvested from esutil.numpy_util: %r" % (_hb,))
    LONGN = sorted({4096, 65537, 99999, 100000, 100001} | {m + d for m in _marks(ctx) for d in (-1, 0, 1)} | {n for n in _hl if n >= 1000})
    lfunits = [(op, n) for op in ("extract", "remove", "reorder", "add", "combine")
               for n in LONGN]
    ctx.lattice("long-arrays", lfunits, one_longfields, bounds=dict(lengths=LONGN))
