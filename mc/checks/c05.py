"""C05 - histogram counts and reverse indices partition the binned data (E1 + E2)."""
import itertools

import numpy as np

RULE = (
    "full product: data = every tuple of length <= L over the 9-value alphabet V "
    "(f8) and over its integer/half-integer members (i8,i4,f4) x binning "
    "(and, on a reduced data set, as 14 memory layouts: strided / negative-stride views, record-array field, 2-d column, big-endian, list, read-only, small integer types) x {binsize .1,.3,.5,1,2.5 | nbin 1,2,3,5} x min {None,-1,0,.5,1} x max {None,0,1,2,3.7} "
    "(max >= min) x entry {histogram, Binner.dohist}; each case runs BOTH engines "
    "(compiled, pure python) and compares them with each other and with the "
    "reference.  non-trivial = the data contain a tie, a value exactly on a bin "
    "edge, or a datum that is not counted (outside limits / invalid bin).  E2: every sequence of <=3 (4) "
    "dohist calls with changing binning/limits on ONE Binner object, last result vs the reference for that call alone."
)
ASSUMPTIONS = [
    "reference model: bin index floor((x-min)/binsize) evaluated in float64 exactly as the statement writes it",
    "data alphabets are finite; arrays longer than the stated length bound are covered only by the 2-symbol pattern family",
]

V = [0.0, 0.5, 1.0, 1.5, 2.0, 3.7, -1.0, 0.1, 0.30000000000000004]
VI = [0, 1, 2, -1, 3]
VH = [0.0, 0.5, 1.0, 1.5, -1.0, 2.0]
BINNING = [("binsize", 0.5), ("binsize", 1.0), ("binsize", 0.3), ("binsize", 2.5),
           ("binsize", 0.1), ("nbin", 1), ("nbin", 2), ("nbin", 3), ("nbin", 5)]
MINS = [None, -1.0, 0.0, 0.5, 1.0]
MAXS = [None, 0.0, 1.0, 2.0, 3.7]


def reference(data, bkind, bval, mn, mx):
    """(hist, members per bin) or None when no datum is within the limits"""
    x = np.asarray(data).astype("f8")
    xmin = x.min() if mn is None else mn
    xmax = x.max() if mx is None else mx
    inlim = (x >= xmin) & (x <= xmax)
    if not inlim.any():
        return None
    if bkind == "nbin":
        nb = bval
        bs = float(xmax - xmin) / nb
    else:
        bs = bval
        nb = int(np.int64((xmax - xmin) / bs)) + 1
    with np.errstate(all="ignore"):
        q = (x - xmin) / bs
    b = np.where(np.isfinite(q), np.floor(q), -1).astype("i8")
    counted = inlim & (b >= 0) & (b < nb)
    order = np.argsort(x, kind="stable")
    members = [[] for _ in range(nb)]
    for j in order:
        if counted[j]:
            members[b[j]].append(int(j))
    hist = np.array([len(m) for m in members], dtype="i8")
    edge = bool(np.any(np.isfinite(q) & (q == np.floor(q)) & (q > 0)))
    return hist, members, int(counted.sum()), int(inlim.sum()), edge


def main(ctx):
    from esutil import stat
    from esutil.stat import util as su

    def call(entry, arr, bkind, bval, mn, mx, rev=True):
        kw = dict(min=mn, max=mx, rev=rev)
        kw[bkind] = bval
        if entry == "histogram":
            r = stat.histogram(arr, **kw)
            return r if rev else (r, None)
        b = stat.Binner(arr)
        b.dohist(calc_stats=False, **kw)
        return b["hist"], (b["rev"] if rev else None)

    def build_array(dt, data):
        """the data in the requested dtype / memory layout ('f8:strided' etc.)"""
        base, _, lay = dt.partition(":")
        a = np.array(data, dtype=base)
        if not lay:
            return a
        if lay == "strided":
            big = np.full(a.size * 3 + 1, 55.5, dtype=base)
            big[1::3] = a
            return big[1::3]
        if lay == "neg":
            big = np.full(a.size * 2, 55.5, dtype=base)
            big[::2] = a[::-1]
            return big[::2][::-1]
        if lay == "field":
            r = np.zeros(a.size, dtype=[("pad", "i2"), ("x", base), ("tail", "S3")])
            r["pad"] = 77
            r["x"] = a
            return r["x"]
        if lay == "col":
            m = np.full((a.size, 3), 55.5, dtype=base)
            m[:, 1] = a
            return m[:, 1]
        if lay == "list":
            return a.tolist()
        if lay == "readonly":
            a.flags.writeable = False
            return a
        raise ValueError(dt)

    def one(case, rec):
        dt, data, bkind, bval, mn, mx, entry = case
        arr = build_array(dt, data)
        ref = reference(arr, bkind, bval, mn, mx)
        res = {}
        for eng in (True, False):
            su.have_chist = eng
            try:
                res[eng] = call(entry, arr, bkind, bval, mn, mx)
            except ValueError as e:
                res[eng] = "ValueError"
            except Exception as e:  # anything else is never expected
                res[eng] = "%s: %s" % (type(e).__name__, e)
            finally:
                su.have_chist = True
        a, b = res[True], res[False]
        ncall = 2
        if isinstance(a, str) or isinstance(b, str):
            if a != b:
                return rec.fail(case, "engines disagree: compiled=%r python=%r" % (a, b))
            if ref is not None or a != "ValueError":
                return rec.fail(case, "unexpected error %r (reference %s data within limits)"
                                % (a, "has" if ref is not None else "has no"))
            return rec.ok(case, outcome="no-data-in-limits:ValueError", nontrivial=True, calls=ncall)
        if ref is None:
            return rec.fail(case, "no datum within [min,max] but no error was raised: %r" % (a,))
        if not (np.array_equal(a[0], b[0]) and np.array_equal(a[1], b[1])
                and a[0].dtype == b[0].dtype and a[1].dtype == b[1].dtype):
            return rec.fail(case, "engines disagree: compiled=%r python=%r" % (a, b))
        hist, members, ncounted, ninlim, edge = ref
        h, rev = a
        if h.shape != hist.shape or not np.array_equal(h, hist):
            return rec.fail(case, "hist=%r expected %r" % (h.tolist(), hist.tolist()))
        if int(h.sum()) != ncounted:
            return rec.fail(case, "hist.sum()=%d, counted data=%d" % (h.sum(), ncounted))
        nb = h.size
        if rev.size < nb + 1:
            return rec.fail(case, "rev too short: %r" % (rev.tolist(),))
        for i in range(nb):
            lo, hi = int(rev[i]), int(rev[i + 1])
            if not (nb + 1 <= lo <= hi <= rev.size):
                return rec.fail(case, "rev offsets out of range/order at bin %d: rev=%r" % (i, rev.tolist()))
            sl = rev[lo:hi].tolist()
            if sl != members[i]:
                return rec.fail(case, "bin %d: rev slice %r, members (value order, stable) %r; hist=%r rev=%r"
                                % (i, sl, members[i], h.tolist(), rev.tolist()))
        # rev=False gives the same counts
        su.have_chist = True
        h2, _ = call(entry, arr, bkind, bval, mn, mx, rev=False)
        ncall += 1
        if not np.array_equal(h2, hist):
            return rec.fail(case, "rev=False hist=%r differs from %r" % (h2.tolist(), hist.tolist()))
        # weights sent and reverse indices NOT asked for: the result still carries 'rev' (the weighted sums are made
        # from it); whatever is returned under that name must be the same partition
        try:
            kw = dict(min=mn, max=mx, weights=np.ones(len(data)))
            kw[bkind] = bval
            if entry == "histogram":
                rw = stat.histogram(arr, **kw)
            else:
                rw = stat.Binner(arr, weights=np.ones(len(data)))
                rw.dohist(**{k: v for k, v in kw.items() if k != "weights"})
            ncall += 1
            hw = rw["hist"]
            revw = rw["rev"] if "rev" in (rw.keys() if hasattr(rw, "keys") else rw.dtype.names or ()) else None
        except Exception as e:
            return rec.fail(case, "with weights (rev not requested) raised %s: %s" % (type(e).__name__, e))
        if not np.array_equal(hw, hist):
            return rec.fail(case, "with weights: hist=%r differs from %r" % (np.asarray(hw).tolist(), hist.tolist()))
        if revw is not None:
            revw = np.asarray(revw)
            for i in range(nb):
                lo, hi = int(revw[i]), int(revw[i + 1])
                if not (nb + 1 <= lo <= hi <= revw.size) or revw[lo:hi].tolist() != members[i]:
                    return rec.fail(case, "with weights (rev not requested): bin %d of the returned rev holds %r, members (value order, stable) %r; rev=%r"
                                    % (i, revw[lo:hi].tolist() if nb + 1 <= lo <= hi <= revw.size else "bad offsets", members[i], revw.tolist()))
            if "whist" in (rw.keys() if hasattr(rw, "keys") else ()):
                if not np.array_equal(np.asarray(rw["whist"]), hist.astype("f8")):
                    return rec.fail(case, "with unit weights: whist=%r, hist=%r" % (np.asarray(rw["whist"]).tolist(), hist.tolist()))
        ties = len(set(data)) < len(data)
        if ncounted < len(data):
            if ninlim < len(data):
                oc = "some-outside-limits"
            else:
                oc = "in-limits-but-invalid-bin"
        else:
            oc = "all-counted"
        if (hist == 0).any():
            oc += "+empty-bins"
        rec.ok(case, outcome=oc, nontrivial=bool(ties or edge or ncounted < len(data)), calls=ncall)

    # ---------------------------------------------------------------- units
    L = ctx.pick(3, 5)
    LI = ctx.pick(3, 4)
    units = []
    for (bkind, bval) in BINNING:
        for mn in MINS:
            for mx in MAXS:
                if mn is not None and mx is not None and mx < mn:
                    continue
                for entry in ("histogram", "binner"):
                    for n in range(1, L + 1):
                        if n >= 5:
                            # split the largest products for load balance
                            for v0 in V:
                                units.append(("f8", V, n, bkind, bval, mn, mx, entry, v0))
                        else:
                            units.append(("f8", V, n, bkind, bval, mn, mx, entry, None))
                    for n in range(1, LI + 1):
                        units.append(("i8", VI, n, bkind, bval, mn, mx, entry, None))
                        units.append(("i4", VI, n, bkind, bval, mn, mx, entry, None))
                        units.append(("f4", VH, n, bkind, bval, mn, mx, entry, None))

    def expand(u):
        dt, alpha, n, bkind, bval, mn, mx, entry, v0 = u
        if v0 is None:
            for data in itertools.product(alpha, repeat=n):
                yield (dt, data, bkind, bval, mn, mx, entry)
        else:
            for data in itertools.product(alpha, repeat=n - 1):
                yield (dt, (v0,) + data, bkind, bval, mn, mx, entry)

    ctx.lattice("tuples", units, one, expand=expand,
                bounds=dict(max_len_f8=L, max_len_other=LI, alphabet=V, binning=BINNING,
                            mins=MINS, maxs=MAXS, engines=["compiled", "python"],
                            entries=["histogram", "Binner.dohist"]))

    # memory layouts of the input: the compiled engine works on raw buffers, so the same data is passed as a
    # strided view, a negative-stride view, a field of a record array, a column of a 2-d array, big-endian,
    # a list and a read-only array (the reference always sees the values)
    LAYOUTS = ["f8:strided", "f8:neg", "f8:field", "f8:col", ">f8", ">f8:strided", "f8:list", "f8:readonly", "f4:strided",
               "i4:field", ">i4", "i2", "u1", "i8:col"]
    LV = [(0.0, 0.5, 1.0, 1.5, 2.0, 3.7, 1.0, 3.0), (3.0, 1.0, 2.0), (1.0,), (2.0, 0.0, 2.0, 1.0, 0.0, 3.0, 3.0, 1.0, 2.0, 0.0)]
    lunits = []
    for lay in LAYOUTS:
        for (bkind, bval) in BINNING:
            lunits.append((lay, bkind, bval))

    def expand_l(u):
        lay, bkind, bval = u
        integral = lay.split(":")[0].lstrip("<>")[0] in "iu"
        for data in LV:
            if integral:
                data = tuple(float(int(v)) for v in data)
            for mn, mx in ((None, None), (0.5, None), (None, 2.0), (1.0, 3.0)):
                for entry in ("histogram", "binner"):
                    yield (lay, data, bkind, bval, mn, mx, entry)

    ctx.lattice("input-layouts", lunits, one, expand=expand_l, bounds=dict(layouts=LAYOUTS, data=[list(v) for v in LV]))

    # small integer types holding values whose RANGE does not fit the type (int8 in [-100,100], uint8 with a negative
    # lower limit, ...): the bin arithmetic must not be done in the narrow type
    XUNITS = []
    for dt, data, mins in (("i1", (-100.0, 100.0, 0.0, 50.0, -100.0), (None, -128.0, -10.0)),
                           ("u1", (0.0, 200.0, 10.0, 255.0), (None, -10.0, 5.0)),
                           ("i2", (-30000.0, 30000.0, 5.0), (None, -40000.0)),
                           ("u2", (0.0, 65535.0, 40000.0), (None, -1.0)),
                           ("i4", (-2000000000.0, 2000000000.0, 7.0), (None,)),
                           ("i8", (-9.0e18, 9.0e18, 1.0), (None,))):
        for mn in mins:
            for (bk, bv) in (("nbin", 1), ("nbin", 2), ("nbin", 4), ("nbin", 5)) + ((("binsize", 2.5), ("binsize", 50.0)) if dt in ("i1", "u1") else ()):
                for entry in ("histogram", "binner"):
                    XUNITS.append((dt, data, bk, bv, mn, None, entry))
    ctx.lattice("integer-ranges", XUNITS, one, bounds=dict(types=["i1", "u1", "i2", "u2", "i4", "i8"]))

    # binning parameters given as other numeric TYPES (numpy scalars of narrow types, Python ints): the result must be
    # what the plain float/int of the same value gives
    def one_typed(case, rec):
        data, bkind, bspec, mnspec, mxspec, entry = case

        def val(spec):
            if spec is None:
                return None, None
            t, v = spec
            plain = float(v) if t.startswith("f") or t == "pyfloat" else int(v)
            if t == "pyint":
                return int(v), (float(v) if bkind == "binsize" or True else v)
            if t == "pyfloat":
                return float(v), float(v)
            return np.dtype(t).type(v), plain
        bt, bp = val(bspec)
        mnt, mnp = val(mnspec)
        mxt, mxp = val(mxspec)
        arr = np.array(data, dtype="f8")
        if bkind == "nbin":
            bp = int(bp)
        try:
            ref = call(entry, arr, bkind, bp, mnp, mxp)
        except ValueError:
            ref = "ValueError"
        try:
            got = call(entry, arr, bkind, bt, mnt, mxt)
        except ValueError:
            got = "ValueError"
        except Exception as e:
            return rec.fail(case, "raised %s: %s" % (type(e).__name__, e))
        same = (got == ref) if isinstance(ref, str) or isinstance(got, str) else (
            np.array_equal(got[0], ref[0]) and np.array_equal(got[1], ref[1]))
        if not same:
            return rec.fail(case, "%s=%r min=%r max=%r (typed) gives %r; the plain numbers of the same value give %r"
                            % (bkind, bt, mnt, mxt, got if isinstance(got, str) else [g.tolist() for g in got],
                               ref if isinstance(ref, str) else [g.tolist() for g in ref]))
        rec.ok(case, outcome="typed:%s" % bkind, nontrivial=True, calls=2)

    TB = [("nbin", ("i1", 3)), ("nbin", ("u1", 5)), ("nbin", ("i8", 2)), ("nbin", ("u8", 3)), ("binsize", ("f4", 0.5)), ("binsize", ("pyint", 1)),
          ("binsize", ("i1", 1)), ("binsize", ("u1", 2)), ("binsize", ("f8", 0.3))]
    TL = [None, ("f4", 0.5), ("pyint", 1), ("i1", -1), ("u1", 2), ("i8", 0)]
    tunits = [(LV[0], bk, bs, mn, mx, entry) for (bk, bs) in TB for mn in TL for mx in (None, ("f4", 3.5), ("pyint", 3), ("u1", 3))
              for entry in ("histogram", "binner")]
    ctx.lattice("typed-parameters", tunits, one_typed, bounds=dict(binning=[repr(t) for t in TB], limits=[repr(t) for t in TL]))

    # every bin count 1..64 (nbin) and a ladder of bin sizes on a handful of ranges: whether the maximum (and every datum
    # that sits on an edge) lands in the last bin or beyond it is decided by the rounding of (x-min)/((max-min)/nbin), a
    # coincidence of the particular (range, nbin) pair - about one pair in ten has the quotient rounded below nbin
    SWEEP_DATA = [tuple(float(v) for v in range(-10, 0)), tuple(float(v) for v in range(0, 10)), (0.1, 0.7, 0.3, 1.9, 1.1, 0.5, 1.3),
                  (-3.5, 2.25, 0.0, 7.75, 7.75, -3.5, 1.0), (100.0, 100.3, 100.7, 101.9, 103.3), (1e-3, 5e-3, 9e-3, 7e-3), (0, 3, 7, 10, 4, 9)]

    def expand_sweep(u):
        di, mn, mx = u
        data = SWEEP_DATA[di]
        dt = "i8" if all(isinstance(v, int) for v in data) else "f8"
        for nb in range(1, 65):
            for entry in ("histogram", "binner"):
                yield (dt, data, "nbin", nb, mn, mx, entry)
        span = max(data) - min(data)
        for k in (1, 2, 3, 4, 6, 7, 9, 10, 11, 13):
            yield (dt, data, "binsize", span / k, mn, mx, "histogram")

    swunits = [(di, mn, mx) for di in range(len(SWEEP_DATA)) for (mn, mx) in ((None, None), ("dmin", None), (None, "dmax"))]

    def one_sweep(case, rec):
        dt, data, bkind, bval, mn, mx, entry = case
        mn = min(data) if mn == "dmin" else mn
        mx = max(data) if mx == "dmax" else mx
        return one((dt, data, bkind, bval, mn, mx, entry), rec)

    ctx.lattice("bin-count-sweep", swunits, one_sweep, expand=expand_sweep,
                bounds=dict(data=[list(d) for d in SWEEP_DATA], nbin="1..64", binsize="span/k for k in 1,2,3,4,6,7,9,10,11,13",
                            limits=["none", "min=data minimum", "max=data maximum"]))

    # the float64 neighbourhood (+-3 ulps) of every bin edge min + k*binsize, k = 0..40, for bin sizes that are not
    # dyadic: on which side of an edge a datum falls is decided by one rounded division - both engines and the reference
    # must agree on every one of these data, given singly and all at once
    def expand_edges(u):
        bs, mn = u
        edges = [mn + k * bs for k in range(0, 41)]
        pts = []
        for e in edges:
            v = e
            for j in range(4):
                pts.append(v)
                v = float(np.nextafter(v, np.inf))
            v = e
            for j in range(3):
                v = float(np.nextafter(v, -np.inf))
                pts.append(v)
        pts = [p_ for p_ in dict.fromkeys(pts) if p_ >= mn]
        mx = mn + 40 * bs
        for i in range(0, len(pts), 7):
            yield ("f8", tuple(pts[i:i + 7]), "binsize", bs, mn, mx, "histogram")
        yield ("f8", tuple(pts), "binsize", bs, mn, mx, "binner")
        yield ("f8", tuple(pts[::-1]), "binsize", bs, mn, None, "histogram")

    edunits = [(bs, mn) for bs in (0.1, 0.3, 1.0 / 3.0, 2.5, 1e-3, 0.7, 1e5 / 3.0) for mn in (0.0, -1.0, 0.1, 1e6 + 0.1)]
    ctx.lattice("edge-neighbourhoods", edunits, one, expand=expand_edges,
                bounds=dict(binsizes=[0.1, 0.3, "1/3", 2.5, 1e-3, 0.7, "1e5/3"], mins=[0.0, -1.0, 0.1, 1000000.1], edges="k = 0..40", neighbourhood="-3..+3 ulps"))

    # companion variables: a Binner (and histogram()) also takes per-datum companions that are NOT part of the bin
    # question - a second variable y and weights.  Which x are counted, and where, may depend only on x, the bin
    # specification and the limits: every assignment of companion values (ordinary, zero, negative, nan, +-inf) to the
    # data, as y / as weights / as both, with and without the per-bin statistics, must leave hist and rev exactly what the
    # reference gives for x alone (the reference never sees the companions)
    import warnings as _warnings
    CX = [0.5, 2.5, 1.0]
    CY = ["1.0", "nan", "inf", "-inf"]                # y symbols (strings: cases stay plain literals)
    CW = ["1.0", "2.5", "nan", "inf"]                 # weight symbols
    CBIN = [("binsize", 1.0), ("binsize", 0.5), ("nbin", 2)]
    CLIM = [(None, None), (0.0, None), (None, 3.0), (0.0, 3.0), (1.0, 2.5), (0.75, None)]
    CN = ctx.pick(2, 3)

    def one_companion(case, rec):
        data, ysym, wsym, bkind, bval, mn, mx, stats, entry = case
        x = np.array(data, dtype="f8")
        y = None if ysym is None else np.array([float(s) for s in ysym])
        w = None if wsym is None else np.array([float(s) for s in wsym])
        ref = reference(x, bkind, bval, mn, mx)
        got = {}
        for eng in (True, False):
            su.have_chist = eng
            try:
                with np.errstate(all="ignore"), _warnings.catch_warnings():
                    _warnings.simplefilter("ignore")
                    kw = dict(min=mn, max=mx, rev=True)
                    kw[bkind] = bval
                    if entry == "histogram":
                        r = stat.histogram(x, weights=w, more=stats, **kw)
                        got[eng] = (np.asarray(r["hist"]), np.asarray(r["rev"]))
                    else:
                        b = stat.Binner(x, y, weights=w)
                        b.dohist(calc_stats=stats, **kw)
                        got[eng] = (np.asarray(b["hist"]), np.asarray(b["rev"]))
            except ValueError as e:
                got[eng] = "ValueError: %s" % e if ref is not None else "ValueError"
            except Exception as e:
                got[eng] = "%s: %s" % (type(e).__name__, e)
            finally:
                su.have_chist = True
        for eng in (True, False):
            nm = "compiled" if eng else "python"
            g = got[eng]
            if ref is None:
                if g != "ValueError":
                    return rec.fail(case, "%s engine: no datum within [min,max] but got %r" % (nm, g))
                continue
            if isinstance(g, str):
                return rec.fail(case, "%s engine raised %s (x has data within the limits)" % (nm, g))
            h, rev = g
            hist, members = ref[0], ref[1]
            if h.shape != hist.shape or not np.array_equal(h, hist):
                return rec.fail(case, "%s engine: hist=%r but x alone (companions y=%r weights=%r must not matter) gives %r"
                                % (nm, h.tolist(), ysym, wsym, hist.tolist()))
            nb = h.size
            if rev.size < nb + 1:
                return rec.fail(case, "%s engine: rev too short: %r" % (nm, rev.tolist()))
            for i in range(nb):
                lo, hi = int(rev[i]), int(rev[i + 1])
                if not (nb + 1 <= lo <= hi <= rev.size) or rev[lo:hi].tolist() != members[i]:
                    return rec.fail(case, "%s engine: bin %d rev slice differs from members %r (y=%r weights=%r); hist=%r rev=%r"
                                    % (nm, i, members[i], ysym, wsym, h.tolist(), rev.tolist()))
        if ref is None:
            return rec.ok(case, outcome="companion:no-data-in-limits:ValueError", nontrivial=True, calls=2)
        odd = [s for s in (ysym or ()) + (wsym or ()) if s in ("nan", "inf", "-inf")]
        oc = "companion:%s%s:%s" % ("y" if ysym else "", "w" if wsym else "", "non-finite" if odd else "finite")
        if ref[2] < len(data):
            oc += "+some-not-counted"
        rec.ok(case, outcome=oc, nontrivial=bool(odd), calls=2)

    def expand_companion(u):
        kind, n, bkind, bval, mn, mx, stats = u
        for data in itertools.product(CX, repeat=n):
            if kind == "y":
                for ys in itertools.product(CY, repeat=n):
                    yield (data, ys, None, bkind, bval, mn, mx, stats, "binner")
            elif kind == "w":
                for ws in itertools.product(CW, repeat=n):
                    yield (data, None, ws, bkind, bval, mn, mx, stats, "binner")
                    yield (data, None, ws, bkind, bval, mn, mx, stats, "histogram")
            elif kind == "y+unit-w":
                for ys in itertools.product(CY, repeat=n):
                    yield (data, ys, ("1.0",) * n, bkind, bval, mn, mx, stats, "binner")
            else:
                for ws in itertools.product(CW, repeat=n):
                    yield (data, tuple("%d.0" % (k + 1) for k in range(n)), ws, bkind, bval, mn, mx, stats, "binner")

    cunits = [(kind, n, bk, bv, mn, mx, stats) for kind in ("y", "w", "y+unit-w", "finite-y+w") for n in range(1, CN + 1)
              for (bk, bv) in CBIN for (mn, mx) in CLIM for stats in (False, True)]
    ctx.lattice("companion-variables", cunits, one_companion, expand=expand_companion,
                bounds=dict(max_len=CN, x_alphabet=CX, y_symbols=CY, weight_symbols=CW, binning=CBIN, limits=CLIM,
                            companions=["y", "weights", "y + unit weights", "finite y + weights"], calc_stats=[False, True],
                            engines=["compiled", "python"], entries=["Binner(x,y,weights).dohist", "histogram(weights=)"]))

    # long arrays: every 2-symbol pattern of length 12 (thorough) / 8 (quick)
    LL = ctx.pick(8, 12)
    pairs = [(0.0, 1.0), (0.5, 3.7), (-1.0, 0.30000000000000004), (1.0, 1.0)]
    units2 = []
    for (bkind, bval) in BINNING:
        for mn, mx in ((None, None), (0.5, None), (None, 1.0), (-1.0, 2.0)):
            for pr in pairs:
                units2.append((pr, bkind, bval, mn, mx))

    def expand2(u):
        pr, bkind, bval, mn, mx = u
        for bits in itertools.product((0, 1), repeat=LL):
            yield ("f8", tuple(pr[b] for b in bits), bkind, bval, mn, mx, "histogram")

    ctx.lattice("two-symbol-long", units2, one, expand=expand2,
                bounds=dict(length=LL, symbol_pairs=pairs))

    # ------------------------------------------------------------------ E2
    # repeated dohist() calls with changing binning / limits on ONE Binner object:
    # the result of the last call must be what the reference gives for that call alone
    HOPS = (("binsize", 1.0, None, None), ("binsize", 0.5, 0.5, None), ("binsize", 1.0, None, 2.0),
            ("nbin", 3, None, None), ("nbin", 2, 1.0, 3.7), ("binsize", 0.3, -1.0, 1.0), ("binsize", 2.5, 1.0, None),
            # no datum within the limits: must raise, and the next call on the object must be right again
            ("binsize", 1.0, 50.0, None))
    HDATA = {"d1": (0.0, 0.5, 1.0, 1.5, 2.0, 3.7, -1.0, 0.1), "d2": (2.0, 2.0, 1.0, 3.7, 0.30000000000000004),
             "d3": (1.0, 1.0, 1.0)}

    def make_execute(dname, engine):
        def execute(hist, rec):
            from mc.util import fingerprint

            arr = np.array(HDATA[dname])
            su.have_chist = engine
            try:
                b = stat.Binner(arr)
                last = None
                for (bkind, bval, mn, mx) in hist:
                    kw = dict(min=mn, max=mx, rev=True, calc_stats=False)
                    kw[bkind] = bval
                    try:
                        b.dohist(**kw)
                        last = (b["hist"].copy(), b["rev"].copy())
                    except ValueError:
                        last = "ValueError"
                    except Exception as e:
                        last = "%s: %s" % (type(e).__name__, e)
            finally:
                su.have_chist = True
            if hist:
                bkind, bval, mn, mx = hist[-1]
                ref = reference(arr, bkind, bval, mn, mx)
                if ref is None:
                    if last != "ValueError":
                        rec.fail(hist, "no datum within the limits of the last call, but it returned %r" % (last,))
                        return None
                elif isinstance(last, str):
                    rec.fail(hist, "last dohist raised %s" % last)
                    return None
                else:
                    hist_ref, members = ref[0], ref[1]
                    h, rev = last
                    ok = h.shape == hist_ref.shape and np.array_equal(h, hist_ref)
                    if ok:
                        for i in range(h.size):
                            if rev[rev[i]:rev[i + 1]].tolist() != members[i]:
                                ok = False
                    if not ok:
                        rec.fail(hist, "after %r the call %r on the same Binner gives hist=%r rev=%r; alone it gives hist=%r members=%r"
                                 % (hist[:-1], hist[-1], h.tolist(), rev.tolist(), hist_ref.tolist(), members))
                        return None
            key = fingerprint({k: v for k, v in b.__dict__.items()}, dict(b))
            return key, HOPS
        return execute

    hdepth = ctx.pick(3, 4)
    for dname in HDATA:
        for engine in (True, False):
            ctx.histories("binner-reuse(%s,%s)" % (dname, "C" if engine else "py"), [()], make_execute(dname, engine),
                          depth=hdepth, nodedup_depth=hdepth, bounds=dict(ops=[str(o) for o in HOPS], depth=hdepth))

    # ------------------------------------------- several live objects (process-wide state)
    # up to 3 Binner objects over different data alive in one process, dohist calls interleaved: sort
    # indices, limits or scratch arrays kept at class/module level would leak from one Binner to another
    from mc.worlds import object_world
    WOPS = [("binsize", 1.0, None, None), ("binsize", 0.5, 0.5, None), ("nbin", 3, None, None), ("nbin", 2, 1.0, 3.7),
            ("binsize", 1.0, 50.0, None)]      # the last one must raise (no datum within the limits)

    def b_new(kind):
        dname, engine = kind.split("/")
        b = stat.Binner(np.array(HDATA[dname]))
        b._verif_engine = engine == "C"
        return b

    def b_do(b, kind, op):
        bkind, bval, mn, mx = op
        kw = dict(min=mn, max=mx, rev=True, calc_stats=False)
        kw[bkind] = bval
        su.have_chist = b._verif_engine
        try:
            b.dohist(**kw)
        finally:
            su.have_chist = True
        return [b["hist"].copy(), b["rev"].copy()]

    def b_check(kind, op, res):
        ref = reference(np.array(HDATA[kind.split("/")[0]]), *op)
        if ref is None:
            return "no datum within the limits, but the call returned %r" % ([np.asarray(r).tolist() for r in res],)
        h, rev = res
        if h.shape != ref[0].shape or not np.array_equal(h, ref[0]):
            return "hist=%r, reference %r" % (h.tolist(), ref[0].tolist())
        for i in range(h.size):
            if rev[rev[i]:rev[i + 1]].tolist() != ref[1][i]:
                return "rev slice of bin %d = %r, members %r" % (i, rev[rev[i]:rev[i + 1]].tolist(), ref[1][i])

    object_world(ctx, "several-binners", ["d1/C", "d2/C", "d1/py", "d3/py"], b_new, WOPS, b_do, lambda: [su],
                 depth=ctx.pick(4, 5), check=b_check,
                 state=lambda b: (dict(b.__dict__), dict(b)),
                 must_raise=lambda kind, op: reference(np.array(HDATA[kind.split("/")[0]]), *op) is None)

    # ------------------------------------------------------------ call sequences
    # several histogram(rev=True) results alive at once (mc/worlds.py call_sequences): hist / rev arrays that are
    # views of a module-level scratch buffer would be overwritten by the next call
    from mc.worlds import call_sequences

    def seq_pool():
        return dict(d1=np.array([0.0, 0.5, 1.0, 1.5, 2.0, 3.7, 1.0, 3.0]), d2=np.array([3.0, 1.0, 2.0, 2.0]), d3=np.array([1.0]))

    SEQ_CALLS = [(eng, d, bk, bv) for eng in (True, False) for d in ("d1", "d2", "d3") for (bk, bv) in (("binsize", 1.0), ("nbin", 3))]

    def seq_run(c, pool):
        su.have_chist = c[0]
        try:
            h, rev = stat.histogram(pool[c[1]], rev=True, **{c[2]: c[3]})
        finally:
            su.have_chist = True
        return [h, rev]

    call_sequences(ctx, "call-sequences", seq_pool, SEQ_CALLS, seq_run, lambda: [su], depth=3, nodedup_depth=3, result_edits=True)

    # ------------------------------------------------------------ long inputs, bin populations aligned to block marks
    # both engines on inputs of about 65536 / 10^5 / 10^6 (thorough: 2^20, 2*10^6) data whose cumulative bin
    # populations end exactly on, one below and one above the mark, with empty bins before the bin that starts there:
    # an engine that walks the sorted data in blocks carries state (current bin, start offsets) across the boundary
    def one_longhist(case, rec):
        mark, pat, d = case
        if pat == "split":
            counts = [mark * 6 // 10, mark - mark * 6 // 10 + d, 0, 3]
        elif pat == "one-bin":
            counts = [mark + d, 0, 0, 2]
        elif pat == "gaps":
            counts = [1, mark - 1 + d, 0, 5, 0, 1]
        else:
            counts = [0, mark // 2, mark - mark // 2 + d, 0, 0, 4, 1]
        n = sum(counts)
        vals = np.concatenate([np.full(c, i + 0.25) for i, c in enumerate(counts)])
        step = 7919
        while math.gcd(step, n) != 1:
            step += 2
        data = vals[(np.arange(n, dtype="i8") * step) % n]
        keep = data.copy()
        res = {}
        for eng in (True, False):
            su.have_chist = eng
            try:
                res[eng] = stat.histogram(data, binsize=1.0, min=0.0, rev=True)
            except Exception as e:
                su.have_chist = True
                return rec.fail(case, "%s engine on %d data raised %s: %s" % ("compiled" if eng else "python", n, type(e).__name__, e))
            finally:
                su.have_chist = True
        if not np.array_equal(data, keep):
            return rec.fail(case, "the input array was modified")
        order = np.argsort(data, kind="stable")
        nb = len(counts)
        offs = nb + 1 + np.concatenate([[0], np.cumsum(counts)])
        for eng in (True, False):
            h, rev = res[eng]
            nm = "compiled" if eng else "python"
            if h.tolist() != counts:
                return rec.fail(case, "%s engine, %d data: hist=%r, populations %r" % (nm, n, h.tolist(), counts))
            if rev.size != nb + 1 + n or rev[:nb + 1].tolist() != offs.tolist():
                return rec.fail(case, "%s engine, %d data with populations %r: rev offsets %r (size %d), expected %r (size %d)" % (
                    nm, n, counts, rev[:nb + 1].tolist(), rev.size, offs.tolist(), nb + 1 + n))
            if not np.array_equal(rev[nb + 1:], order):
                bad = int(np.nonzero(rev[nb + 1:] != order)[0][0])
                return rec.fail(case, "%s engine, %d data with populations %r: rev index list differs from the stable value order from position %d on" % (nm, n, counts, bad))
        rec.ok(case, outcome="longhist:%s" % pat, nontrivial=True, calls=2)

    import math
    # (the pure-Python engine needs about 1.3 s per million data: 3*10^6 - a multiple of 10^k, 2*10^5, 3*10^5, 5*10^5,
    # 6*10^5, 1.5*10^6 ... - and 2^20 in the quick tier, the universal marks of mc/longarr.py in the thorough tier)
    lmarks = ctx.pick((65536, 100000, 3000000, 1048576), (4096, 65536, 100000, 1000000, 3000000, 1048576, 6000000, 2097152))
    lhunits = [(m, pat, d) for m in lmarks for pat in ("split", "one-bin", "gaps", "late") for d in (-1, 0, 1)]
    ctx.lattice("long-inputs-at-block-marks", lhunits, one_longhist,
                bounds=dict(marks=list(lmarks), patterns=["split", "one-bin", "gaps", "late"], offsets=[-1, 0, 1], engines=["compiled", "python"]))

    # ------------------------------------------------------------ one Binner, many distinct limit pairs, then each again
    from mc.worlds import revisit
    RDATA = np.array([(k * 0.61803) % 10.0 for k in range(60)])
    LIMS = [(round(0.1 * k, 2), round(9.9 - 0.1 * k, 2)) for k in range(42)]

    def _rb(b, c):
        b.dohist(binsize=c[3], min=c[1], max=c[2], rev=True)
        return [np.asarray(b["hist"]), np.asarray(b["rev"])]
    revisit(ctx, "revisit-after-many-distinct-calls", {
        "Binner.dohist(42 limit pairs)": (lambda: stat.Binner(RDATA.copy()), [("dohist", lo, hi, 0.5) for lo, hi in LIMS], _rb),
        "Binner.dohist(42 bin sizes)": (lambda: stat.Binner(RDATA.copy()), [("dohist", 1.0, 9.0, round(0.1 + 0.05 * k, 3)) for k in range(42)], _rb),
        "histogram(42 limit pairs)": (lambda: None, [("hist", lo, hi) for lo, hi in LIMS],
                                      lambda o, c: [np.asarray(v) for v in stat.histogram(RDATA, binsize=0.5, min=c[1], max=c[2], rev=True)]),
    })
