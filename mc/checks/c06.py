"""C06 - array matching is sound and complete; de-duplication keeps one index per value (E1)."""
import itertools
import random

import numpy as np

RULE = (
    "match-small: per kind {i8,u8,i4,u1,f8,f4,S3,U3} arr1 = EVERY tuple of length <= L1 over the "
    "kind's 5-8 symbol alphabet (all ordered duplicate-free selections, and all selections with a "
    "repeated value, which must raise ValueError) x arr2 = EVERY tuple of length <= L2 over the same "
    "alphabet (length <= 2 when arr1 has a repeat), L1 = L2 = 3 quick / 4 thorough; each case calls "
    "match(presorted=False), "
    "match(presorted=True) when arr1 is ascending, and match_multi.  match-long: arr1 = every "
    "non-empty subset of an N-symbol ladder (N = 9 / 12) in 4 orders (ascending, descending, rotated, one seeded "
    "permutation) x 2 probe arrays (every ladder symbol twice plus one value below and one above all; "
    "ladder only).  match-forms: every arr1,arr2 of length <= 2 x input form {ndarray, list, python "
    "scalar, numpy scalar, 0-d array, strided view, negative-stride view, byte-swapped dtype, "
    "read-only} on either or both sides.  match-widths: both arrays of the same family but different "
    "item size (S3/S1, S2/S5, U3/U1, i4/i8, u1/i8, u1/u8, f4/f8 and reversed), arr1 length <= 2 / 3, "
    "arr2 length <= 2.  unique: every tuple of length <= 5 / 6 over 4 / 5 symbols per kind (f8: 6 / 7, "
    "with both zeros and inf), values= on/off.  rem_dup: every (values, flags) of equal length <= 4 / 5 "
    "over 3-4 value symbols x {4 int, 3 float, 3 u1, 2 bool} flag symbols, values= on/off.  non-trivial (match) = arr2 has a repeated value, an element that does not occur in arr1 "
    "(below its minimum, above its maximum or in a gap), arr1 is not ascending, arr1 has a repeat, or "
    "an input is not a plain ndarray; (unique/rem_dup) = the input has a repeated value or its first "
    "element is not the minimum."
)
ASSUMPTIONS = [
    "reference model: pairs [(i, j) for j, v in enumerate(arr2) for i, w in enumerate(arr1) if w == v] on the "
    "python values (ndarray.tolist()) with python ==; so -0.0 == 0.0 (they count as the same value), NaN is not "
    "in any alphabet (NaN is equal to nothing, the statement's 'equal elements' is then vacuous)",
    "'a first array with repeated values is rejected' is read as: ValueError is raised (the exception the code "
    "raises deliberately); any other exception type is reported",
    "presorted=True is only passed when arr1 is ascending in python's order of the values (for the alphabets used "
    "numpy's order of S/U items, unsigned bytes / code points, is the same)",
    "the index arrays must be 1-d integer ndarrays of equal length and the call must leave its array arguments "
    "bit-identical (otherwise the returned positions would not refer to the caller's arrays)",
    "arrays of length 0 are outside the bound (statement: sizes 1..N); on this tree match/unique/rem_dup raise "
    "IndexError for an empty first argument",
    "mixed-family pairs (signed with uint64, integer with float, bytes with unicode) are not enumerated: numpy "
    "compares them after a lossy promotion to float64, exact matching is then not defined by the statement",
    "rem_dup: when the largest flag of a value is carried by several elements any one of them is accepted; a python "
    "scalar 0 returned for a length-1 input is accepted as the single index; for values=True only the values "
    "(one per distinct value) and the index array are checked, not their mutual order",
    "python scalars / lists are only passed for the kinds whose numpy default dtype is the kind itself (i8, f8, S, U)",
    "array lengths: arr1 <= L1 (3 quick / 4 thorough) exhaustively, longer arrays (up to N=9/12 and probes of "
    "2N+4) only through the subset ladder family",
]

NATURAL = ("i8", "f8", "S3", "U3")


# ------------------------------------------------------------------ alphabets

def alphabets(seed):
    """per dtype: symbols, simplest first; the LAST one is the seeded generic representative"""
    r = random.Random(7919 * (seed + 1))
    g_i8 = r.randrange(10, 10 ** 9) * r.choice((-1, 1))
    g_u8 = r.randrange(2 ** 63 + 1, 2 ** 64 - 1)
    g_i4 = r.randrange(10, 2 ** 30) * r.choice((-1, 1))
    g_u1 = r.choice([x for x in range(2, 255) if x != 128])
    g_f8 = r.uniform(-1000.0, 1000.0)
    g_f4 = float(np.float32(r.uniform(-100.0, 100.0)))
    letters = "cdefghijklmnopqrstuvwxy"
    g_s = "".join(r.choice(letters) for _ in range(r.randrange(1, 4))).encode()
    uni = letters + "ßλЖ\U0001f600"
    g_u = "".join(r.choice(uni) for _ in range(r.randrange(1, 4)))
    return {
        "i8": [0, 3, -5, 2 ** 62, 2 ** 63 - 1, -2 ** 63, g_i8],
        "u8": [0, 1, 7, 2 ** 63, 2 ** 64 - 1, g_u8],
        "i4": [0, -1, 5, 2 ** 31 - 1, -2 ** 31, g_i4],
        "u1": [0, 1, 128, 255, g_u1],
        "f8": [0.0, 3.0, -2.5, -0.0, 1e-300, float("inf"), float("-inf"), g_f8],
        "f4": [0.0, 3.0, -2.5, float(np.float32(0.1)), float(np.float32(1e30)), g_f4],
        # "a " / "a\t": values that differ from "a" only by trailing white space are different values
        "S3": [b"a", b"b", b"ab", b"", b"a ", b"zzz", b"\xe9", g_s],
        "U3": ["a", "b", "ab", "", "a\t", "zzz", "é", g_u],
    }


def ladders(seed):
    """per dtype (lo, [12 distinct symbols], hi): lo < every symbol < hi"""
    a = alphabets(seed)
    return {
        "i8": (-2 ** 63, [0, 1, 3, -1, -5, 255, 2 ** 31, a["i8"][-1], -2 ** 62, 2 ** 40, 2 ** 62, -10 ** 12],
               2 ** 63 - 1),
        "u8": (0, [1, 2, 7, 255, 2 ** 63, 2 ** 63 - 1, 2 ** 63 + 1, a["u8"][-1], 2 ** 32, 2 ** 31, 2 ** 62,
                   2 ** 64 - 2], 2 ** 64 - 1),
        "i4": (-2 ** 31, [0, 1, -1, 3, -5, 255, 2 ** 30, a["i4"][-1], -2 ** 30, 65536, 2 ** 31 - 2, -2 ** 31 + 1],
               2 ** 31 - 1),
        "f8": (float("-inf"), [0.0, 1.0, 3.0, -2.5, 0.1, 0.30000000000000004, 1e-300, a["f8"][-1], -1e-300,
                               5e-324, 1e300, -1e300], float("inf")),
        "f4": (float("-inf"), [0.0, 1.0, 3.0, -2.5, float(np.float32(0.1)), float(np.float32(0.3)), 0.5,
                               a["f4"][-1], -0.5, float(np.float32(1e-30)), float(np.float32(1e30)),
                               float(np.float32(-1e30))], float("inf")),
        "S3": (b"", [b"a", b"b", b"ab", b"aa", b"abc", b"a ", b"z", a["S3"][-1], b"zz", b"zzz", b"zz\n", b"\xe9"],
               b"\xff\xff\xff"),
        "U3": ("", ["a", "b", "ab", "aa", "abc", "a ", "z", a["U3"][-1], "zz", "zzz", "zz\t", "é"],
               "\U0010ffff\U0010ffff\U0010ffff"),
    }


WIDTH_PAIRS = [("S3", "S1"), ("S1", "S3"), ("S2", "S5"), ("S5", "S2"), ("U3", "U1"), ("U1", "U3"),
               ("U2", "U5"), ("i4", "i8"), ("i8", "i4"), ("u1", "i8"), ("i8", "u1"), ("u1", "u8"),
               ("u8", "u1"), ("f4", "f8"), ("f8", "f4")]


def representable(dt, symbols):
    """the symbols a dtype can hold (strings: truncated to the item size), de-duplicated, order kept"""
    d = np.dtype(dt)
    out = []
    for s in symbols:
        if d.kind in "iu":
            info = np.iinfo(d)
            if not (info.min <= s <= info.max):
                continue
            v = s
        elif d.kind == "f":
            with np.errstate(all="ignore"):
                v = float(np.array(s, dtype=d))
            if v != s:
                continue
            v = s
        else:
            v = np.array(s, dtype=d).tolist()
        if not any(v == w and repr(v) == repr(w) for w in out):
            out.append(v)
    return out


# ------------------------------------------------------------------ reference models

def has_repeat(v):
    return any(v[i] == v[j] for i in range(len(v)) for j in range(i + 1, len(v)))


def ref_match(v1, v2):
    """expected (i, j) pairs, or None when arr1 has a repeated value (must be rejected)"""
    if has_repeat(v1):
        return None
    return [(i, j) for j, v in enumerate(v2) for i, w in enumerate(v1) if w == v]


def distinct_values(v):
    out = []
    for x in v:
        if not any(x == y for y in out):
            out.append(x)
    return out


def ascending(v):
    return all(v[i] <= v[i + 1] for i in range(len(v) - 1))


def shaped(base, form):
    """the object handed to esutil for an array of values `base` (a fresh ndarray)"""
    if form == "arr":
        return base
    if form == "list":
        return base.tolist()
    if form == "pyscalar":
        return base.tolist()[0]
    if form == "npscalar":
        return base[0]
    if form == "0d":
        return base.reshape(())
    if form == "strided":
        big = np.empty(2 * base.size, dtype=base.dtype)
        big[0::2] = base
        big[1::2] = base[::-1]
        return big[::2]
    if form == "negstride":
        return base[::-1].copy()[::-1]
    if form == "swapped":
        return base.astype(base.dtype.newbyteorder())
    if form == "readonly":
        base = base.copy()
        base.flags.writeable = False
        return base
    raise ValueError("unknown form %r" % (form,))


def forms_for(dt, n):
    fs = ["arr", "strided", "negstride", "readonly"]
    if np.dtype(dt).byteorder != "|":
        fs.append("swapped")
    if dt in NATURAL:
        fs.append("list")
    if n == 1:
        fs += ["npscalar", "0d"]
        if dt in NATURAL:
            fs.append("pyscalar")
    return fs


def index_array_problem(m, n, what):
    if not isinstance(m, np.ndarray):
        return "%s is a %s, not an ndarray" % (what, type(m).__name__)
    if m.ndim != 1 or m.dtype.kind not in "iu":
        return "%s is not a 1-d integer array (ndim %d, dtype %s)" % (what, m.ndim, m.dtype.str)
    if m.size and not (0 <= int(m.min()) and int(m.max()) < n):
        return "%s holds an index outside 0..n-1: %r (n=%d)" % (what, m.tolist(), n)
    return None


def match_problem(res, v1, v2, exp):
    """None when the result of a match call is exactly the expected pair list, else a message"""
    if not (isinstance(res, tuple) and len(res) == 2):
        return "result is not a pair of arrays: %r" % (res,)
    m1, m2 = res
    p = index_array_problem(m1, len(v1), "ind1") or index_array_problem(m2, len(v2), "ind2")
    if p:
        return p
    if m1.size != m2.size:
        return "index arrays differ in length: ind1=%r ind2=%r" % (m1.tolist(), m2.tolist())
    got = list(zip(m1.tolist(), m2.tolist()))
    if got == exp:
        return None
    tail = "; got pairs %r expected %r" % (got, exp)
    for i, j in got:
        if not v1[i] == v2[j]:
            return "unsound pair, arr1 element != arr2 element" + tail
    js = [j for _, j in got]
    if any(j not in js for _, j in exp):
        return "incomplete, an arr2 element whose value occurs in arr1 is not reported" + tail
    if len(set(js)) != len(js):
        return "an arr2 element is reported more than once" + tail
    if js != sorted(js):
        return "pairs are not ordered by position in arr2" + tail
    return "pairs differ from the reference" + tail


def dedup_problem(idx, v, distinct, what):
    p = index_array_problem(idx, len(v), what)
    if p:
        return p
    il = idx.tolist()
    if len(il) != len(distinct):
        return "%s has %d entries for %d distinct values: %r" % (what, len(il), len(distinct), il)
    for d in distinct:
        k = sum(1 for i in il if v[i] == d)
        if k != 1:
            return "%s points %d times at one of the distinct values (must be exactly once): %r" % (what, k, il)
    return None


def values_problem(vals, distinct, what):
    try:
        vl = np.atleast_1d(vals).tolist()
    except Exception as e:  # pragma: no cover
        return "%s unusable: %r" % (what, e)
    if len(vl) != len(distinct):
        return "%s has %d entries for %d distinct values: %r" % (what, len(vl), len(distinct), vl)
    for d in distinct:
        k = sum(1 for x in vl if x == d)
        if k != 1:
            return "%s holds one of the distinct values %d times (must be exactly once): %r" % (what, k, vl)
    return None


# ------------------------------------------------------------------ the check

def main(ctx):
    # every lattice part once more under FP traps + warnings-as-errors (clean on the unchanged tree, see DESIGN section 0)
    ctx.envstrict_all = "small"
    from esutil import numpy_util as nu

    ALPHA = alphabets(ctx.seed)
    LADDER = ladders(ctx.seed)
    ctx.notes.append("seeded generic symbols: " + ", ".join("%s=%r" % (k, v[-1]) for k, v in ALPHA.items()))

    # ---------------------------------------------------------------- match
    def one_match(case, rec):
        dt1, a1, f1, dt2, a2, f2 = case
        b1 = np.array(a1, dtype=dt1)
        b2 = np.array(a2, dtype=dt2)
        v1 = b1.tolist()
        v2 = b2.tolist()
        exp = ref_match(v1, v2)
        x1 = shaped(b1, f1)
        x2 = shaped(b2, f2)
        keep = []
        for x in (x1, x2):
            keep.append((x.dtype.str, x.shape, x.tobytes()) if isinstance(x, np.ndarray) else None)
        asc = ascending(v1)
        calls = [("match", nu.match, False)]
        if asc:
            calls.append(("match", nu.match, True))
        calls.append(("match_multi", nu.match_multi, asc))
        for name, fn, pres in calls:
            tag = "%s presorted=%s: " % (name, pres)
            try:
                res = fn(x1, x2, presorted=pres)
                err = None
            except Exception as e:
                res = None
                err = e
            for x, k, nm in ((x1, keep[0], "arr1"), (x2, keep[1], "arr2")):
                if k is not None and (x.dtype.str, x.shape, x.tobytes()) != k:
                    return rec.fail(case, tag + "the call modified its argument " + nm)
            if exp is None:
                if not isinstance(err, ValueError):
                    return rec.fail(case, tag + "arr1 has a repeated value but was not rejected with ValueError: "
                                    + ("returned %r" % (res,) if err is None else
                                       "raised %s: %s" % (type(err).__name__, err)))
                continue
            if err is not None:
                return rec.fail(case, tag + "raised %s: %s" % (type(err).__name__, err))
            p = match_problem(res, v1, v2, exp)
            if p:
                return rec.fail(case, tag + p)
        plain = f1 == "arr" and f2 == "arr" and dt1 == dt2
        if exp is None:
            return rec.ok(case, outcome="arr1-repeat:ValueError", nontrivial=True, calls=len(calls))
        nm = len(exp)
        oc = "none-match" if nm == 0 else ("all-match" if nm == len(v2) else "some-match")
        rep = has_repeat(v2)
        below = any(v < min(v1) for v in v2)
        above = any(v > max(v1) for v in v2)
        if rep:
            oc += "+repeats"
        if below:
            oc += "+below-min"
        if above:
            oc += "+above-max"
        if not asc:
            oc += "+unsorted"
        if not plain:
            oc += "+form" if dt1 == dt2 else "+width"
        rec.ok(case, outcome=oc, calls=len(calls),
               nontrivial=bool(rep or nm < len(v2) or not asc or not plain))

    L1 = ctx.pick(3, 4)
    L2 = ctx.pick(3, 4)
    KINDS = ["i8", "u8", "i4", "u1", "f8", "f4", "S3", "U3"]

    units = []
    for dt in KINDS:
        for n in range(1, L1 + 1):
            for a1 in itertools.product(ALPHA[dt], repeat=n):
                units.append((dt, a1))

    def expand_small(u):
        dt, a1 = u
        lmax = 2 if has_repeat(np.array(a1, dtype=dt).tolist()) else L2
        for n in range(1, lmax + 1):
            for a2 in itertools.product(ALPHA[dt], repeat=n):
                yield (dt, a1, "arr", dt, a2, "arr")

    ctx.lattice("match-small", units, one_match, expand=expand_small,
                bounds=dict(max_len_arr1=L1, max_len_arr2=L2, max_len_arr2_when_arr1_repeats=2,
                            alphabets={k: repr(v) for k, v in ALPHA.items()},
                            entries=["match(presorted=False)", "match(presorted=True) if ascending",
                                     "match_multi"]))

    # long arrays: subset ladder
    NL = ctx.pick(9, 12)
    LKINDS = ["i8", "u8", "i4", "f8", "f4", "S3", "U3"]
    units_long = []
    for dt in LKINDS:
        lo, syms, hi = LADDER[dt]
        syms = sorted(syms[:NL])
        perm = list(range(NL))
        random.Random(ctx.seed * 31 + 5).shuffle(perm)
        probes = (tuple([lo] + syms + [hi] + [hi] + syms[::-1] + [lo]),
                  tuple(syms[NL // 2:] + syms[:NL // 2]))
        for mask in range(1, 2 ** NL):
            sel = [k for k in range(NL) if mask >> k & 1]
            orders = [sel, sel[::-1], sel[1:] + sel[:1], [k for k in perm if k in sel]]
            seen = []
            for o in orders:
                if o in seen:
                    continue
                seen.append(o)
                units_long.append((dt, tuple(syms[k] for k in o), probes))

    def expand_long(u):
        dt, a1, probes = u
        for a2 in probes:
            yield (dt, a1, "arr", dt, a2, "arr")

    ctx.lattice("match-long", units_long, one_match, expand=expand_long,
                bounds=dict(ladder_symbols=NL, orders=["ascending", "descending", "rotated", "seeded permutation"],
                            probes=["lo+ladder+hi, then reversed (every value twice)", "ladder rotated by half"],
                            kinds=LKINDS))

    # input forms (scalars, lists, views, byte order, read-only)
    NF = ctx.pick(5, 8)
    units_forms = []
    for dt in KINDS:
        al = ALPHA[dt][-NF:] if len(ALPHA[dt]) > NF else ALPHA[dt]
        for n in (1, 2):
            for a1 in itertools.product(al, repeat=n):
                units_forms.append((dt, a1, tuple(al)))

    def expand_forms(u):
        dt, a1, al = u
        F1 = forms_for(dt, len(a1))
        for n in (1, 2):
            F2 = forms_for(dt, n)
            pairs = [(f, "arr") for f in F1 if f != "arr"] + [("arr", f) for f in F2 if f != "arr"]
            pairs += [(f, f) for f in F1 if f != "arr" and f in F2]
            pairs += [(f, g) for f in F1 for g in F2
                      if f != g and f in ("pyscalar", "npscalar", "0d", "list")
                      and g in ("pyscalar", "npscalar", "0d", "list")]
            for a2 in itertools.product(al, repeat=n):
                for f1, f2 in pairs:
                    yield (dt, a1, f1, dt, a2, f2)

    ctx.lattice("match-forms", units_forms, one_match, expand=expand_forms,
                bounds=dict(max_len=2, symbols_per_kind=NF,
                            forms=["list", "pyscalar", "npscalar", "0d", "strided", "negstride", "swapped",
                                   "readonly"]))

    # same family, different item size
    LW = ctx.pick(2, 3)   # arr1
    LW2 = 2               # arr2
    units_w = []
    for dta, dtb in WIDTH_PAIRS:
        ka = dta if dta in ALPHA else dta[0] + "3"
        kb = dtb if dtb in ALPHA else dtb[0] + "3"
        union = list(ALPHA[ka]) + [s for s in ALPHA[kb] if s not in ALPHA[ka]]
        if dta[0] == "S":
            union += [b"abab", b"zzzzz"]  # longer than 3 items: truncated differently by the two sides
        elif dta[0] == "U":
            union += ["abab", "zzzzz"]
        sa = tuple(representable(dta, union))
        sb = tuple(representable(dtb, union))
        for n in range(1, LW + 1):
            for a1 in itertools.product(sa, repeat=n):
                units_w.append((dta, a1, dtb, sb))

    def expand_w(u):
        dta, a1, dtb, sb = u
        lmax = 1 if has_repeat(np.array(a1, dtype=dta).tolist()) else LW2
        for n in range(1, lmax + 1):
            for a2 in itertools.product(sb, repeat=n):
                yield (dta, a1, "arr", dtb, a2, "arr")

    ctx.lattice("match-widths", units_w, one_match, expand=expand_w,
                bounds=dict(max_len_arr1=LW, max_len_arr2=LW2, dtype_pairs=["%s/%s" % p for p in WIDTH_PAIRS]))

    # ---------------------------------------------------------------- unique
    def one_unique(case, rec):
        dt, vals = case
        arr = np.array(vals, dtype=dt)
        v = arr.tolist()
        distinct = distinct_values(v)
        snap = arr.tobytes()
        try:
            idx = nu.unique(arr)
            uv = nu.unique(arr, values=True)
        except Exception as e:
            return rec.fail(case, "unique raised %s: %s" % (type(e).__name__, e))
        if arr.tobytes() != snap:
            return rec.fail(case, "unique modified its argument")
        p = dedup_problem(idx, v, distinct, "unique() index array")
        if p:
            return rec.fail(case, p + "; input %r" % (v,))
        p = values_problem(uv, distinct, "unique(values=True)")
        if p:
            return rec.fail(case, p + "; input %r" % (v,))
        rep = len(distinct) < len(v)
        fmin = all(v[0] <= x for x in v)
        oc = ("single" if len(v) == 1 else "one-value" if len(distinct) == 1 else
              "repeats" if rep else "all-distinct") + (":first-is-min" if fmin else ":first-not-min")
        rec.ok(case, outcome=oc, nontrivial=bool(rep or not fmin), calls=2)

    UA = {
        "i8": [1, 2, 3, ALPHA["i8"][-1], -2 ** 63],
        "u8": [1, 0, 2 ** 63, 2 ** 64 - 1, ALPHA["u8"][-1]],
        "i4": [0, 5, -1, 2 ** 31 - 1, ALPHA["i4"][-1]],
        "u1": [1, 0, 255, 128, ALPHA["u1"][-1]],
        "f8": [0.5, -1.0, float("-inf"), -0.0, 0.0, float("inf"), 2.0, ALPHA["f8"][-1]],
        "f4": [0.5, -1.0, 2.0, float(np.float32(0.1)), ALPHA["f4"][-1]],
        "S3": [b"a", b"b", b"", b"ab", ALPHA["S3"][-1]],
        "U3": ["a", "b", "", "é", ALPHA["U3"][-1]],
    }
    NU = ctx.pick(4, 5)
    LU = ctx.pick(5, 6)
    units_u = []
    for dt in KINDS:
        al = UA[dt][:NU] if dt != "f8" else UA[dt][:NU + 2]
        for n in range(1, LU + 1):
            if n < 4:
                units_u.append((dt, n, tuple(al), None))
            else:
                for v0 in al:
                    units_u.append((dt, n, tuple(al), v0))

    def expand_u(u):
        dt, n, al, v0 = u
        if v0 is None:
            for vals in itertools.product(al, repeat=n):
                yield (dt, vals)
        else:
            for vals in itertools.product(al, repeat=n - 1):
                yield (dt, (v0,) + vals)

    ctx.lattice("unique", units_u, one_unique, expand=expand_u,
                bounds=dict(max_len=LU, symbols_per_kind=NU, f8_symbols=NU + 2,
                            alphabets={k: repr(v) for k, v in UA.items()}))

    # ---------------------------------------------------------------- rem_dup
    def one_remdup(case, rec):
        dtv, vals, dtf, flags = case
        arr = np.array(vals, dtype=dtv)
        fl = np.array(flags, dtype={"i8big": "i8", "u8big": "u8"}.get(dtf, dtf))
        v = arr.tolist()
        f = fl.tolist()
        distinct = distinct_values(v)
        snap = (arr.tobytes(), fl.tobytes())
        try:
            r1 = nu.rem_dup(arr, fl)
            r2 = nu.rem_dup(arr, fl, values=True)
        except Exception as e:
            return rec.fail(case, "rem_dup raised %s: %s" % (type(e).__name__, e))
        if (arr.tobytes(), fl.tobytes()) != snap:
            return rec.fail(case, "rem_dup modified an argument")
        if not (isinstance(r2, tuple) and len(r2) == 2):
            return rec.fail(case, "rem_dup(values=True) did not return (indices, values): %r" % (r2,))
        for what, r in (("rem_dup() index array", r1), ("rem_dup(values=True) index array", r2[0])):
            if isinstance(r, (int, np.integer)) and not isinstance(r, bool) and len(v) == 1:
                r = np.atleast_1d(r)
            p = dedup_problem(r, v, distinct, what)
            if p:
                return rec.fail(case, p + "; input %r flags %r" % (v, f))
            for i in r.tolist():
                best = max(f[j] for j in range(len(v)) if v[j] == v[i])
                if not f[i] == best:
                    return rec.fail(case, "%s keeps an element whose flag is not the largest of its value: "
                                    "kept %r; input %r flags %r" % (what, r.tolist(), v, f))
        p = values_problem(r2[1], distinct, "rem_dup(values=True) values")
        if p:
            return rec.fail(case, p + "; input %r flags %r" % (v, f))
        rep = len(distinct) < len(v)
        # does the choice matter: some value whose elements carry different flags
        choice = any(f[i] != f[j] for i in range(len(v)) for j in range(i + 1, len(v)) if v[i] == v[j])
        tie = any(f[i] == f[j] == max(f[k] for k in range(len(v)) if v[k] == v[i])
                  for i in range(len(v)) for j in range(i + 1, len(v)) if v[i] == v[j])
        fmin = all(v[0] <= x for x in v)
        oc = ("single" if len(v) == 1 else "all-distinct" if not rep else
              "repeats:flags-differ" if choice else "repeats:flags-equal")
        if tie and choice:
            oc += "+tie-at-max"
        if not fmin:
            oc += ":first-not-min"
        rec.ok(case, outcome=oc, nontrivial=bool(rep or not fmin), calls=2)

    RV = {
        "i8": [1, 2, 3],
        "i8e": [0, -2 ** 63, 2 ** 63 - 1],
        "u8": [0, 2 ** 63, ALPHA["u8"][-1]],
        "f8": [0.5, -0.0, 0.0, float("inf")][:4],
        "S3": [b"a", b"", b"ab"],
        "U3": ["a", "é", ALPHA["U3"][-1]],
    }
    RF = {
        "i8": [0, 1, 2, -1],
        "f8": [0.5, 2.0, float("-inf"), float("inf")],
        "u1": [0, 1, 255],
        "?": [False, True],
        # 64-bit flags that differ by less than the spacing of a double (time stamps in nanoseconds, packed bit masks):
        # a comparison made through float64 cannot tell them apart
        "i8big": [2 ** 53, 2 ** 53 + 1, 2 ** 62 + 1, -(2 ** 53) - 1],
        "u8big": [2 ** 63 + 1, 2 ** 63 + 2, 2 ** 64 - 1, 2 ** 53 + 1],
    }
    LR = ctx.pick(4, 5)
    units_r = []
    for vk in RV:
        fkinds = list(RF) if vk == "i8" else ["i8"]
        for fk in fkinds:
            for n in range(1, LR + 1):
                if n < 3:
                    units_r.append((vk, fk, n, None))
                else:
                    for head in itertools.product(RV[vk], repeat=2):
                        units_r.append((vk, fk, n, head))

    def expand_r(u):
        vk, fk, n, head = u
        dtv = "i8" if vk == "i8e" else vk
        if head is None:
            vit = itertools.product(RV[vk], repeat=n)
        else:
            vit = (head + t for t in itertools.product(RV[vk], repeat=n - 2))
        for vals in vit:
            for flags in itertools.product(RF[fk], repeat=n):
                yield (dtv, vals, fk, flags)

    ctx.lattice("rem_dup", units_r, one_remdup, expand=expand_r,
                bounds=dict(max_len=LR, value_alphabets={k: repr(v) for k, v in RV.items()},
                            flag_alphabets={k: repr(v) for k, v in RF.items()},
                            cross="every value kind x i8 flags; i8 values x every flag kind"))

    # ------------------------------------------------------------ call sequences
    # sequences of match/unique/rem_dup calls in one process, the SAME array objects passed again and again
    # and edited in place by the caller between calls (mc/worlds.py call_sequences): sort indices cached by
    # object identity, results that are views of a shared scratch buffer, memoised uniqueness checks
    from mc.worlds import call_sequences

    def make_pool():
        return dict(a=np.array([5, 1, 3, 9, 7], dtype="i8"), b=np.array([3, 3, 9, 2, 5, 9], dtype="i8"),
                    c=np.array([9, 4], dtype="i8"), f=np.array([0, 2, 1, 1, 0, 3], dtype="i8"),
                    s=np.array([b"b", b"a", b"cc"]), t=np.array([b"cc", b"x", b"a", b"a"]))

    SEQ_CALLS = [("match", "a", "b", False), ("match", "a", "c", False), ("match", "c", "b", False),
                 ("match", "s", "t", False), ("match", "a", "b", True),
                 ("unique", "b", False), ("unique", "a", False), ("unique", "t", False), ("unique", "b", True),
                 ("rem_dup", "b", "f", False)]
    SEQ_MUT = [("a", "reverse"), ("a", "sort"), ("a", "dup"), ("b", "roll"), ("f", "negate")]

    def seq_run(call, pool):
        if call[0] == "match":
            return [np.asarray(v) for v in nu.match(pool[call[1]], pool[call[2]], presorted=call[3])]
        if call[0] == "unique":
            r = nu.unique(pool[call[1]], values=call[2])
            return [np.asarray(v) for v in (r if isinstance(r, tuple) else (r,))]
        r = nu.rem_dup(pool[call[1]], pool[call[2]], values=call[3])
        return [np.asarray(v) for v in (r if isinstance(r, tuple) else (r,))]

    def seq_mutate(m, pool):
        x = pool[m[0]]
        if m[1] == "reverse":
            x[:] = x[::-1].copy()
        elif m[1] == "sort":
            x.sort()
        elif m[1] == "dup":
            x[0] = x[2]
        elif m[1] == "roll":
            x[:] = np.roll(x, 1)
        elif m[1] == "negate":
            x[:] = -x

    def seq_enabled(hist, ev):
        # match(presorted=True) is only legitimate while `a` is sorted: after the in-place sort and nothing else on a
        if ev[0] == "c" and ev[1] == "match" and ev[4]:
            ma = [e for e in hist if e[0] == "m" and e[1] == "a"]
            return bool(ma) and ma[-1] == ("m", "a", "sort")
        return True

    def seq_must_raise(hist, call):
        # after the in-place edit a[0] = a[2] the first array holds a repeated value: match must reject it
        if call[0] != "match" or call[1] != "a":
            return False
        return any(e == ("m", "a", "dup") for e in hist)

    call_sequences(ctx, "call-sequences", make_pool, SEQ_CALLS, seq_run, lambda: [nu], depth=ctx.pick(3, 4),
                   mutations=SEQ_MUT, mutate=seq_mutate, enabled_after=seq_enabled, nodedup_depth=ctx.pick(3, 3),
                   must_raise=seq_must_raise)

    # ------------------------------------------------------------ long arrays (size thresholds)
    # implementations switch strategy at some input size (sort the probes first, vectorise, chunk): a few fixed long
    # inputs on either side of the usual thresholds (2^12, 2^16), scrambled by a fixed linear congruence, with
    # repeats in the second array and probes that match nothing
    def lcg_perm(n, a, c):
        return [(a * i + c) % n for i in range(n)]        # a coprime to n: a permutation of range(n)

    def one_long(case, rec):
        what, n1, n2, dt = case
        base = np.array(lcg_perm(n1, 7919, 13), dtype="i8") * 3 - n1       # distinct, unsorted
        if what == "match":
            a1 = base.astype(dt) if dt != "S8" else np.array([b"k%06d" % v for v in (base + n1)], dtype="S8")
            pr = np.array([(31 * i + 7) % (n1 + n1 // 3) for i in range(n2)], dtype="i8") * 3 - n1   # some beyond the range, repeats
            a2 = pr.astype(dt) if dt != "S8" else np.array([b"k%06d" % v for v in (pr + n1)], dtype="S8")
            pos = {v: i for i, v in enumerate(a1.tolist())}
            exp1, exp2 = [], []
            for j, v in enumerate(a2.tolist()):
                if v in pos:
                    exp1.append(pos[v])
                    exp2.append(j)
            for presorted in (False, True):
                b1 = np.sort(a1) if presorted else a1
                if presorted:
                    p2 = {v: i for i, v in enumerate(b1.tolist())}
                    e1 = [p2[v] for v in a2.tolist() if v in p2]
                else:
                    e1 = exp1
                try:
                    m1, m2 = nu.match(b1, a2, presorted=presorted)
                except Exception as e:
                    return rec.fail(case, "match(presorted=%r) raised %s: %s" % (presorted, type(e).__name__, e))
                if np.asarray(m1).tolist() != e1 or np.asarray(m2).tolist() != exp2:
                    k = next((i for i, (x, y) in enumerate(zip(np.asarray(m2).tolist(), exp2)) if x != y), min(len(exp2), np.asarray(m2).size))
                    return rec.fail(case, "match(presorted=%r) on %d x %d elements: %d pairs returned, %d expected; first difference at "
                                          "pair %d (pairs must come in the order of the second array)" % (presorted, n1, n2, np.asarray(m2).size, len(exp2), k))
            return rec.ok(case, outcome="match:%s" % dt, nontrivial=True, calls=2)
        vals = (np.array([(31 * i + 7) % n1 for i in range(n2)], dtype="i8") - n1 // 2).astype(dt)
        v = vals.tolist()
        if what == "unique":
            idx = np.asarray(nu.unique(vals))
            got = sorted(vals[idx].tolist())
            if idx.size != len(set(v)) or got != sorted(set(v)):
                return rec.fail(case, "unique on %d elements: %d indices for %d distinct values" % (n2, idx.size, len(set(v))))
            return rec.ok(case, outcome="unique:%s" % dt, nontrivial=True, calls=1)
        flags = np.array([(17 * i + 3) % 11 - 5 for i in range(n2)], dtype="i8")
        idx = np.asarray(nu.rem_dup(vals, flags)).reshape(-1)
        best = {}
        for x, f in zip(v, flags.tolist()):
            best[x] = max(best.get(x, f), f)
        if idx.size != len(best) or sorted(vals[idx].tolist()) != sorted(best) or any(flags[i] != best[v[i]] for i in idx.tolist()):
            return rec.fail(case, "rem_dup on %d elements: %d indices for %d distinct values, or a kept element without the largest flag"
                            % (n2, idx.size, len(best)))
        rec.ok(case, outcome="rem_dup:%s" % dt, nontrivial=True, calls=1)

    # ------------------------------------------------------------ densely packed ids of narrow integer types
    # a first array holding most values of an interval (a lookup table instead of a search suggests itself), in 8- and
    # 16-bit types whose span exceeds half the type's range (differences wrap in the narrow type), probed with EVERY
    # value of the type
    def one_dense(case, rec):
        dt, lo, hi, holes, ps = case
        ii = np.iinfo(dt)
        a1 = np.array([v for v in range(lo, hi + 1) if (v - lo) % holes != holes - 1 or holes == 0], dtype=dt) if holes else np.arange(lo, hi + 1).astype(dt)
        if not ps:
            a1 = a1[(np.arange(a1.size) * 7 + 3) % a1.size] if math.gcd(7, a1.size) == 1 else a1[::-1].copy()
        step = max(1, (ii.max - ii.min + 1) // 4096)
        a2 = np.arange(ii.min, ii.max + 1, step).astype(dt)
        a2 = np.concatenate([a2, a2[:5]])
        try:
            m1, m2 = nu.match(a1, a2, presorted=ps)
        except Exception as e:
            return rec.fail(case, "match raised %s: %s" % (type(e).__name__, e))
        pos = {int(v): i for i, v in enumerate(a1.tolist())}
        e2 = [j for j, v in enumerate(a2.tolist()) if v in pos]
        e1 = [pos[int(a2[j])] for j in e2]
        if np.asarray(m1).tolist() != e1 or np.asarray(m2).tolist() != e2:
            bad = [(int(a1[i]), int(a2[j])) for i, j in zip(np.asarray(m1).tolist(), np.asarray(m2).tolist()) if a1[i] != a2[j]][:3]
            return rec.fail(case, "match of %d dense %s ids %d..%d against every value of the type: %d pairs, %d expected; unequal pairs %r" % (a1.size, dt, lo, hi, np.asarray(m1).size, len(e1), bad))
        rec.ok(case, outcome="dense:%s" % dt, nontrivial=True, calls=1)

    import math
    dunits = [(dt, lo, hi, holes, ps) for dt, spans in (("i1", [(-100, 100), (-128, 127), (-50, 90), (0, 127), (-128, 10)]), ("u1", [(0, 255), (10, 200)]),
                                                         ("i2", [(-20000, 20000), (-32768, 32767), (-100, 32767), (-17000, 16000)]), ("u2", [(0, 65535), (1000, 50000)]))
              for (lo, hi) in spans for holes in (0, 3) for ps in (False, True)]
    ctx.lattice("dense-narrow-integer-ids", dunits, one_dense, bounds=dict(types=["i1", "u1", "i2", "u2"], probes="every value of the type (16-bit: every 16th)"))

    # ------------------------------------------------------------ arguments that are views of ONE buffer
    # match(a, b) / rem_dup(values, flags) where both arguments are overlapping views of the same memory (the same
    # object twice, a prefix and a strided view that start at the same element, shifted windows, a reversed view):
    # the answer is that of independent copies (brute-force pairs for match)
    def one_alias(case, rec):
        what, vname, dt, presorted = case
        base = np.array([5, 9, 1, 7, 3, 11, 4, 8, 0, 6, 2, 10], dtype=dt) if dt[0] != "S" else np.array(
            [b"e", b"i", b"a", b"g", b"c", b"k", b"d", b"h", b"", b"f", b"b", b"j"], dtype=dt)
        if presorted:
            base = np.sort(base)
        views = {"same-object": (base, base), "prefix-and-strided": (base[:6], base[::2]), "shifted-windows": (base[1:9], base[:8]),
                 "reversed": (base, base[::-1]), "overlap": (base[:8], base[4:]), "strided-and-prefix": (base[::2], base[:6]),
                 "negative-strided": (base[:6], base[::-2])}
        a, b = views[vname]
        keep = base.copy()
        try:
            if what == "match":
                m1, m2 = nu.match(a, b, presorted=presorted)
                av, bv = a.tolist(), b.tolist()
                pos = {v: i for i, v in enumerate(av)}
                e2 = [j for j, v in enumerate(bv) if v in pos]
                e1 = [pos[bv[j]] for j in e2]
                if np.asarray(m1).tolist() != e1 or np.asarray(m2).tolist() != e2:
                    return rec.fail(case, "match(%s views of one buffer): pairs %r / %r, expected %r / %r" % (vname, np.asarray(m1).tolist(), np.asarray(m2).tolist(), e1, e2))
            else:
                fl = b if b.dtype.kind in "iu" and b.size == a.size else np.arange(a.size)
                idx = np.asarray(nu.rem_dup(a, fl)).reshape(-1)
                ref = np.asarray(nu.rem_dup(a.copy(), np.array(fl).copy())).reshape(-1)
                if sorted(idx.tolist()) != sorted(ref.tolist()):
                    return rec.fail(case, "rem_dup(%s views of one buffer) keeps %r, on independent copies %r" % (vname, sorted(idx.tolist()), sorted(ref.tolist())))
        except Exception as e:
            return rec.fail(case, "%s on %s views of one buffer raised %s: %s" % (what, vname, type(e).__name__, e))
        if base.tobytes() != keep.tobytes():
            return rec.fail(case, "%s on %s views modified the buffer" % (what, vname))
        rec.ok(case, outcome="alias:%s:%s" % (what, vname), nontrivial=True, calls=1)

    alunits = [(w, v, dt, ps) for w in ("match", "rem_dup") for v in ("same-object", "prefix-and-strided", "shifted-windows", "reversed", "overlap",
                                                                       "strided-and-prefix", "negative-strided")
               for dt in ("i8", "i4", "f8", "S1") for ps in ((False, True) if w == "match" else (False,))
               if not (ps and v in ("reversed", "negative-strided", "shifted-windows"))]
    ctx.lattice("aliased-arguments", alunits, one_alias, bounds=dict(views=["same-object", "prefix-and-strided", "shifted-windows", "reversed", "overlap",
                                                                            "strided-and-prefix", "negative-strided"], dtypes=["i8", "i4", "f8", "S1"]))

    # millions of elements in runs of equal values whose length (7, then 11; the first run shorter) is coprime to every
    # plausible block size: in sorted order a run straddles EVERY position that could be a block boundary
    def one_runs(case, rec):
        what, n, run, first = case
        vals_sorted = (np.arange(n, dtype="i8") + (run - first)) // run
        vals = vals_sorted[(np.arange(n, dtype="i8") * 7919 + 11) % n]
        ndist = int(vals_sorted[-1]) + 1
        if what == "unique":
            idx = np.asarray(nu.unique(vals))
            ok = idx.size == ndist and np.array_equal(np.sort(vals[idx]), np.arange(ndist))
            if not ok:
                return rec.fail(case, "unique on %d elements in runs of %d: %d indices for %d distinct values" % (n, run, idx.size, ndist))
        else:
            flags = (np.arange(n, dtype="i8") * 31 + 3) % 13
            idx = np.asarray(nu.rem_dup(vals, flags)).reshape(-1)
            best = np.full(ndist, -1, dtype="i8")
            np.maximum.at(best, vals, flags)
            ok = idx.size == ndist and np.array_equal(np.sort(vals[idx]), np.arange(ndist)) and np.array_equal(flags[idx], best[vals[idx]])
            if not ok:
                return rec.fail(case, "rem_dup on %d elements in runs of %d: %d indices for %d distinct values, or a kept element "
                                      "without the largest flag of its value" % (n, run, idx.size, ndist))
        rec.ok(case, outcome="runs:%s" % what, nontrivial=True, calls=1)

    from mc.longarr import marks as _marks
    from mc.longarr import harvest_lengths
    _hl, _hb = harvest_lengths([nu])
    ctx.notes.append("long-runs: integer constants harvested from esutil.numpy_util: %r" % (_hb,))
    runits = [(w, m + 5, run, first) for w in ("unique", "rem_dup") for m in tuple(_marks(ctx)[:ctx.pick(1, 4)]) + tuple(3 * b for b in _hb if 3 * b <= 20000000)
              for (run, first) in ((7, 3), (11, 5))]
    ctx.lattice("long-runs", runits, one_runs, bounds=dict(lengths=sorted({u[1] for u in runits}), run_lengths=[7, 11]))

    SIZES = ctx.pick([(100, 4095), (100, 4096), (3000, 5000), (70, 70000)], [(100, 4095), (100, 4096), (3000, 5000), (5000, 3000), (70, 70000), (70000, 70000), (65536, 65537)])
    lunits = [("match", n1, n2, dt) for (n1, n2) in SIZES for dt in ("i8", "f8", "i4", "S8")]
    lunits += [(w, n1, n2, dt) for w in ("unique", "rem_dup") for (n1, n2) in SIZES[:4] for dt in ("i8", "f8")]
    ctx.lattice("long-arrays", lunits, one_long, bounds=dict(sizes=SIZES))
