"""C19 - random sky positions stay in their region; samplers invert the distribution (E3 + E1).

The random sources are replaced by stubs whose every deviate is a symbol of an
explicit lattice (E3, "environment answers"); real seeded generators (legacy
``RandomState`` and new-style ``default_rng``) are used only for the
reproducibility / count / range sub-claims, never to decide anything by chance.
"""
import bisect
import itertools
import math
import random
from fractions import Fraction

import numpy as np

RULE = (
    "cap: full product centre alphabet (equator/seam, generic, 359.999999, 360, |dec| 89.8 / 89.9 / 89.95 / 90 both "
    "signs, 2 seed-chosen; thorough: all 7 lon x 12 lat boundary symbols) x radius alphabet (12 values 1e-6..180 "
    "incl. 90, 179.9, 180, + seed; thorough 24) x dorot x every (u, psi/2pi) pair of the stub-deviate lattice "
    "(u: 0, 1e-300 .. 1-2^-53; psi/2pi: 0, 2^-53, quadrant points, 0.5 -/+ 1e-9, 1-2^-53; + seed), each pair alone "
    "(nrand=1), all pairs together in one call, and nrand=0; every case is run with and without get_radius.  non-trivial = the cap is built by rotation, contains a pole, has radius "
    ">= 90 or a returned point lies across the 0/360 seam from the centre.  "
    "box: boxes {full sphere, generic, zero width in lon / lat / both, polar caps, seam edge, seed} x "
    "system {eq, xyz} x range container x every (t_lon, t_lat) stub pair alone and all together; "
    "non-trivial = everything but the full sphere.  "
    "sampler: grids x densities x {tabulated arrays, lists, function + x, bound method + x, function + "
    "xrange/nx} x cumulative on/off x u in {every tabulated cumulative value, midpoints, half the first "
    "value, 0, 2^-53, 1-2^-53, 1, seed} each alone (sample(1) and scalar sample()) and all together ascending "
    "then descending on the same object; non-trivial = not (flat density on an even grid).  "
    "cholesky: SPD matrices d = 1..5 (identity, diagonal, correlated, rho=0.999999, Hilbert, A A^T + 0.1 I, the correlated ones also scaled by 1e-10, 1e-18, 1e12, "
    "seed) x entry {cholesky_sample with/without means, CholeskySampler.sample(n), .sample()} x n x recording "
    "deviate source {every unit vector e_i, ones, ramp}, two successive draws per sampler; non-trivial = "
    "covariance not diagonal.  indices: all (imax, nrand, unique) in [0..5]^2 x {T,F} x {legacy, new-style, "
    "seed=, default} x 3 seeds plus a recording stub generator.  seeded: randcap / randsphere / Generator / "
    "cholesky with real generators, seeds {0,1,2} x n {0,1,7}: two equal seeded generators give bit-identical "
    "output, the count is exact, the region / range claims hold, and the sampler output equals the reference "
    "map applied to the same generator stream."
)
ASSUMPTIONS = [
    "separations are measured with the Vincenty (atan2) formula in 80-bit long double",
    "cap containment and 'returned radius == actual separation' are decided with an absolute slack of 2e-6 degree "
    "(not in the statement): the construction takes arccos of a cosine, which in float64 cannot resolve angles "
    "below sqrt(2*2^-53) rad = 8.5e-7 degree; two such steps (polar angle, longitude offset) are chained "
    "(measured worst on the lattice: 1.0e-6 degree for the 1e-6 degree cap, 4e-7 degree outside)",
    "the returned radius is additionally compared with sqrt(u)*rad (u = the deviate served by the stub; the anchored "
    "mechanism 'cap sampling by radius and position angle', uniform in r^2) to 1e-14*rad",
    "stub-deviate pairs whose exact target lies within 1e-5 degree of a pole of the frame in which the cap is "
    "constructed (r = 90 degree from the equatorial construction centre of a rotated cap with psi = 0 / pi / 2pi; "
    "r = distance of a directly constructed cap's centre from a pole with the position angle pointing at that pole) "
    "are kept off the lattice (for a directly constructed cap only the SOUTH pole, from which the construction measures its polar angle; "
    "exact north-pole landings are on the lattice and come out finite): the longitude there is 0/0 in the construction "
    "(NaN inside ~6e-7 degree of the pole); this set has measure ~1e-16 of the sphere for a continuous generator; "
    "the number of excluded pairs is in the evidence (counter excluded_on_construction_pole)",
    "box containment slack 1e-9 degree (not in the statement); box edges are either exactly at a pole or at least "
    "0.01 degree away from it (arccos round trip of an edge closer to the pole costs more than 1e-9 degree)",
    "box sampler: besides containment (the statement) the deviate->position map of the anchored mechanism "
    "'uniform-in-sin(dec) box sampling' is checked: lon = lo + t*(hi-lo) within 1e-9 degree, "
    "lat = asin(sin(top) - t*(sin(top)-sin(bottom))) within min(2e-6, 1e-9 + 1e-13/cos(lat)) degree "
    "(arccos conditioning); t or 1-t is accepted for either coordinate; the stub answers the first request for deviates "
    "with the longitude fractions and the second with the latitude fractions (the order the implementation uses), "
    "for the cap: first the r^2 fractions u, then the position-angle fractions",
    "xyz output: unit norm to 1e-15, and (x,y,z) equal cos/sin of the eq output of the same stub to 1e-15",
    "stub generators implement random(n) / random_sample(n) / uniform(low, high, size) (one queue, whichever is called) "
    "and choice(a, size, replace) only",
    "sampler reference: exact rational arithmetic (fractions.Fraction) on the float64 inputs: trapezoid cumulative, "
    "normalised by its last value, the first grid point dropped (its cumulative value 0 is not tabulated by the "
    "implementation, which is why the statement only promises the grid range for u >= the first tabulated value); "
    "below the first tabulated value the first segment is extended as a straight line; with cumulative=True the "
    "supplied values divided by the last one are the table and no point is dropped",
    "sampler tolerance (not in the statement): |value - reference| <= 1e-11*(x_max - x_min) + 4 ulp(|x|) + "
    "2^-50 * |dx/dc| * max(1, |u-c_k|/(c_k+1-c_k)) for the segment k used (the last term is the effect of one rounding "
    "error of a float64 cumulative value; it only matters when a very short first segment is extended far below the "
    "first tabulated value); the same slack is allowed in 'returned exactly at tabulated values', 'non-decreasing' and "
    "'inside the grid' because (u-c_k)*(x_k+1-x_k)/(c_k+1-c_k)+x_k is evaluated in float64",
    "density grids have at least 3 points (2 tabulated cumulative values are needed to interpolate; a 2-point density grid "
    "raises IndexError in stat.interplin - reported to the maintainers of the harness, not enumerated); "
    "cumulative=True tables include a 2-point grid",
    "functional densities are python functions or bound methods (the dispatch is on FunctionType/MethodType)",
    "Cholesky reference: Cholesky-Banachiewicz in long double; tolerance per component i: 1e-10*(sqrt(A_ii)*sum|r| + |mean_i|) "
    "(not in the statement), matrices whose correlation matrix has condition number <= 1e7; either assignment of the drawn flat deviate vector "
    "to (component, sample) - [k*n+j] or [j*d+k] - is accepted since the statement does not fix it; "
    "mean and cov are passed as numpy arrays",
    "cap-argument-types: centre/radius given as float32 are checked against the region with a tolerance of 1e-4 degree (single-precision arguments may be processed in single precision: 360 * 2^-23 = 4e-5 degree; the statement does not promise double-precision results for single-precision input); int64 / Python int / 0-d float64 arguments must reproduce the Python-float results to 1e-9 degree",
    "random_indices: 'honours its range and uniqueness option' includes raising ValueError when the request is "
    "impossible (unique with nrand > imax, or nrand > 0 from an empty range)",
    "seeded sampler: the reference map is applied to rng.uniform(size=n) of an equal seeded generator (the single call the "
    "stub part observes)",
    "cases that use numpy's default (unseeded) generator assert only claims that must hold for every draw (count, ranges, "
    "containment, radii); they are the only cases whose replay draws other deviates than the recorded run",
    "lattice statement only: holds on every listed (centre, radius, deviate, box, grid, density, matrix) point, not for all reals",
]

LD = np.longdouble
E53 = 2.0 ** -53
ONE_M = 1.0 - E53

TOL_SEP = 2e-6          # degree
TOL_BOX = 1e-9          # degree
POLE_EXCL = 1e-5        # degree

# ----------------------------------------------------------------------------
# stubs


class StubRng(object):
    """random source whose every deviate comes from the case literal.

    One queue of fraction vectors in [0,1]: the i-th request (``random(n)`` or
    ``uniform(low, high, n)``, whichever the code under test uses) is answered
    with the i-th vector, mapped to [low, high] for ``uniform``.  A request whose
    size differs from the prepared vector is logged in ``problems``."""

    def __init__(self, queue=()):
        self.queue = [np.array(v, dtype="f8") for v in queue]
        self.log = []
        self.problems = []

    def _serve(self, what, size):
        queue = self.queue
        if not queue:
            self.problems.append("unexpected extra %s request (size %r)" % (what, size))
            n = int(np.prod(size)) if size is not None else 1
            return np.full(n, 0.5)
        v = queue.pop(0)
        if size is None:
            self.problems.append("%s request without a size" % what)
            return v
        n = int(np.prod(size))
        if n != v.size:
            self.problems.append("%s request for %r deviates, %d points were asked of the sampler" % (what, size, v.size))
            v = np.resize(v, n) if v.size else np.full(n, 0.5)
        return v.copy()

    def random(self, size=None):
        self.log.append(("random", size))
        return self._serve("random", size)

    random_sample = random

    def uniform(self, low=0.0, high=1.0, size=None):
        self.log.append(("uniform", low, high, size))
        t = self._serve("uniform", size)
        return low + (high - low) * t


class StubChoice(object):
    """records the arguments random_indices hands to the generator"""

    def __init__(self):
        self.calls = []

    def choice(self, a, size=None, replace=True, p=None):
        self.calls.append((a, size, replace, p))
        n = 0 if size is None else int(size)
        return np.arange(n) % max(int(a), 1)


class RecDist(object):
    """recording standard-deviate source for the Cholesky samplers"""

    def __init__(self, kinds):
        self.kinds = list(kinds)
        self.calls = []
        self.served = []

    def __call__(self, *args):
        self.calls.append(args)
        k = int(args[0]) if len(args) == 1 else int(np.prod(args))
        kind = self.kinds[min(len(self.served), len(self.kinds) - 1)]
        r = deviates(kind, k)
        self.served.append(r.copy())
        return r


def deviates(kind, k):
    if kind == "ones":
        return np.ones(k)
    if kind == "ramp":
        return np.arange(k, dtype="f8") * 0.5 - 1.0
    if kind == "ramp2":
        return 1.5 - 0.25 * np.arange(k, dtype="f8") ** 2
    if isinstance(kind, tuple) and kind[0] == "e":
        r = np.zeros(k)
        if kind[1] < k:
            r[kind[1]] = 1.0
        return r
    raise ValueError(kind)


# ----------------------------------------------------------------------------
# reference: sphere


def vincenty(ra1, dec1, ra2, dec2):
    """separation in degrees (float64) computed in long double with the atan2 formula"""
    ra1, dec1, ra2, dec2 = [np.deg2rad(np.asarray(v, dtype=LD)) for v in (ra1, dec1, ra2, dec2)]
    dl = ra2 - ra1
    num = np.hypot(np.cos(dec2) * np.sin(dl),
                   np.cos(dec1) * np.sin(dec2) - np.sin(dec1) * np.cos(dec2) * np.cos(dl))
    den = np.sin(dec1) * np.sin(dec2) + np.cos(dec1) * np.cos(dec2) * np.cos(dl)
    return np.rad2deg(np.arctan2(num, den)).astype("f8")


def on_construction_pole(dec_c, rad, us, pss, south_only=False):
    """True where the exact target (radius sqrt(u)*rad, position angle 2 pi psi from a centre
    at declination dec_c) lies within POLE_EXCL degree of a pole of that frame"""
    th = np.deg2rad(LD(dec_c))
    r = np.deg2rad(np.sqrt(np.asarray(us, dtype=LD)) * LD(rad))
    psi = 2 * np.pi * np.asarray(pss, dtype=LD)
    # components of the target perpendicular to the polar axis; position angle 0 points south
    # (the construction measures the polar angle from the south pole and psi = 0 decreases it)
    a = np.sin(r) * np.sin(psi)
    b = np.cos(th) * np.cos(r) + np.sin(th) * np.sin(r) * np.cos(psi)
    near = np.asarray(np.hypot(a, b) < math.sin(math.radians(POLE_EXCL)))
    if south_only:
        # the direct construction measures the polar angle from the SOUTH pole: the 0/0 is there; a target on the north
        # pole has sin(pi) = 1.2e-16 in the denominator and comes out finite (any longitude is right at the pole)
        cz = np.sin(th) * np.cos(r) - np.cos(th) * np.sin(r) * np.cos(psi)       # sine of the target's latitude
        near = near & np.asarray(cz < 0)
    return near


def centre_class(ra, dec):
    if abs(dec) >= 89.9:
        return "polar-centre"
    if abs(dec) >= 89.0:
        return "near-pole-centre"
    if ra >= 359.9 or ra <= 0.1:
        return "seam-centre"
    return "generic-centre"


def radius_class(rad):
    if rad < 1e-2:
        return "r-tiny"
    if rad <= 10:
        return "r-small"
    if rad < 90:
        return "r-large"
    if rad < 180:
        return "r>hemisphere"
    return "r-full-sphere"


def check_cap_points(ra, dec, rad, lon, lat, rr, us, n, tol=None):
    """the statement's claims for one cap draw; returns (message | None, wrapped?)"""
    for nm, v in (("longitudes", lon), ("latitudes", lat), ("radii", rr)):
        if v is None:
            continue
        if not isinstance(v, np.ndarray) or v.shape != (n,):
            return "%s: %d points requested, got %r" % (nm, n, getattr(v, "shape", type(v).__name__)), False
        if not np.all(np.isfinite(v)):
            return "%s not finite: %r" % (nm, v[~np.isfinite(v)][:3].tolist()), False
    if n == 0:
        return None, False
    tol = TOL_SEP if tol is None else tol
    if lon.min() < 0.0 or lon.max() > 360.0:
        return "longitude outside [0,360]: %r" % (lon[(lon < 0) | (lon > 360)][:3].tolist(),), False
    if np.abs(lat).max() > 90.0:
        return "latitude outside [-90,90]: %r" % (lat[np.abs(lat) > 90][:3].tolist(),), False
    d = vincenty(ra, dec, lon, lat)
    k = int(np.argmax(d))
    if d[k] > rad + tol:
        return "point (%r, %r) lies %r degree from the centre, outside the cap of radius %r" % (
            float(lon[k]), float(lat[k]), float(d[k]), rad), False
    if rr is not None:
        k = int(np.argmax(np.abs(rr - d)))
        if abs(rr[k] - d[k]) > tol:
            return "returned radius %r differs from the actual separation %r degree (ratio %.4g)" % (
                float(rr[k]), float(d[k]), float(rr[k] / d[k]) if d[k] else float("inf")), False
        if rr.min() < 0 or rr.max() > rad * (1 + 1e-14):
            return "returned radius outside [0, rad]: %r" % (float(rr.max()),), False
        if us is not None:
            exp = np.sqrt(np.asarray(us, dtype="f8")) * rad
            k = int(np.argmax(np.abs(rr - exp)))
            if abs(rr[k] - exp[k]) > 1e-14 * rad:
                return "returned radius %r is not sqrt(u)*rad = %r for the served deviate u = %r" % (
                    float(rr[k]), float(exp[k]), float(us[k])), False
    wrapped = bool(np.any(np.abs(lon - (ra % 360.0)) > 180.0))
    return None, wrapped


# ----------------------------------------------------------------------------
# reference: cumulative sampler (exact rational arithmetic)


def ref_table(xs, ps, cumulative):
    """(tab_x, tab_c): abscissae and normalised cumulative values the deviate is interpolated in"""
    X = [Fraction(float(v)) for v in xs]
    P = [Fraction(float(v)) for v in ps]
    if cumulative:
        return X, [p / P[-1] for p in P]
    c = [Fraction(0)]
    for i in range(1, len(X)):
        c.append(c[-1] + (P[i] + P[i - 1]) * (X[i] - X[i - 1]) / 2)
    return X[1:], [v / c[-1] for v in c[1:]]


def ref_map(tab_x, tab_c, u):
    """-> (exact value, conditioning): conditioning = |dx/dc| * max(1, |u-c_k|/(c_k+1-c_k)) of the segment
    used, i.e. how strongly one rounding error of a tabulated float64 cumulative value moves the result"""
    u = Fraction(float(u))
    k = bisect.bisect_right(tab_c, u) - 1
    k = min(max(k, 0), len(tab_c) - 2)
    dx = tab_x[k + 1] - tab_x[k]
    dc = tab_c[k + 1] - tab_c[k]
    return tab_x[k] + (u - tab_c[k]) * dx / dc, float(abs(dx / dc) * max(1, abs(u - tab_c[k]) / dc))


DENS = {
    "flat": lambda x, x0, x1: 0.0 * x + 1.0,
    "ramp": lambda x, x0, x1: 1.0 + (x - x0),
    "peak": lambda x, x0, x1: np.exp(-0.5 * ((x - 0.5 * (x0 + x1)) / (0.15 * (x1 - x0))) ** 2) + 0.01,
    "decreasing": lambda x, x0, x1: 1.0 / (1.0 + 3.0 * (x - x0) / (x1 - x0)),
    "steep": lambda x, x0, x1: 1e-4 + ((x - x0) / (x1 - x0)) ** 6,
}
CUMS = {
    "c-flat": lambda x, x0, x1: (x - x0),
    "c-quad": lambda x, x0, x1: (x - x0) ** 2 + 0.25 * (x - x0),
    "c-exp": lambda x, x0, x1: 1.0 - np.exp(-3.0 * (x - x0) / (x1 - x0)),
    "c-offset": lambda x, x0, x1: (x - x0) + 0.5 * (x1 - x0),
}

GRIDS = {
    "even4": (0.0, 1.0, 2.0, 3.0),
    "uneven5": (0.0, 0.1, 0.15, 0.7, 2.0),
    "negative": (-5.5, -4.0, -3.75, -1.0),
    "three": (1.0, 2.0, 4.0),
    "int5": (0, 1, 2, 4, 8),
    "lin33": tuple(round(-2.0 + 0.125 * i, 6) for i in range(33)),
    "tiny-span": (0.0, 2.5e-10, 1e-9, 3e-9),
    "offset": (1e6, 1e6 + 0.5, 1e6 + 2.0, 1e6 + 2.25, 1e6 + 4.0),
    "log9": tuple(round(10 ** (0.25 * i), 9) for i in range(9)),
}
GRIDS_T = {
    "lin101": tuple(round(-4.5 + 0.09 * i, 6) for i in range(101)),
    "int9": tuple(range(-3, 6)),
    "wide": (-1e3, -1.0, 0.0, 1e-3, 2.0, 1e3),
    "clustered": (0.0, 1.0, 1.000001, 1.000002, 2.0, 2.5, 2.500001, 3.0),
    "neg-log": tuple(round(-10 ** (0.5 * i), 9) for i in range(6, -1, -1)),
}


class _Bound(object):
    """density given as a bound method (the MethodType branch of the dispatch)"""

    def __init__(self, f, x0, x1):
        self.f, self.x0, self.x1 = f, x0, x1

    def p(self, x):
        return self.f(x, self.x0, self.x1)


def make_func(name, x0, x1, bound=False):
    f = (DENS.get(name) or CUMS[name])
    if bound:
        return _Bound(f, x0, x1).p
    return lambda x: f(x, x0, x1)


def tab_values(name, xs):
    x = np.array(xs, dtype="f8")
    f = (DENS.get(name) or CUMS[name])
    return tuple(float(v) for v in np.asarray(f(x, float(x[0]), float(x[-1])), dtype="f8"))


# ----------------------------------------------------------------------------
# reference: Cholesky


def ref_cholesky(A):
    A = np.array(A, dtype=LD)
    d = A.shape[0]
    L = np.zeros((d, d), dtype=LD)
    for i in range(d):
        for j in range(i + 1):
            s = A[i, j]
            for k in range(j):
                s = s - L[i, k] * L[j, k]
            if i == j:
                if not s > 0:
                    raise ValueError("matrix of the lattice is not positive definite")
                L[i, i] = np.sqrt(s)
            else:
                L[i, j] = s / L[j, j]
    return L


def hilbert(d):
    return tuple(tuple(1.0 / (i + j + 1) for j in range(d)) for i in range(d))


def aat(rows):
    A = np.array(rows, dtype="f8")
    M = A.dot(A.T) + 0.1 * np.eye(A.shape[0])
    M = 0.5 * (M + M.T)
    return tuple(tuple(float(v) for v in r) for r in M)


MATRICES = [
    ("1x1", ((4.0,),)),
    ("identity2", ((1.0, 0.0), (0.0, 1.0))),
    ("diag3", ((4.0, 0.0, 0.0), (0.0, 0.25, 0.0), (0.0, 0.0, 9.0))),
    ("corr2", ((1.0, 0.5), (0.5, 2.0))),
    ("neg-corr2", ((1.5, -0.3), (-0.3, 2.7))),
    ("rho0.999999", ((1.0, 0.999999), (0.999999, 1.0))),
    ("aat3", aat(((1.0, 2.0, 0.0), (0.5, -1.0, 3.0), (2.0, 0.0, 1.0)))),
    ("aat4", aat(((1.0, 0.0, 2.0, -1.0), (0.0, 3.0, 1.0, 0.5), (2.0, -2.0, 0.0, 1.0), (0.25, 0.5, 0.75, 1.0)))),
    ("hilbert5", hilbert(5)),
    ("aat5", aat(((1.0, 0.5, 0.0, 0.0, 2.0), (0.0, 1.0, -1.0, 0.0, 0.0), (3.0, 0.0, 1.0, 0.0, 0.5),
                  (0.0, 0.0, 0.0, 0.1, 0.0), (1.0, 1.0, 1.0, 1.0, 1.0)))),
    ("scaled3", ((1e6, 10.0, 0.0), (10.0, 1e-2, 1e-5), (0.0, 1e-5, 1e-6))),
]
# every physical unit is admissible: the same correlated matrices scaled far down and up (a test such as
# "is this matrix diagonal?" with an absolute tolerance breaks exactly here)
for _nm in ("corr2", "neg-corr2", "rho0.999999", "aat3"):
    _cov = dict(MATRICES)[_nm]
    for _sc in (1e-10, 1e-18, 1e12):
        MATRICES.append(("%s*%g" % (_nm, _sc), tuple(tuple(v * _sc for v in row) for row in _cov)))
MEANS = {1: (20.0,), 2: (20.0, -40.0), 3: (0.5, 0.0, -7.25), 4: (1.0, 2.0, 3.0, 4.0),
         5: (-1e3, 0.0, 1e-3, 5.5, 42.0)}


# ----------------------------------------------------------------------------
# alphabets: sky

CENTRES = [(0.0, 0.0), (37.0, 45.0), (359.999999, -45.0), (360.0, 10.0), (12.0, 89.8), (12.0, 89.95),
           (0.0, 90.0), (0.0, -90.0), (200.0, -89.8)]
CENTRES += [(180.0, 0.0), (90.0, 0.0), (270.0, 30.0), (1e-9, -1e-9), (123.456, -67.89), (0.0, 89.9),
            (33.0, -89.9), (45.0, 89.89999), (300.0, 90.0), (359.5, 0.25)]
# thorough: the full longitude x latitude product of the boundary symbols
CENTRES_T = [(lon_, lat_) for lon_ in (0.0, 1e-6, 90.0, 180.0, 270.0, 359.999999, 360.0)
             for lat_ in (-90.0, -89.95, -89.9, -89.8, -45.0, 0.0, 1e-9, 45.0, 89.8, 89.9, 89.95, 90.0)]
RADII = [1e-6, 1e-3, 1.0, 100.0, 179.9, 180.0, 1e-4, 0.1, 10.0, 45.0, 90.0, 135.0]
RADII_T = [1e-5, 1e-2, 0.5, 5.0, 30.0, 60.0, 89.999, 90.001, 120.0, 150.0, 170.0, 179.999]
US = [0.0, 1e-12, 0.3, 0.64, 0.999999, ONE_M, 1e-300, 1e-6, 0.01, 0.25, 0.5, 0.81]
US_T = [1e-9, 1e-3, 0.1, 0.9, 0.99, 1 - 1e-12]
PSIS = [0.0, 0.123, 0.25, 0.5 - 1e-9, 0.5 + 1e-9, 0.77, ONE_M, E53, 1e-9, 0.375, 0.5, 0.625, 0.75, 1 - 1e-9]
PSIS_T = [0.0625, 0.2, 0.3, 0.45, 0.55, 0.7, 0.875, 0.95]

BOXES = [
    ((0.0, 360.0), (-90.0, 90.0)),
    ((10.0, 35.0), (-25.0, 15.0)),
    ((10.0, 10.0), (5.0, 5.0)),
    ((0.0, 360.0), (80.0, 90.0)),
    ((350.0, 360.0), (-90.0, -89.0)),
    ((10.0, 10.0), (-25.0, 15.0)),
    ((10.0, 35.0), (0.0, 0.0)),
    ((0.0, 1e-6), (-1e-6, 1e-6)),
    ((0.0, 360.0), (90.0, 90.0)),
    ((0.0, 360.0), (-90.0, -90.0)),
    ((359.0, 360.0), (89.99, 90.0)),
    ((100.0, 260.0), (-89.99, 89.99)),
    ((0.0, 180.0), (-90.0, 0.0)),
    ((123.0, 123.5), (60.0, 60.000001)),
]
BOXES_T = [((a_, b_), (c_, d_)) for (a_, b_) in ((0.0, 0.0), (0.0, 180.0), (180.0, 360.0), (360.0, 360.0), (45.5, 46.0))
           for (c_, d_) in ((-90.0, -89.99), (-89.99, -89.99), (-45.0, 45.0), (0.0, 90.0), (-1e-9, 1e-9), (89.0, 89.99))]
TS = [0.0, 0.5, ONE_M, E53, 1e-9, 0.25, 0.75, 1 - 1e-9]
TS_T = [1e-300, 1e-12, 0.001, 0.1, 0.4, 0.6, 0.9, 0.999, 1 - 1e-12]


def box_class(rar, decr):
    if tuple(rar) == (0.0, 360.0) and tuple(decr) == (-90.0, 90.0):
        return "full-sphere"
    c = []
    if rar[0] == rar[1]:
        c.append("zero-lon-width")
    if decr[0] == decr[1]:
        c.append("zero-lat-width")
    if abs(decr[0]) == 90.0 or abs(decr[1]) == 90.0:
        c.append("touches-pole")
    if rar[1] == 360.0 or rar[0] == 0.0:
        c.append("seam-edge")
    return "+".join(c) if c else "interior-box"


def check_box_points(rar, decr, lon, lat, n):
    for nm, v in (("longitudes", lon), ("latitudes", lat)):
        if not isinstance(v, np.ndarray) or v.shape != (n,):
            return "%s: %d points requested, got %r" % (nm, n, getattr(v, "shape", type(v).__name__))
        if not np.all(np.isfinite(v)):
            return "%s not finite" % nm
    if n == 0:
        return None
    if lon.min() < rar[0] - TOL_BOX or lon.max() > rar[1] + TOL_BOX:
        bad = lon[(lon < rar[0] - TOL_BOX) | (lon > rar[1] + TOL_BOX)]
        return "longitude %r outside the box [%r, %r]" % (float(bad[0]), rar[0], rar[1])
    if lat.min() < decr[0] - TOL_BOX or lat.max() > decr[1] + TOL_BOX:
        bad = lat[(lat < decr[0] - TOL_BOX) | (lat > decr[1] + TOL_BOX)]
        return "latitude %r outside the box [%r, %r]" % (float(bad[0]), decr[0], decr[1])
    if lon.min() < 0.0 or lon.max() > 360.0 or np.abs(lat).max() > 90.0:
        return "position outside [0,360]x[-90,90]"
    return None


# ----------------------------------------------------------------------------


def main(ctx):
    # every lattice part once more under FP traps + warnings-as-errors (clean on the unchanged tree, see DESIGN section 0)
    ctx.envstrict_all = True
    from esutil import coords
    from esutil import random as erandom

    rnd = random.Random(1900 + ctx.seed)
    seed_centres = [(round(rnd.uniform(0.5, 359.5), 3), round(rnd.uniform(-85.0, 85.0), 3)),
                    (round(rnd.uniform(0.5, 359.5), 3), round(rnd.choice([-1, 1]) * rnd.uniform(86.0, 89.85), 3))]
    seed_radius = round(10 ** rnd.uniform(-2.0, 1.9), 4)
    seed_u = round(rnd.uniform(0.05, 0.95), 6)
    seed_psi = round(rnd.uniform(0.02, 0.98), 6)
    lo = round(rnd.uniform(1.0, 300.0), 2)
    dlo = round(rnd.uniform(-80.0, 60.0), 2)
    seed_box = ((lo, round(lo + rnd.uniform(0.5, 50.0), 2)), (dlo, round(dlo + rnd.uniform(0.5, 25.0), 2)))
    seed_t = round(rnd.uniform(0.02, 0.98), 6)
    seed_su = round(rnd.uniform(0.02, 0.98), 6)
    seed_grid = tuple(sorted(set(round(rnd.uniform(-3.0, 7.0), 3) for _ in range(6))))
    if len(seed_grid) < 4:
        seed_grid = (-2.5, 0.125, 1.0, 6.75)
    sa = [[round(rnd.uniform(-2.0, 2.0), 3) for _ in range(4)] for _ in range(4)]
    seed_matrix = ("seed4", aat(sa))
    ctx.notes.append("seed-chosen generic symbols: centres %r, radius %r, u %r, psi/2pi %r, box %r, t %r, "
                     "sampler u %r, sampler grid %r, 4x4 matrix A A^T+0.1 I with A=%r"
                     % (seed_centres, seed_radius, seed_u, seed_psi, seed_box, seed_t, seed_su, seed_grid, sa))
    ctx.notes.append("cap: stub pairs whose exact target is within %g degree of a pole of the construction frame are "
                     "not run (see assumptions); their number is the counter excluded_on_construction_pole" % POLE_EXCL)

    # ------------------------------------------------------------------- cap
    def one_cap(case, rec):
        ra, dec, rad, dorot, us, pss = case
        rot = bool(dorot or abs(dec) >= 89.9)
        us = np.array(us, dtype="f8")
        pss = np.array(pss, dtype="f8")
        excl = on_construction_pole(0.0 if rot else dec, rad, us, pss, south_only=not rot)
        if excl.any():
            rec.count("excluded_on_construction_pole", int(excl.sum()))
            us, pss = us[~excl], pss[~excl]
            if us.size == 0:
                return
        n = int(us.size)
        stub = StubRng([us, pss])
        try:
            out = coords.randcap(n, ra, dec, rad, get_radius=True, dorot=dorot, rng=stub)
        except Exception as e:
            return rec.fail(case, "randcap(get_radius=True) raised %s: %s" % (type(e).__name__, e))
        if not (isinstance(out, tuple) and len(out) == 3):
            return rec.fail(case, "randcap(get_radius=True) did not return (ra, dec, radius): %r" % (type(out),))
        if stub.problems or stub.queue:
            return rec.fail(case, "generator protocol: %s" % ("; ".join(stub.problems) or "a prepared deviate vector was not requested"))
        lon, lat, rr = out
        msg, wrapped = check_cap_points(ra, dec, rad, lon, lat, rr, us, n)
        if msg:
            return rec.fail(case, "%s cap: %s" % (("polar-centre" if abs(dec) >= 89.9 else "rotated") if rot else "direct", msg))
        stub2 = StubRng([us, pss])
        try:
            out2 = coords.randcap(n, ra, dec, rad, dorot=dorot, rng=stub2)
        except Exception as e:
            return rec.fail(case, "randcap(get_radius=False) raised %s: %s" % (type(e).__name__, e))
        if not (isinstance(out2, tuple) and len(out2) == 2):
            return rec.fail(case, "randcap without get_radius did not return (ra, dec)")
        if not (np.array_equal(out2[0], lon) and np.array_equal(out2[1], lat)):
            return rec.fail(case, "get_radius changes the points drawn from the same deviates")
        contains_pole = (90.0 - abs(dec)) < rad
        oc = "%s/%s/%s/%s" % ("rotated" if rot else "direct", centre_class(ra, dec), radius_class(rad),
                              "across-seam" if wrapped else "same-side")
        rec.ok(case, outcome=oc, nontrivial=bool(rot or wrapped or contains_pole or rad >= 90.0), calls=2)

    centres = CENTRES + [c for c in ctx.pick([], CENTRES_T) if c not in CENTRES] + seed_centres
    radii = RADII + ctx.pick([], RADII_T) + [seed_radius]
    us_a = US + ctx.pick([], US_T) + [seed_u]
    ps_a = PSIS + ctx.pick([], PSIS_T) + [seed_psi]
    pairs = list(itertools.product(us_a, ps_a))
    units_cap = [(ra, dec, rad, dorot) for (ra, dec) in centres for rad in radii for dorot in (False, True)]

    # draws that land EXACTLY on the north pole of a directly constructed cap (sqrt(u)*rad == 90-dec, position angle due
    # north): finite, on the pole, at the drawn radius (the mirror case, the south pole, is the documented 0/0 of the
    # construction and stays off the lattice, see ASSUMPTIONS)
    POLE_LANDINGS = [(10.0, 60.0, 60.0, 0.25), (200.0, 85.0, 10.0, 0.25), (359.0, 40.0, 100.0, 0.25), (33.0, -42.0, 176.0, 0.5625), (10.0, 0.0, 180.0, 0.25), (77.0, 30.0, 120.0, 0.25)]
    ctx.lattice("cap-north-pole-landings", [(ra, dec, rad, False, (u_,), (0.5,)) for (ra, dec, rad, u_) in POLE_LANDINGS]
                + [(ra, dec, rad, False, (u_, 0.3, u_), (0.5, 0.1, 0.5)) for (ra, dec, rad, u_) in POLE_LANDINGS], one_cap, engine="environment",
                bounds=dict(landings=[list(t) for t in POLE_LANDINGS]))

    def expand_cap(u):
        ra, dec, rad, dorot = u
        for (uu, pp) in pairs:
            yield (ra, dec, rad, dorot, (uu,), (pp,))
        yield (ra, dec, rad, dorot, tuple(p[0] for p in pairs), tuple(p[1] for p in pairs))
        yield (ra, dec, rad, dorot, (), ())

    # the same caps with the centre and radius given as other numeric TYPES (numpy float32 / int scalars, 0-d arrays,
    # Python ints): the result must be what the float64 value of the argument gives
    def one_cap_types(case, rec):
        ra, dec, rad, dorot, form = case
        us = np.array([0.3, 0.64, 0.999999, 1e-12], dtype="f8")
        pss = np.array([0.123, 0.77, 0.25, 0.5 + 1e-9], dtype="f8")
        conv = {"f4": np.float32, "f4-0d": lambda v: np.array(v, dtype="f4"), "i8": lambda v: np.int64(v), "int": int,
                "f8-0d": lambda v: np.array(v, dtype="f8")}[form]
        try:
            ref = coords.randcap(4, float(ra), float(dec), float(rad), get_radius=True, dorot=dorot, rng=StubRng([us, pss]))
            got = coords.randcap(4, conv(ra), conv(dec), conv(rad) if form != "int" or float(rad).is_integer() else rad,
                                 get_radius=True, dorot=dorot, rng=StubRng([us, pss]))
        except Exception as e:
            return rec.fail(case, "randcap with %s arguments raised %s: %s" % (form, type(e).__name__, e))
        for nm, a, b in zip(("ra", "dec", "radius"), got, ref):
            a, b = np.asarray(a, dtype="f8"), np.asarray(b, dtype="f8")
            if form.startswith("f4"):
                # single-precision arguments may be processed in single precision (the statement promises the region,
                # not double-precision results for single-precision input): only the region oracle below applies
                continue
            if a.shape != b.shape or not np.all(np.abs(a - b) <= 1e-9):
                return rec.fail(case, "randcap with the centre/radius given as %s: %s = %r, with Python floats of the same value %r"
                                % (form, nm, a.tolist(), b.tolist()))
        # single-precision arguments: the positions may carry single-precision error (360 * 2^-23 = 4e-5 degree)
        msg, _ = check_cap_points(float(ra), float(dec), float(rad), got[0], got[1], got[2], us if not form.startswith("f4") else None, 4,
                                  tol=1e-4 if form.startswith("f4") else None)
        if msg:
            return rec.fail(case, "%s arguments: %s" % (form, msg))
        rec.ok(case, outcome="types:%s" % form, nontrivial=True, calls=2)

    tunits = [(ra, dec, rad, dorot, form) for (ra, dec) in ((37.0, 45.0), (12.0, 10.0), (0.0, 0.0), (200.0, -60.0))
              for rad in (0.0009765625, 1.0, 100.0) for dorot in (False, True) for form in ("f4", "f4-0d", "i8", "int", "f8-0d")
              if not (form in ("i8", "int") and rad < 1)]
    ctx.lattice("cap-argument-types", tunits, one_cap_types, engine="environment", bounds=dict(forms=["f4", "f4-0d", "i8", "int", "f8-0d"]))

    ctx.lattice("cap", units_cap, one_cap, expand=expand_cap, engine="environment",
                bounds=dict(centres=centres, radii=radii, u=us_a, psi_over_2pi=ps_a, dorot=[False, True],
                            get_radius=[True, False], draws=["each pair alone", "all pairs in one call", "nrand=0"]))

    # ------------------------------------------------------------------- box
    def one_box(case, rec):
        rar, decr, system, kind, tl, tb = case
        if kind.startswith("arr-"):
            mk = (lambda v, _t=kind[4:]: np.array(v, dtype=_t))       # the limits as a narrow / other numeric array type
        elif kind == "pyint":
            mk = (lambda v: [int(t) for t in v])
        else:
            mk = list if kind == "list" else (tuple if kind == "tuple" else (lambda v: np.array(v, dtype="f8")))
        n = len(tl)
        stub = StubRng([tl, tb])
        try:
            lon, lat = coords.randsphere(n, ra_range=mk(rar), dec_range=mk(decr), rng=stub)
        except Exception as e:
            return rec.fail(case, "randsphere raised %s: %s" % (type(e).__name__, e))
        if stub.problems or stub.queue:
            return rec.fail(case, "generator protocol: %s" % ("; ".join(stub.problems) or "a prepared deviate vector was not requested"))
        msg = check_box_points(rar, decr, lon, lat, n)
        if msg:
            return rec.fail(case, "box: " + msg)
        ncall = 1
        if n:
            tlv = np.array(tl, dtype="f8")
            explon = rar[0] + (rar[1] - rar[0]) * tlv
            explon2 = rar[1] - (rar[1] - rar[0]) * tlv
            if not (np.abs(lon - explon).max() <= TOL_BOX or np.abs(lon - explon2).max() <= TOL_BOX):
                return rec.fail(case, "box: longitudes %r are not lo + t*(hi-lo) = %r for the served deviates t" % (lon[:3].tolist(), explon[:3].tolist()))
            t = np.array(tb, dtype=LD)
            s1 = np.sin(np.deg2rad(LD(decr[1])))
            s0 = np.sin(np.deg2rad(LD(decr[0])))
            worst = None
            for tt in (t, 1 - t):       # either orientation of the deviate is a uniform-in-sin(lat) sampler
                ref = np.rad2deg(np.arcsin(np.clip(s1 - tt * (s1 - s0), -1, 1))).astype("f8")
                tol = np.minimum(2e-6, 1e-9 + 1e-13 / np.maximum(np.cos(np.deg2rad(ref)), 1e-30))
                k = int(np.argmax(np.abs(lat - ref) - tol))
                if abs(lat[k] - ref[k]) <= tol[k]:
                    worst = None
                    break
                if worst is None:
                    worst = (float(lat[k]), float(tb[k]), float(ref[k]))
            if worst is not None:
                return rec.fail(case, "box: latitude %r for deviate t=%r is not uniform in sin(lat): "
                                "asin(sin(top)-t*(sin(top)-sin(bottom))) = %r" % worst)
        if system == "xyz":
            stub3 = StubRng([tl, tb])
            try:
                xyz = coords.randsphere(n, ra_range=mk(rar), dec_range=mk(decr), system="xyz", rng=stub3)
            except Exception as e:
                return rec.fail(case, "randsphere(system='xyz') raised %s: %s" % (type(e).__name__, e))
            ncall += 1
            if not (isinstance(xyz, tuple) and len(xyz) == 3 and all(
                    isinstance(v, np.ndarray) and v.shape == (n,) for v in xyz)):
                return rec.fail(case, "randsphere(system='xyz') did not return three arrays of %d points" % n)
            if n:
                x, y, z = xyz
                if np.abs(x * x + y * y + z * z - 1.0).max() > 1e-15:
                    return rec.fail(case, "xyz output is not on the unit sphere")
                lo_, la_ = np.deg2rad(lon), np.deg2rad(lat)
                ex = np.array([np.cos(la_) * np.cos(lo_), np.cos(la_) * np.sin(lo_), np.sin(la_)])
                if np.abs(np.array(xyz) - ex).max() > 1e-15:
                    return rec.fail(case, "xyz output differs from cos/sin of the eq output of the same deviates by %r"
                                    % float(np.abs(np.array(xyz) - ex).max()))
        rec.ok(case, outcome="%s/%s%s" % (box_class(rar, decr), system, "/empty" if n == 0 else ""),
               nontrivial=box_class(rar, decr) != "full-sphere", calls=ncall)

    boxes = BOXES + ctx.pick([], BOXES_T) + [seed_box]
    ts = TS + ctx.pick([], TS_T) + [seed_t]
    tpairs = list(itertools.product(ts, ts))
    units_box = [(rar, decr, system, kind) for (rar, decr) in boxes for system in ("eq", "xyz")
                 for kind in ("list", "tuple", "array")]

    # integral limits given as narrow numpy integer arrays, float32 arrays and Python ints: the value of the limit
    # counts, not the arithmetic of its type (90 + int8(60) wraps)
    IBOXES = [((10, 100), (40, 60)), ((0, 120), (-60, -38)), ((0, 360), (-90, 90)), ((100, 101), (38, 39)), ((0, 127), (-90, 0)), ((3, 4), (89, 90))]
    for (rar, decr) in IBOXES:
        for t_ in ("i1", "u1", "i2", "u2", "i4", "i8"):        # (float32 limits may be processed in single precision, see ASSUMPTIONS)
            ii = np.iinfo(t_) if t_[0] in "iu" else None
            if ii is not None and not all(ii.min <= v <= ii.max for v in rar + decr):
                continue
            units_box.append((tuple(float(v) for v in rar), tuple(float(v) for v in decr), "eq", "arr-" + t_))
        units_box.append((tuple(float(v) for v in rar), tuple(float(v) for v in decr), "xyz", "pyint"))

    def expand_box(u):
        rar, decr, system, kind = u
        for (a, b) in tpairs:
            yield (rar, decr, system, kind, (a,), (b,))
        yield (rar, decr, system, kind, tuple(p[0] for p in tpairs), tuple(p[1] for p in tpairs))
        yield (rar, decr, system, kind, (), ())

    ctx.lattice("box", units_box, one_box, expand=expand_box, engine="environment",
                bounds=dict(boxes=boxes, t=ts, systems=["eq", "xyz"], range_containers=["list", "tuple", "array"],
                            typed_limits=dict(boxes=[list(map(list, b)) for b in IBOXES], types=["i1", "u1", "i2", "u2", "i4", "i8", "Python int"])))

    # --------------------------------------------------------------- sampler
    def sampler_setup(mode, xs, spec, cumulative):
        """-> (constructor kwargs builder, grid xs as floats, tabulated values) for the reference"""
        if mode == "func-xrange":
            a, b, nx = xs
            step = (b - a) / (nx - 1)
            grid = [a + i * step for i in range(nx)]
            grid[-1] = b
        else:
            grid = [float(v) for v in xs]
        x0, x1 = float(grid[0]), float(grid[-1])
        if mode in ("tab", "tab-list", "tab-int"):
            ps = [float(v) for v in spec]
        else:
            f = (DENS.get(spec) or CUMS[spec])
            ps = [float(v) for v in np.asarray(f(np.array(grid, dtype="f8"), x0, x1), dtype="f8")]
        return grid, ps, x0, x1

    def build_generator(mode, xs, spec, cumulative, rng=None, seed=None):
        kw = dict(cumulative=cumulative)
        if rng is not None:
            kw["rng"] = rng
        if seed is not None:
            kw["seed"] = seed
        grid, ps, x0, x1 = sampler_setup(mode, xs, spec, cumulative)
        keep = None
        if mode == "tab":
            xa, pa = np.array(xs, dtype="f8"), np.array(spec, dtype="f8")
            keep = (xa, pa, xa.copy(), pa.copy())
            g = erandom.Generator(pa, x=xa, **kw)
        elif mode == "tab-int":
            xa, pa = np.array(xs, dtype="i8"), np.array(spec, dtype="i8")
            keep = (xa, pa, xa.copy(), pa.copy())
            g = erandom.Generator(pa, x=xa, **kw)
        elif mode == "tab-list":
            g = erandom.Generator(list(spec), x=list(xs), **kw)
        elif mode == "func-x":
            xa = np.array(xs, dtype="f8")
            keep = (xa, xa, xa.copy(), xa.copy())
            g = erandom.Generator(make_func(spec, x0, x1), x=xa, **kw)
        elif mode == "method-x":
            g = erandom.Generator(make_func(spec, x0, x1, bound=True), x=np.array(xs, dtype="f8"), **kw)
        elif mode == "func-xrange":
            g = erandom.Generator(make_func(spec, x0, x1), xrange=[xs[0], xs[1]], nx=xs[2], **kw)
        else:
            raise ValueError(mode)
        return g, grid, ps, keep

    def resolve_u(uspec, tab_c):
        kind = uspec[0]
        if kind == "lit":
            return uspec[1]
        if kind == "cum":
            return float(tab_c[uspec[1]])
        if kind == "mid":
            return float((tab_c[uspec[1]] + tab_c[uspec[1] + 1]) / 2)
        if kind == "half-first":
            return float(tab_c[0] / 2)
        raise ValueError(uspec)

    def uspecs_for(ntab, first_positive):
        out = [("lit", 0.0), ("lit", E53)]
        if first_positive:
            out.append(("half-first",))
        for k in range(ntab):
            out.append(("cum", k))
            if k + 1 < ntab:
                out.append(("mid", k))
        out += [("lit", seed_su), ("lit", ONE_M), ("lit", 1.0)]
        return out

    def check_values(case, rec, got, us, uspecs, tab_x, tab_c, grid, what):
        span = float(grid[-1]) - float(grid[0])
        tol0 = 1e-11 * span + 4 * float(np.spacing(max(abs(float(grid[0])), abs(float(grid[-1])))))
        tolmax = tol0
        if not (isinstance(got, np.ndarray) and got.shape == (len(us),)):
            rec.fail(case, "%s: %d values requested, got %r" % (what, len(us), getattr(got, "shape", type(got).__name__)))
            return False
        if not np.all(np.isfinite(got)):
            rec.fail(case, "%s: non-finite value" % what)
            return False
        for i, (u, sp) in enumerate(zip(us, uspecs)):
            ref, cond = ref_map(tab_x, tab_c, u)
            ref = float(ref)
            tol = tol0 + 8 * 2.0 ** -53 * cond
            tolmax = max(tol, tolmax)
            g = float(got[i])
            if abs(g - ref) > tol:
                rec.fail(case, "%s: deviate u=%r (%s) gave %r, linear interpolation of the grid against the "
                         "normalised cumulative gives %r" % (what, u, sp[0], g, ref))
                return False
            if sp[0] == "cum" and abs(g - float(tab_x[sp[1]])) > tol:
                rec.fail(case, "%s: u equal to the cumulative value of grid point %r returned %r"
                         % (what, float(tab_x[sp[1]]), g))
                return False
            if Fraction(u) >= tab_c[0] and not (float(grid[0]) - tol <= g <= float(grid[-1]) + tol):
                rec.fail(case, "%s: u=%r >= first tabulated cumulative value gave %r outside the grid [%r, %r]"
                         % (what, u, g, float(grid[0]), float(grid[-1])))
                return False
        order = np.argsort(np.array(us, dtype="f8"), kind="stable")
        gs = got[order]
        if gs.size > 1 and np.any(np.diff(gs) < -tolmax):
            k = int(np.argmin(np.diff(gs)))
            rec.fail(case, "%s: the map is decreasing in u: u=%r -> %r, u=%r -> %r"
                     % (what, us[order[k]], float(gs[k]), us[order[k + 1]], float(gs[k + 1])))
            return False
        return True

    def one_sampler(case, rec):
        mode, xs, spec, cumulative, draw = case
        stub = StubRng()
        try:
            g, grid, ps, keep = build_generator(mode, xs, spec, cumulative, rng=stub)
        except Exception as e:
            return rec.fail(case, "Generator(...) raised %s: %s" % (type(e).__name__, e))
        tab_x, tab_c = ref_table(grid, ps, cumulative)
        all_specs = uspecs_for(len(tab_c), tab_c[0] > 0)
        ncall = 1
        if draw[0] == "all":
            uspecs = all_specs
            us = sorted(resolve_u(s, tab_c) for s in uspecs)
            # after sorting the spec labels no longer line up: recompute the labels that matter
            lab = {resolve_u(s, tab_c): s for s in uspecs if s[0] == "cum"}
            uspecs = [lab.get(u, ("lit", u)) for u in us]
            stub.queue = [np.array(us, dtype="f8"), np.array(us[::-1], dtype="f8")]
            try:
                got = g.sample(len(us))
                got2 = g.sample(len(us))
            except Exception as e:
                return rec.fail(case, "sample(n) raised %s: %s" % (type(e).__name__, e))
            ncall += 2
            if not check_values(case, rec, got, us, uspecs, tab_x, tab_c, grid, "sample(n)"):
                return
            if not check_values(case, rec, got2, us[::-1], uspecs[::-1], tab_x, tab_c, grid, "second sample(n) on the same object"):
                return
            if not np.array_equal(got2[::-1], got):
                return rec.fail(case, "the same deviates in reverse order on the same object gave different values")
            cls = "vector"
        else:
            sp = draw[1]
            if sp not in all_specs:
                # the enumeration offers a superset (it does not know the table); absent symbols are not cases
                rec.count("absent_u_symbols")
                return
            u = resolve_u(sp, tab_c)
            stub.queue = [np.array([u], dtype="f8")]
            try:
                if draw[0] == "scalar":
                    v = g.sample()
                    if np.ndim(v) != 0:
                        return rec.fail(case, "sample() without a count did not return a scalar: %r" % (v,))
                    got = np.array([float(v)])
                else:
                    got = g.sample(1)
            except Exception as e:
                return rec.fail(case, "sample raised %s: %s" % (type(e).__name__, e))
            ncall += 1
            if not check_values(case, rec, got, [u], [sp], tab_x, tab_c, grid, "sample" + ("()" if draw[0] == "scalar" else "(1)")):
                return
            cls = {"cum": "at-tabulated-value", "mid": "interior", "half-first": "below-first-value"}.get(sp[0])
            if cls is None:
                cls = "below-first-value" if Fraction(u) < tab_c[0] else ("u=1" if u == 1.0 else "interior")
            if draw[0] == "scalar":
                cls += "/scalar"
        if stub.problems or stub.queue:
            return rec.fail(case, "generator protocol: %s" % ("; ".join(stub.problems) or "a prepared deviate vector was not requested"))
        if any(c[0] == "uniform" and c[1:3] != (0.0, 1.0) for c in stub.log):
            return rec.fail(case, "generator protocol: deviates were not requested as uniform on [0,1]: %r" % (stub.log[:2],))
        if keep is not None and not (np.array_equal(keep[0], keep[2]) and np.array_equal(keep[1], keep[3])):
            return rec.fail(case, "the caller's table was modified")
        even = len(set(round(b - a, 9) for a, b in zip(grid[:-1], grid[1:]))) == 1
        flat = len(set(ps)) == 1 if not cumulative else False
        rec.ok(case, outcome="%s/%s/%s" % (mode, "cumulative-given" if cumulative else "density", cls),
               nontrivial=not (even and (flat or spec == "c-flat")), calls=ncall)

    grids = dict(GRIDS)
    grids.update(ctx.pick({}, GRIDS_T))
    grids["seed"] = seed_grid
    units_s = []
    for gname, xs in grids.items():
        isint = all(isinstance(v, int) for v in xs)
        for dname in DENS:
            if isint:
                if dname in ("flat", "ramp"):
                    units_s.append(("tab-int", xs, tuple(int(v) for v in tab_values(dname, xs)), False))
                continue
            units_s.append(("tab", xs, tab_values(dname, xs), False))
            units_s.append(("func-x", xs, dname, False))
            if gname in ("uneven5", "negative"):
                units_s.append(("tab-list", xs, tab_values(dname, xs), False))
                units_s.append(("method-x", xs, dname, False))
        for cname in CUMS:
            if isint:
                continue
            units_s.append(("tab", xs, tab_values(cname, xs), True))
            units_s.append(("func-x", xs, cname, True))
            if gname == "uneven5":
                units_s.append(("method-x", xs, cname, True))
    # cumulative=True on the smallest possible table, and a table made by the reference from a density
    units_s.append(("tab", (2.0, 5.0), (0.0, 3.0), True))
    units_s.append(("tab", (2.0, 5.0), (1.0, 3.0), True))
    for dname in ("ramp", "peak"):
        xs = GRIDS["uneven5"]
        tx, tc = ref_table(xs, tab_values(dname, xs), False)
        units_s.append(("tab", xs, (0.0,) + tuple(float(v) for v in tc), True))
    for (a, b, nx) in [(-4.5, 4.5, 7), (0.0, 1.0, 3), (-4.5, 4.5, 100), (2.0, 3.0, 11)] + ctx.pick([], [(-1.0, 1e3, 50), (-7.0, -6.5, 4), (0.0, 1e-6, 17)]):
        for dname in DENS:
            units_s.append(("func-xrange", (a, b, nx), dname, False))
        units_s.append(("func-xrange", (a, b, nx), "c-exp", True))

    def expand_sampler(u):
        mode, xs, spec, cumulative = u
        ntab = (xs[2] if mode == "func-xrange" else len(xs)) - (0 if cumulative else 1)
        yield (mode, xs, spec, cumulative, ("all",))
        for sp in uspecs_for(ntab, True):
            yield (mode, xs, spec, cumulative, ("one", sp))
            if sp[0] in ("cum", "half-first") or sp == ("lit", 1.0):
                yield (mode, xs, spec, cumulative, ("scalar", sp))

    ctx.lattice("sampler", units_s, one_sampler, expand=expand_sampler, engine="environment",
                bounds=dict(grids={k: list(v) for k, v in grids.items()}, densities=sorted(DENS),
                            cumulative_tables=sorted(CUMS), xrange_nx=[(-4.5, 4.5, 7), (0.0, 1.0, 3), (-4.5, 4.5, 100), (2.0, 3.0, 11)] + ctx.pick([], [(-1.0, 1e3, 50), (-7.0, -6.5, 4), (0.0, 1e-6, 17)]),
                            u=["every tabulated cumulative value", "midpoints", "half the first value", 0.0, E53,
                               seed_su, ONE_M, 1.0]))

    # -------------------------------------------------------------- cholesky
    def expected_samples(L, mean, r, d, n):
        """both admissible assignments of the flat deviate vector: -> list of (n,d) long double arrays"""
        out = []
        r = np.asarray(r, dtype=LD)
        for R in (r.reshape(d, n), r.reshape(n, d).T):
            V = L.dot(R)
            if mean is not None:
                V = V + np.array(mean, dtype=LD)[:, None]
            out.append(V.T)
        return out

    def chol_tol(sdiag, r, marr):
        """per-component tolerance (|L_ik| <= sqrt(A_ii))"""
        t = 1e-10 * sdiag * max(float(np.abs(r).sum()), 1e-300)
        if marr is not None:
            t = t + 1e-10 * np.abs(marr)
        return t

    def one_chol(case, rec):
        mname, cov, entry, n, rkind = case
        A = np.array(cov, dtype="f8")
        d = A.shape[0]
        L = ref_cholesky(cov)
        mean = None if entry == "function-nomean" else MEANS[d]
        marr = None if mean is None else np.array(mean, dtype="f8")
        keepA = A.copy()
        dist = RecDist([rkind, "ramp2"])
        neff = 1 if n is None else n
        results = []
        try:
            if entry.startswith("function"):
                results.append(erandom.cholesky_sample(A, n, means=marr, dist=dist))
                results.append(erandom.cholesky_sample(A, n, means=marr, dist=dist))
            else:
                cs = erandom.CholeskySampler(marr, A, dist=dist)
                results.append(cs.sample(n) if n is not None else cs.sample())
                results.append(cs.sample(n) if n is not None else cs.sample())
        except Exception as e:
            return rec.fail(case, "Cholesky sampler (%s) raised %s: %s" % (entry, type(e).__name__, e))
        if len(dist.calls) != 2 or any(c != (d * neff,) for c in dist.calls):
            return rec.fail(case, "deviate source was called with %r, expected one call (%d,) per draw"
                            % (dist.calls, d * neff))
        sdiag = np.sqrt(A.diagonal())
        mixed = 0
        for which, (res, r) in enumerate(zip(results, dist.served)):
            shape = (d,) if n is None else (n, d)
            if not (isinstance(res, np.ndarray) and res.shape == shape):
                return rec.fail(case, "draw %d: expected an array of shape %r, got %r"
                                % (which, shape, getattr(res, "shape", type(res).__name__)))
            res2 = res.reshape(neff, d)
            tol = chol_tol(sdiag, r, marr)
            errs = [float((np.abs(res2.astype(LD) - ex) / tol).max()) for ex in expected_samples(L, mean, r, d, neff)]
            if not min(errs) <= 1.0:
                return rec.fail(case, "draw %d (%s): result differs from mean + L.r by %.3g x the tolerance; L from an "
                                "independent factorisation, r = the deviates drawn" % (which, entry, min(errs)))
            if errs[0] > 1.0:
                mixed += 1
        if not np.array_equal(A, keepA) or (marr is not None and not np.array_equal(marr, np.array(mean))):
            return rec.fail(case, "the caller's covariance or mean array was modified")
        offdiag = bool(np.abs(A - np.diag(A.diagonal())).max() > 0) if d > 1 else False
        rec.ok(case, outcome="%s/d=%d/%s%s" % (entry, d, "correlated" if offdiag else "diagonal",
                                                "/other-layout" if mixed else ""),
               nontrivial=offdiag, calls=2 if entry.startswith("function") else 3)

    mats = MATRICES + [seed_matrix]
    ns_ch = ctx.pick([1, 2, 3], [1, 2, 3, 5, 8])
    units_ch = []
    for (mname, cov) in mats:
        for entry in ("function-nomean", "function-means", "class"):
            for n in ns_ch + ([None] if entry == "class" else []):
                units_ch.append((mname, cov, entry, n))

    def expand_chol(u):
        mname, cov, entry, n = u
        k = len(cov) * (1 if n is None else n)
        for i in range(k):
            yield (mname, cov, entry, n, ("e", i))
        yield (mname, cov, entry, n, "ones")
        yield (mname, cov, entry, n, "ramp")

    # (nx=2 is off the lattice: a density on two points has a one-entry cumulative table and the library raises IndexError)
    # every grid size 3..48 on a handful of ranges for the xrange=/nx= form (the grid must have exactly nx points ending
    # exactly at the upper limit: a grid built by stepping instead of dividing gains or loses a point for about one
    # (range, nx) pair in six), all deviate symbols in one draw
    sweep_units = [("func-xrange", (a, b, nx), dname, False) for (a, b) in ((0.0, 1.0), (-1.0, 1.0), (10.0, 20.0), (0.0, 2.5), (0.0, 0.3), (1e-3, 7e-3), (-4.5, 4.5))
                   for nx in range(3, ctx.pick(49, 130)) for dname in list(DENS)[:2]]

    def expand_sweep(u):
        yield u + (("all",),)

    ctx.lattice("sampler-grid-sweep", sweep_units, one_sampler, expand=expand_sweep, engine="environment",
                bounds=dict(ranges=[[0, 1], [-1, 1], [10, 20], [0, 2.5], [0, 0.3], [1e-3, 7e-3], [-4.5, 4.5]], nx="3..%d" % (ctx.pick(49, 130) - 1), densities=list(DENS)[:2]))

    # long tables tabulated far into a tail (the end of the cumulative table is saturated: its last entries differ by
    # less than an ulp of the total) and deviates in the top few ulps of [0,1]: a normalisation that is not EXACTLY the
    # last cumulative value leaves those deviates beyond the table, and the extrapolation along a flat last interval
    # is infinite.  Oracle: finite, inside the grid, non-decreasing in u, and (below u = 0.999) equal to the float
    # linear interpolation of the grid against cumulative_trapezoid/its last value.
    TAILS = {"exp(0,50,501)": (0.0, 50.0, 501, lambda x: np.exp(-x)), "halfgauss(0,10,201)": (0.0, 10.0, 201, lambda x: np.exp(-0.5 * x * x)),
             "gauss(-9,9,181)": (-9.0, 9.0, 181, lambda x: np.exp(-0.5 * x * x)), "exp(0,700,1401)": (0.0, 700.0, 1401, lambda x: np.exp(-x)),
             "lorentz(-50,50,1001)": (-50.0, 50.0, 1001, lambda x: 1.0 / (1.0 + x * x))}
    TOPU = [1.0] + [1.0 - k * E53 for k in (1, 2, 3, 4, 8, 16, 20, 21, 32, 64, 1024)] + [0.999, 0.9, 0.5, 0.1, 1e-3, E53, 0.0]

    def one_tail(case, rec):
        tname, mode, form = case
        a, b, nx, f = TAILS[tname]
        xg = np.linspace(a, b, nx)
        stub = StubRng()
        try:
            if mode == "tab":
                g = erandom.Generator(f(xg), x=xg.copy(), rng=stub)
            elif mode == "func-x":
                g = erandom.Generator(f, x=xg.copy(), rng=stub)
            else:
                g = erandom.Generator(f, xrange=[a, b], nx=nx, rng=stub)
        except Exception as e:
            return rec.fail(case, "Generator(...) raised %s: %s" % (type(e).__name__, e))
        us = sorted(TOPU)
        try:
            if form == "vector":
                stub.queue = [np.array(us, dtype="f8")]
                got = np.asarray(g.sample(len(us)), dtype="f8")
            else:
                got = []
                for u in us:
                    stub.queue = [np.array([u], dtype="f8")]
                    got.append(float(np.asarray(g.sample(1)).reshape(-1)[0]))
                got = np.array(got)
        except Exception as e:
            return rec.fail(case, "sample raised %s: %s" % (type(e).__name__, e))
        if got.shape != (len(us),):
            return rec.fail(case, "sample returned shape %r" % (got.shape,))
        span = b - a
        p0 = f(xg)
        c0 = 0.5 * (p0[0] + p0[1]) * (xg[1] - xg[0]) / float(np.sum(0.5 * (p0[1:] + p0[:-1]) * np.diff(xg)))
        for u, v in zip(us, got.tolist()):
            if not math.isfinite(v):
                return rec.fail(case, "deviate u=%r (1-u=%g) gave the non-finite value %r" % (u, 1.0 - u, v))
            # (below the first tabulated cumulative value the map extrapolates: outside the statement)
            if u >= c0 * (1 + 1e-9) and not (a - 1e-9 * span <= v <= b + 1e-9 * span):
                return rec.fail(case, "deviate u=%r (1-u=%g) gave %r outside the grid [%r, %r]" % (u, 1.0 - u, v, a, b))
        if np.any(np.diff(got) < -1e-9 * span):
            k = int(np.argmin(np.diff(got)))
            return rec.fail(case, "the map is decreasing in u: u=%r -> %r, u=%r -> %r" % (us[k], got[k], us[k + 1], got[k + 1]))
        p = f(xg)
        c = np.concatenate([[0.0], np.cumsum(0.5 * (p[1:] + p[:-1]) * np.diff(xg))])[1:]
        c = c / c[-1]
        for u, v in zip(us, got.tolist()):
            if c[0] <= u <= 0.999:
                k = int(np.searchsorted(c, u, side="right")) - 1
                k = min(max(k, 0), c.size - 2)
                ref = xg[1:][k] + (u - c[k]) * (xg[1:][k + 1] - xg[1:][k]) / (c[k + 1] - c[k])
                if abs(v - ref) > 1e-7 * span:
                    return rec.fail(case, "deviate u=%r gave %r, interpolation of the grid against the normalised cumulative gives %r" % (u, v, float(ref)))
        rec.ok(case, outcome="tail:%s:%s" % (mode, form), nontrivial=True, calls=len(us) if form != "vector" else 1)

    import math
    tunits2 = [(t, m, fm) for t in TAILS for m in ("tab", "func-x", "func-xrange") for fm in ("vector", "single")]
    ctx.lattice("sampler-saturated-tails", tunits2, one_tail, engine="environment",
                bounds=dict(tables=sorted(TAILS), deviates=["1", "1 - k*2^-53 for k in 1,2,3,4,8,16,20,21,32,64,1024", 0.999, 0.9, 0.5, 0.1, 1e-3, "2^-53", 0]))

    # ---------------------------------------------- optional third-party imports absent
    # The process environment is part of "all configurations": worlds in which an optional third-party module is not
    # importable (its sys.modules entry is None, set in a forked child so the worker itself stays pristine).  The
    # statement promises values; a world without the module may refuse LOUDLY (ImportError, no sample is returned)
    # or must pass exactly the same oracle as the ordinary world (independent exact-rational reference) - a silent
    # change of algorithm is a violation.  The empty world is the control: no refusal is acceptable there.
    ABSENT_WORLDS = [(), ("scipy",), ("scipy.integrate",), ("scipy.interpolate",), ("scipy.linalg",),
                     ("scipy.integrate", "scipy.interpolate", "scipy.special", "scipy.linalg", "scipy.stats")]
    ABSENT_OBSERVERS = {"sampler": one_sampler, "cholesky": one_chol}

    class _ProxyRec(object):
        """collects what an ordinary part's ``one`` reports, inside the child"""

        def __init__(self, tmp):
            self.tmp = tmp
            self.fails, self.oks, self.counts = [], [], []

        def ok(self, case=None, outcome="ok", nontrivial=True, calls=1):
            self.oks.append((outcome, bool(nontrivial), int(calls)))

        def fail(self, case, message):
            self.fails.append(str(message))

        def count(self, key, n=1):
            self.counts.append((key, n))

    def one_absent(case, rec):
        import re
        import sys
        from mc import util as mcutil
        absent, observer, inner = case
        fn = ABSENT_OBSERVERS[observer]
        try:
            # loaded in the worker first, so that the child does not pay for the import (esutil loads it on first use anyway)
            import scipy.integrate  # noqa: F401
        except ImportError:
            pass

        def run():
            for name in absent:
                sys.modules[name] = None
            proxy = _ProxyRec(getattr(rec, "tmp", None))
            try:
                fn(inner, proxy)
            except ImportError as e:
                proxy.fails.append("raised %s: %s" % (type(e).__name__, e))
            return proxy.fails, proxy.oks, proxy.counts

        st, got = mcutil.in_child(run, timeout=120)
        if st != "ok":
            return rec.fail(case, "child process with %r unimportable: %s" % (absent, got))
        fails, oks, counts = got
        world = "+".join(absent) or "nothing"
        if fails:
            refused = [m for m in fails if re.search(r"raised (ImportError|ModuleNotFoundError)\b", m)]
            if refused and len(refused) == len(fails) and absent:
                return rec.ok(case, outcome="absent:%s/%s/refused-loudly" % (world, observer), nontrivial=True, calls=1)
            return rec.fail(case, "with %s unimportable (sys.modules entry None): %s"
                            % (" and ".join(absent) or "no module", fails[0]))
        if not oks:
            rec.count("absent_world_inner_case_off_lattice")
            return
        rec.ok(case, outcome="absent:%s/%s/same-as-reference" % (world, observer),
               nontrivial=any(o[1] for o in oks), calls=sum(o[2] for o in oks))

    absent_inner = []
    for (mode, xs, spec, cumulative) in units_s:
        gname = next((k for k, v in grids.items() if v == xs), None)
        if (gname in ("uneven5", "seed") and mode in ("tab", "func-x") and (spec in ("ramp", "c-quad") or spec == tab_values("ramp", xs))) \
                or (gname == "int5" and mode == "tab-int") \
                or (mode == "func-xrange" and xs == (-4.5, 4.5, 7) and spec in ("peak", "c-exp")):
            absent_inner.append(("sampler", (mode, xs, spec, cumulative, ("all",))))
    for (mname, cov) in mats[1:2] + [seed_matrix]:
        for entry in ("class",):
            absent_inner.append(("cholesky", (mname, cov, entry, 2, "ramp")))
    absent_units = [(w, ob, inner) for w in ABSENT_WORLDS for (ob, inner) in absent_inner]
    ctx.lattice("absent-optional-imports", absent_units, one_absent, engine="environment",
                bounds=dict(unimportable=[list(w) for w in ABSENT_WORLDS], observers=sorted(ABSENT_OBSERVERS),
                            inner_cases=len(absent_inner),
                            allowed=["ImportError/ModuleNotFoundError raised", "the ordinary oracle of the observer holds"]))

    ctx.lattice("cholesky", units_ch, one_chol, expand=expand_chol, engine="environment",
                bounds=dict(matrices=[m[0] for m in mats], n=ns_ch + [None], deviates=["e_i for every i", "ones", "ramp"],
                            entries=["cholesky_sample(means=None)", "cholesky_sample(means=)", "CholeskySampler.sample"]))

    # --------------------------------------------------------------- indices
    def make_rng(style, seed):
        if style == "legacy":
            return np.random.RandomState(seed)
        if style == "new":
            return np.random.default_rng(seed)
        return None

    def one_indices(case, rec):
        imax, nrand, unique, style, seed = case
        impossible = (unique and nrand > imax) or (imax == 0 and nrand > 0)

        def call():
            if style == "stub":
                st = StubChoice()
                return erandom.random_indices(imax, nrand, unique=unique, rng=st), st
            if style == "seed":
                return erandom.random_indices(imax, nrand, unique=unique, seed=seed), None
            if style == "default":
                return erandom.random_indices(imax, nrand, unique=unique), None
            if style == "default-unique":
                return erandom.random_indices(imax, nrand), None
            return erandom.random_indices(imax, nrand, unique=unique, rng=make_rng(style, seed)), None

        if style == "stub":
            try:
                r, st = call()
            except Exception as e:
                return rec.fail(case, "random_indices with a recording generator raised %s: %s" % (type(e).__name__, e))
            if len(st.calls) != 1:
                return rec.fail(case, "generator.choice called %d times" % len(st.calls))
            a, size, replace, p = st.calls[0]
            if not (a == imax and size == nrand and bool(replace) == (not unique) and p is None):
                return rec.fail(case, "random_indices(%d, %d, unique=%r) asked the generator for choice(%r, size=%r, replace=%r)"
                                % (imax, nrand, unique, a, size, replace))
            return rec.ok(case, outcome="stub:%s" % ("without-replacement" if unique else "with-replacement"),
                          nontrivial=True, calls=1)
        try:
            r, _ = call()
            err = None
        except ValueError as e:
            r, err = None, "ValueError"
        except Exception as e:
            return rec.fail(case, "random_indices raised %s: %s" % (type(e).__name__, e))
        if impossible:
            if err is None:
                return rec.fail(case, "impossible request (imax=%d, nrand=%d, unique=%r) returned %r instead of raising"
                                % (imax, nrand, unique, r))
            return rec.ok(case, outcome="refused:%s" % ("empty-range" if imax == 0 else "unique-needs-nrand<=imax"),
                          nontrivial=True, calls=1)
        if err is not None:
            return rec.fail(case, "possible request (imax=%d, nrand=%d, unique=%r) raised ValueError" % (imax, nrand, unique))
        if not (isinstance(r, np.ndarray) and r.shape == (nrand,) and r.dtype.kind in "iu"):
            return rec.fail(case, "expected %d integer indices, got %r" % (nrand, r))
        if nrand and (r.min() < 0 or r.max() >= imax):
            return rec.fail(case, "index outside [0,%d): %r" % (imax, r.tolist()))
        dup = len(set(r.tolist())) < nrand
        if unique and dup:
            return rec.fail(case, "unique=True returned duplicates: %r" % (r.tolist(),))
        ncall = 1
        if style in ("legacy", "new", "seed"):
            r2, _ = call()
            ncall += 1
            if not np.array_equal(r, r2):
                return rec.fail(case, "equal seeded generators gave different indices: %r / %r" % (r.tolist(), r2.tolist()))
        oc = "empty" if nrand == 0 else ("unique" if unique else ("with-replacement/" + ("dups" if dup else "no-dups")))
        rec.ok(case, outcome="%s:%s" % (style, oc), nontrivial=nrand > 0, calls=ncall)

    imx = ctx.pick(5, 9)
    units_i = []
    for imax in range(imx + 1):
        for nrand in range(imx + 1):
            for unique in (True, False):
                units_i.append((imax, nrand, unique))

    # index ranges around and beyond the 32-bit marks (with replacement, new-style generators: a legacy generator
    # would build a permutation of the whole range)
    for imax in (2 ** 31 - 1, 2 ** 31, 2 ** 31 + 5, 3000000000, 2 ** 32 - 1, 2 ** 32, 2 ** 32 + 7, 2 ** 40, 2 ** 62):
        units_i.append((imax, 200, False))

    def expand_indices(u):
        imax, nrand, unique = u
        if imax > 10 ** 6:
            for seed in (0, 1, 2):
                for style in ("new", "seed"):
                    yield (imax, nrand, unique, style, seed)
            return
        yield (imax, nrand, unique, "stub", 0)
        for seed in (0, 1, 2):
            for style in ("legacy", "new", "seed"):
                yield (imax, nrand, unique, style, seed)
        yield (imax, nrand, unique, "default", 0)
        if unique:
            yield (imax, nrand, unique, "default-unique", 0)

    ctx.lattice("indices", units_i, one_indices, expand=expand_indices,
                bounds=dict(imax="0..%d" % imx, nrand="0..%d" % imx, unique=[True, False], seeds=[0, 1, 2],
                            generators=["RandomState(seed)", "default_rng(seed)", "seed= keyword", "default", "recording stub"]))

    # ---- a scripted LEGACY-style generator (no .integers method) on large ranges
    # Whatever route random_indices takes for a legacy generator and a sparse draw from a large range (the thresholds
    # are harvested from the integer constants of esutil.random), every primitive it may ask for - randint, random_sample,
    # choice, permutation, shuffle - is answered from a script over a 3-value alphabet, so that repeats among the draws
    # and among the re-draws occur in every pattern.  unique=True must return nrand DISTINCT indices in range.
    class ScriptedLegacy(object):
        def __init__(self, first, refill):
            self.first, self.refill, self.nreq = list(first), list(refill), 0

        def _vals(self, n, hi):
            src = self.first if self.nreq == 0 else self.refill
            self.nreq += 1
            return np.array([src[k % len(src)] % max(hi, 1) for k in range(n)], dtype="i8")

        def randint(self, low, high=None, size=None, dtype=int):
            if high is None:
                low, high = 0, low
            n = 1 if size is None else int(np.prod(size))
            v = low + self._vals(n, high - low)
            return int(v[0]) if size is None else v.reshape(size)

        def random_sample(self, size=None):
            n = 1 if size is None else int(np.prod(size))
            v = (self._vals(n, 10 ** 6) % 1000) / 1000.0
            return float(v[0]) if size is None else v.reshape(size)

        random = rand = random_sample

        def choice(self, a, size=None, replace=True, p=None):
            # a valid answer (distinct values when replace=False): the first `size` values of 7, 7+13, ... mod a
            n = 1 if size is None else int(np.prod(size))
            a = int(a)
            out, v, seen = [], 7 % a, set()
            while len(out) < n:
                if replace or v not in seen:
                    out.append(v)
                    seen.add(v)
                v = (v + 13) % a if replace else (v + 1) % a
            return np.array(out, dtype="i8")

        def shuffle(self, x):
            x[...] = x[::-1].copy()

        def permutation(self, x):
            x = np.arange(x) if np.ndim(x) == 0 else np.array(x)
            return x[::-1].copy()

    def one_scripted(case, rec):
        imax, nrand, first, refill = case
        rng = ScriptedLegacy(first, refill)
        try:
            r = np.asarray(erandom.random_indices(imax, nrand, unique=True, rng=rng))
        except Exception as e:
            return rec.fail(case, "random_indices with a scripted legacy generator raised %s: %s" % (type(e).__name__, e))
        if r.shape != (nrand,) or r.dtype.kind not in "iu" or (nrand and (r.min() < 0 or r.max() >= imax)):
            return rec.fail(case, "expected %d indices in [0,%d), got %r" % (nrand, imax, r.tolist()))
        if len(set(r.tolist())) < nrand:
            return rec.fail(case, "unique=True returned duplicates %r (generator answers: first draw cycles %r, later draws cycle %r)" % (r.tolist(), first, refill))
        rec.ok(case, outcome="scripted:%d-requests" % rng.nreq, nontrivial=True, calls=1)

    from mc.longarr import harvested_sizes as _hs
    IMAXS = sorted({1000, 2 ** 31 + 5} | set(_hs([erandom], lo=100, hi=10 ** 9)) | {2 * b for b in _hs([erandom], lo=100, hi=10 ** 8)})
    ALPH = (3, 10, 17)
    scunits = [(im, nr, first, refill) for im in IMAXS for nr in (2, 3, 4) for first in itertools.product(ALPH, repeat=min(nr, 3))
               for refill in ((3,), (10,), (17,), (3, 10), (10, 17, 3), (21, 22, 23, 24, 25, 26, 27, 28, 29, 30, 31, 32))]
    ctx.notes.append("indices-scripted-legacy-generator: ranges %r" % (IMAXS,))
    ctx.lattice("indices-scripted-legacy-generator", scunits, one_scripted, engine="environment",
                bounds=dict(imax=IMAXS, nrand=[2, 3, 4], alphabet=list(ALPH), refills=6))

    # ---------------------------------------------------------------- seeded
    def one_seeded(case, rec):
        what = case[0]
        if what == "cap":
            _, ra, dec, rad, dorot, style, seed, n = case

            def call(get_radius=True):
                kw = {} if style == "default" else dict(rng=make_rng(style, seed))
                return coords.randcap(n, ra, dec, rad, get_radius=get_radius, dorot=dorot, **kw)
            try:
                lon, lat, rr = call()
                msg, wrapped = check_cap_points(ra, dec, rad, lon, lat, rr, None, n)
                if msg:
                    return rec.fail(case, "seeded cap: " + msg)
                ncall = 1
                if style != "default":
                    again = call()
                    pts = call(get_radius=False)
                    ncall += 2
                    if not all(np.array_equal(a, b) for a, b in zip(again, (lon, lat, rr))):
                        return rec.fail(case, "seeded cap: equal seeded generators gave different points")
                    if not (len(pts) == 2 and np.array_equal(pts[0], lon) and np.array_equal(pts[1], lat)):
                        return rec.fail(case, "seeded cap: get_radius changes the points of equal seeded generators")
            except Exception as e:
                return rec.fail(case, "seeded cap raised %s: %s" % (type(e).__name__, e))
            rot = bool(dorot or abs(dec) >= 89.9)
            return rec.ok(case, outcome="cap/%s/%s/n=%d" % (style, "rotated" if rot else "direct", n),
                          nontrivial=n > 0, calls=ncall)
        if what == "box":
            _, rar, decr, system, style, seed, n = case

            def call(system="eq"):
                kw = {} if style == "default" else dict(rng=make_rng(style, seed))
                return coords.randsphere(n, ra_range=list(rar), dec_range=list(decr), system=system, **kw)
            try:
                lon, lat = call()
                msg = check_box_points(rar, decr, lon, lat, n)
                if msg:
                    return rec.fail(case, "seeded box: " + msg)
                ncall = 1
                if style != "default":
                    again = call()
                    ncall += 1
                    if not (np.array_equal(again[0], lon) and np.array_equal(again[1], lat)):
                        return rec.fail(case, "seeded box: equal seeded generators gave different points")
                if system == "xyz":
                    xyz = call("xyz")
                    ncall += 1
                    if not (len(xyz) == 3 and all(isinstance(v, np.ndarray) and v.shape == (n,) for v in xyz)):
                        return rec.fail(case, "seeded box: system='xyz' did not return three arrays of %d points" % n)
                    if n and np.abs(xyz[0] ** 2 + xyz[1] ** 2 + xyz[2] ** 2 - 1).max() > 1e-15:
                        return rec.fail(case, "seeded box: xyz output is not on the unit sphere")
                    if n and style != "default":
                        lo_, la_ = np.deg2rad(lon), np.deg2rad(lat)
                        ex = np.array([np.cos(la_) * np.cos(lo_), np.cos(la_) * np.sin(lo_), np.sin(la_)])
                        if np.abs(np.array(xyz) - ex).max() > 1e-15:
                            return rec.fail(case, "seeded box: xyz output is not the eq output of an equal seeded generator")
            except Exception as e:
                return rec.fail(case, "seeded box raised %s: %s" % (type(e).__name__, e))
            return rec.ok(case, outcome="box/%s/%s/n=%d" % (style, system, n), nontrivial=n > 0, calls=ncall)
        if what == "sampler":
            _, mode, xs, spec, cumulative, style, seed, n = case

            def call():
                if style == "seed-keyword":
                    g, grid, ps, _ = build_generator(mode, xs, spec, cumulative, seed=seed)
                else:
                    g, grid, ps, _ = build_generator(mode, xs, spec, cumulative, rng=make_rng(style, seed))
                return (g.sample(n) if n is not None else g.sample()), grid, ps
            try:
                got, grid, ps = call()
                got2, _, _ = call()
            except Exception as e:
                return rec.fail(case, "seeded sampler raised %s: %s" % (type(e).__name__, e))
            if n is None:
                if np.ndim(got) != 0:
                    return rec.fail(case, "seeded sampler: sample() did not return a scalar")
                got, got2 = np.array([float(got)]), np.array([float(got2)])
            neff = 1 if n is None else n
            if not (isinstance(got, np.ndarray) and got.shape == (neff,)):
                return rec.fail(case, "seeded sampler: %d values requested, got %r" % (neff, getattr(got, "shape", None)))
            if not np.array_equal(got, got2):
                return rec.fail(case, "seeded sampler: equal seeded generators gave different values")
            ref_rng = np.random.RandomState(seed) if style in ("legacy", "seed-keyword") else np.random.default_rng(seed)
            us = ref_rng.uniform(size=neff).tolist()
            tab_x, tab_c = ref_table(grid, ps, cumulative)
            if not check_values(case, rec, got, us, [("lit", u) for u in us], tab_x, tab_c, grid, "seeded sampler"):
                return
            return rec.ok(case, outcome="sampler/%s/%s" % (style, "scalar" if n is None else "n=%d" % n),
                          nontrivial=neff > 0, calls=4)
        if what == "cholesky":
            _, mname, cov, entry, n, seed = case
            A = np.array(cov, dtype="f8")
            d = A.shape[0]
            marr = np.array(MEANS[d], dtype="f8")

            def call():
                np.random.seed(seed)
                if entry == "function":
                    return erandom.cholesky_sample(A, n, means=marr)
                cs = erandom.CholeskySampler(marr, A)
                return cs.sample(n) if n is not None else cs.sample()
            try:
                r1 = call()
                r2 = call()
            except Exception as e:
                return rec.fail(case, "seeded cholesky raised %s: %s" % (type(e).__name__, e))
            shape = (d,) if n is None else (n, d)
            if not (isinstance(r1, np.ndarray) and r1.shape == shape and np.all(np.isfinite(r1))):
                return rec.fail(case, "seeded cholesky: expected finite array of shape %r, got %r" % (shape, getattr(r1, "shape", None)))
            if not np.array_equal(r1, r2):
                return rec.fail(case, "seeded cholesky: equal seeds of the default deviate source gave different samples")
            # the default source is numpy.random.randn: the same stream, drawn by the reference
            np.random.seed(seed)
            neff = 1 if n is None else n
            r = np.random.randn(d * neff)
            L = ref_cholesky(cov)
            tol = chol_tol(np.sqrt(A.diagonal()), r, marr)
            errs = [float((np.abs(r1.reshape(neff, d).astype(LD) - ex) / tol).max())
                    for ex in expected_samples(L, MEANS[d], r, d, neff)]
            if neff and not min(errs) <= 1.0:
                return rec.fail(case, "seeded cholesky: result differs from mean + L.r (r = numpy.random.randn stream of the "
                                "same seed) by %.3g x the tolerance" % min(errs))
            return rec.ok(case, outcome="cholesky/%s/%s" % (entry, "scalar" if n is None else "n=%d" % n),
                          nontrivial=True, calls=2)
        raise ValueError(what)

    seeds = [0, 1, 2] + ctx.pick([], [3, 91, 781])
    ns = [0, 1, 7] + ctx.pick([], [2, 100, 1000])
    cap_c = [(0.0, 0.0), (37.0, 45.0), (359.999999, -45.0), (12.0, 89.8), (12.0, 89.95), (0.0, -90.0), seed_centres[0]]
    cap_r = [1e-6, 1e-3, 1.0, 100.0, 180.0, seed_radius] + ctx.pick([], [0.1, 45.0, 90.0, 179.9])
    units_seeded = []
    for (ra, dec) in cap_c:
        for rad in cap_r:
            for dorot in (False, True):
                units_seeded.append(("cap", ra, dec, rad, dorot))
    for (rar, decr) in boxes:
        for system in ("eq", "xyz"):
            units_seeded.append(("box", rar, decr, system))
    samp_units = [("tab", GRIDS["uneven5"], tab_values("peak", GRIDS["uneven5"]), False),
                  ("tab", GRIDS["negative"], tab_values("ramp", GRIDS["negative"]), False),
                  ("func-x", GRIDS["even4"], "decreasing", False),
                  ("tab", GRIDS["uneven5"], tab_values("c-quad", GRIDS["uneven5"]), True),
                  ("func-xrange", (-4.5, 4.5, 7), "peak", False)]
    for su in samp_units:
        units_seeded.append(("sampler",) + su)
    for (mname, cov) in (MATRICES[3], MATRICES[7], MATRICES[8]):
        for entry in ("function", "class"):
            units_seeded.append(("cholesky", mname, cov, entry))

    def expand_seeded(u):
        if u[0] in ("cap", "box"):
            for n in ns:
                for seed in seeds:
                    for style in ("legacy", "new"):
                        yield u + (style, seed, n)
                yield u + ("default", 0, n)
        elif u[0] == "sampler":
            for n in ns[1:] + [None]:
                for seed in seeds:
                    for style in ("legacy", "new", "seed-keyword"):
                        yield u + (style, seed, n)
        else:
            for n in [1, 7] + ([None] if u[3] == "class" else []):
                for seed in seeds:
                    yield u + (n, seed)

    ctx.lattice("seeded", units_seeded, one_seeded, expand=expand_seeded,
                bounds=dict(seeds=seeds, n=ns, generators=["RandomState(seed)", "default_rng(seed)", "default (count/range only)"],
                            cap_centres=cap_c, cap_radii=cap_r, boxes=boxes, sampler_tables=len(samp_units),
                            cholesky_matrices=[MATRICES[3][0], MATRICES[7][0], MATRICES[8][0]]))

    # ------------------------------------------------------------ call sequences
    # sequences of calls of the random-position and sampler functions in one process, every call with its own
    # freshly seeded generator (mc/worlds.py call_sequences): a result must depend on its arguments and its
    # generator only - not on tables, scratch arrays or a default generator left behind by an earlier call
    from mc.worlds import call_sequences
    # the library imports these lazily on first use: import them here once, so that the forked children of the
    # call-sequence world (which start from this process image) do not pay for it again and again
    import scipy.integrate       # noqa: F401
    import scipy.interpolate     # noqa: F401
    import scipy.optimize        # noqa: F401

    def seq_pool():
        return dict(cov=np.array([[1.0, 0.5], [0.5, 2.0]]), cov2=np.array([[4.0, -1.0], [-1.0, 1.0]]),
                    gx=np.array([0.0, 1.0, 3.0, 7.0]), gp=np.array([1.0, 1.0, 2.0, 0.5]))

    SEQ_CALLS = [("randcap", 37.0, 45.0, 1.0, False, 1), ("randcap", 12.0, 89.95, 1.0, True, 1), ("randcap", 37.0, 45.0, 100.0, True, 2),
                 ("randsphere", None, None, 1), ("randsphere", (10.0, 35.0), (-25.0, 15.0), 1),
                 ("indices", 5, 3, True, 1), ("indices", 5, 5, False, 2),
                 ("chol", "cov", 3, 1), ("chol", "cov2", 3, 1), ("gen", "gx", "gp", 1), ("gen", "gx", "gp", 2),
                 ("genseed", "gx", "gp", 5)]

    def seq_run(c, pool):
        if c[0] == "randcap":
            r = coords.randcap(4, c[1], c[2], c[3], get_radius=c[4], rng=np.random.RandomState(c[5]))
            return [np.asarray(v) for v in r]
        if c[0] == "randsphere":
            r = coords.randsphere(4, ra_range=None if c[1] is None else list(c[1]),
                                  dec_range=None if c[2] is None else list(c[2]), rng=np.random.RandomState(c[3]))
            return [np.asarray(v) for v in r]
        if c[0] == "indices":
            return [np.asarray(erandom.random_indices(c[1], c[2], unique=c[3], rng=np.random.RandomState(c[4])))]
        if c[0] == "chol":
            return [np.asarray(erandom.cholesky_sample(pool[c[1]], c[2], dist=np.random.RandomState(c[3]).randn))]
        if c[0] == "genseed":
            return [np.asarray(erandom.Generator(pool[c[2]], x=pool[c[1]], method="accum", seed=c[3]).sample(3))]
        g = erandom.Generator(pool[c[2]], x=pool[c[1]], method="accum", rng=np.random.RandomState(c[3]))
        return [np.asarray(g.sample(3))]

    def seq_mut(m, pool):
        if m[1] == "scale":
            pool[m[0]] *= 4.0
        else:
            pool[m[0]][:] = pool[m[0]][::-1].copy()

    call_sequences(ctx, "call-sequences", seq_pool, SEQ_CALLS, seq_run, lambda: [coords, erandom], depth=3, nodedup_depth=3,
                   mutations=[("cov", "scale"), ("gp", "reverse")], mutate=seq_mut, result_edits=True)

    # ------------------------------------------------------------ error path: rejected calls and the generator
    # a call that is rejected (invalid range, impossible request) must not have drawn from the caller's generator:
    # the next legitimate call on the SAME generator gives what an equally seeded fresh generator gives
    def one_rejected(case, rec):
        style, seed, bad, good = case

        def mk():
            return np.random.RandomState(seed) if style == "legacy" else np.random.default_rng(seed)

        def run(call, rng):
            if call[0] == "randsphere":
                return [np.asarray(v) for v in coords.randsphere(call[1], ra_range=call[2], dec_range=call[3], rng=rng)]
            if call[0] == "randcap":
                return [np.asarray(v) for v in coords.randcap(call[1], call[2], call[3], call[4], rng=rng)]
            if call[0] == "indices":
                return [np.asarray(erandom.random_indices(call[1], call[2], unique=call[3], rng=rng))]
            raise ValueError(call)

        if style == "legacy" and good[0] == "indices":
            return
        rng = mk()
        try:
            run(bad, rng)
            return rec.ok(case, outcome="not-rejected", nontrivial=False, calls=1)   # nothing to check: the call is accepted
        except Exception:
            pass
        try:
            got = run(good, rng)
            ref = run(good, mk())
        except Exception as e:
            return rec.fail(case, "the legitimate call %r raised %s: %s" % (good, type(e).__name__, e))
        for a, b in zip(got, ref):
            if a.shape != b.shape or a.tobytes() != b.tobytes():
                return rec.fail(case, "after the rejected call %r the call %r on the same generator gives %r; an equally seeded "
                                      "fresh generator gives %r (the rejected call drew from the generator)" % (bad, good, a.tolist(), b.tolist()))
        rec.ok(case, outcome="rejected-then-ok", nontrivial=True, calls=3)

    BAD_CALLS = [("randsphere", 3, None, [-95.0, 10.0]), ("randsphere", 3, None, [10.0, 95.0]), ("randsphere", 3, [10.0, 400.0], None),
                 ("randsphere", 3, [-10.0, 40.0], [0.0, 10.0]), ("randsphere", 3, [10.0], None), ("indices", 3, 5, True),
                 ("randcap", 3, 10.0, 95.0, 1.0), ("randcap", 3, 10.0, 20.0, -1.0), ("randcap", 3, 10.0, 20.0, 200.0)]
    GOOD_CALLS = [("randsphere", 3, None, None), ("randsphere", 2, [10.0, 35.0], [-25.0, 15.0]), ("randcap", 3, 37.0, 45.0, 1.0),
                  ("indices", 5, 3, True)]
    runits = [(st, sd, b, g) for st in ("legacy", "new") for sd in (0, 1) for b in BAD_CALLS for g in GOOD_CALLS]
    ctx.lattice("rejected-calls", runits, one_rejected, engine="environment",
                bounds=dict(rejected=[repr(b) for b in BAD_CALLS], then=[repr(g) for g in GOOD_CALLS], generators=["RandomState", "default_rng"]))
