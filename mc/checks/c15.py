"""C15 - non-in-place calls never modify the arrays passed to them (E1)."""
import os

import numpy as np

from mc.oracle import wcsref as W

RULE = (
    "registry of call specifications covering every family named in the statement (record-file writes "
    "binary/text/padnull/ignorenull through sfile, recfile and io; numpy_util field and byte-order functions "
    "with inplace off; match/unique/rem_dup; histogram/Binner/wmom/wmedian/sigma_clip/interplin/get_stats/"
    "cov2cor/cor2cov/boxcar_average; every coords conversion and separation in both unit settings; WCS "
    "image2sky/sky2image/get_jacobian; every Cosmo method in every array/scalar combination; HTM lookup_id/"
    "match/intersect/bincount and Matcher) x each array argument x memory variant {native contiguous, "
    "byte-swapped, strided view of a larger buffer, negative stride, float32, int64, 0-d, 2-d, read-only} "
    "one at a time and all arguments at once; plus, for every function with boolean/enumerated keyword options, "
    "the FULL product of those options (option lattices: e.g. eq2xyz dtype x units x stomp, histogram "
    "binning x min x max x rev x more x mergelast x weights, write delim x padnull x ignorenull).  Every case snapshots the BASE buffer, dtype, shape, strides "
    "and flags of every argument before the call and compares after it, also when the call raises.  "
    "non-trivial = the variant forces an internal conversion (everything but 'native')."
)
ASSUMPTIONS = [
    "a call that raises for a variant it does not support is not a violation as long as the arguments are unchanged; with the read-only variant an 'assignment destination is read-only' error IS a violation (the callee tried to write)",
    "stray writes between the elements of a strided view are detected because the whole base buffer is compared",
    "only functions documented as not-in-place are listed; wcsutil.wrap_ra_diff (a helper that modifies its argument) is not one of the listed conversions",
    "the reverse-index argument htmrev2 of HTM.bincount is an index structure: it is varied in dtype, byte order and strides but not truncated (0-d) or reshaped (2-d), which would make it an invalid reverse-index array (the C++ code trusts its offsets)",
    "a worker process that dies (segfault) is reported as a violation of the case it was executing",
]

VARIANTS = ["native", "swapped", "strided", "negstride", "swapped-strided", "swapped-negstride", "f4", "i8", "0d", "2d", "readonly",
            # ndarray subclasses (np.asarray() of these is a NEW base-class view of the caller's memory, so "is it my own
            # copy?" tests by identity go wrong) and tables whose fields differ in byte order
            "subclass", "masked", "memmap", "memmap-column", "mixed-order", "2d-F",
            # objects that export a writable float64 BUFFER but are no ndarrays and have no .copy(): np.asarray() wraps them
            # without copying
            "buffer:array.array", "buffer:ctypes", "buffer:memoryview"]
_MM = {"n": 0, "dir": None}


class _Sub(np.ndarray):
    pass


def make_variant(a, variant):
    """-> array to pass, or None if the variant does not apply to this array"""
    a = np.asarray(a)
    if variant == "native":
        return a.copy()
    if variant == "swapped":
        if a.dtype.names is not None:
            if all(a.dtype[n].base.itemsize == 1 or a.dtype[n].base.kind in "SU" for n in a.dtype.names):
                return None
            return a.astype(a.dtype.newbyteorder("S"))
        if a.dtype.itemsize > 1 and a.dtype.kind in "iufc":
            return a.astype(a.dtype.newbyteorder("S"))
        return None
    if variant in ("swapped-strided", "swapped-negstride"):
        # both at once: a non-native AND non-contiguous view (two conversion steps in the callee)
        sw = make_variant(a, "swapped")
        if sw is None or sw.ndim < 1 or sw.shape[0] < 2:
            return None
        if variant == "swapped-strided":
            big = np.zeros((sw.shape[0] * 2,) + sw.shape[1:], dtype=sw.dtype)
            big.view("u1")[...] = 0xA5
            big[::2] = sw
            return big[::2]
        return sw[::-1].copy()[::-1]
    if variant == "strided":
        if a.ndim < 1:
            return None
        big = np.zeros((a.shape[0] * 2,) + a.shape[1:], dtype=a.dtype)
        big[...] = 0
        big.view("u1")[...] = 0xA5
        big[::2] = a
        return big[::2]
    if variant == "negstride":
        if a.ndim < 1 or a.shape[0] < 2:
            return None
        return a[::-1].copy()[::-1]
    if variant == "f4":
        if a.dtype.names is None and a.dtype.kind == "f" and a.dtype.itemsize == 8:
            fin = a[np.isfinite(a) & (a != 0)]
            if fin.size and (np.abs(fin).max() > 3e38 or np.abs(fin).min() < 1e-37):
                return None           # not representable in single precision: not a float32 layout of the same values
            return a.astype("f4")
        return None
    if variant == "i8":
        if a.dtype.names is None and a.dtype.kind == "f" and np.all(np.isfinite(a)) and np.all(np.abs(a) < 9e18) and np.all(a == np.floor(a)):
            return a.astype("i8")
        if a.dtype.names is None and a.dtype.kind == "i" and a.dtype.itemsize != 8:
            return a.astype("i8")
        return None
    if variant == "0d":
        if a.ndim == 1 and a.dtype.names is None:
            return np.array(a[0])
        return None
    if variant == "2d":
        if a.ndim == 1 and a.size % 2 == 0 and a.size >= 2 and a.dtype.names is None:
            return a.reshape(2, -1).copy()
        return None
    if variant == "readonly":
        r = a.copy()
        r.flags.writeable = False
        return r
    if variant == "2d-F":
        if a.ndim == 1 and a.size % 2 == 0 and a.size >= 4 and a.dtype.names is None:
            return np.asfortranarray(a.reshape(2, -1))
        return None
    if variant.startswith("buffer:"):
        if a.ndim != 1 or a.dtype != np.dtype("f8") or a.size == 0:
            return None
        if variant == "buffer:array.array":
            import array as _array
            return _array.array("d", a.tolist())
        if variant == "buffer:ctypes":
            import ctypes as _ct
            return (_ct.c_double * a.size)(*a.tolist())
        return memoryview(bytearray(a.tobytes())).cast("d")
    if variant == "subclass":
        return a.copy().view(_Sub)
    if variant == "masked":
        if a.dtype.names is not None:
            return None
        return np.ma.MaskedArray(a.copy())
    if variant in ("memmap", "memmap-column"):
        if a.ndim != 1 or a.size == 0 or _MM["dir"] is None:
            return None
        _MM["n"] += 1
        fn = os.path.join(_MM["dir"], "c15_mm_%d_%d.bin" % (os.getpid(), _MM["n"] % 4))
        if variant == "memmap":
            mm = np.memmap(fn, dtype=a.dtype, mode="w+", shape=a.shape)
            mm[...] = a
            return mm
        if a.dtype.names is not None:
            return None
        mm = np.memmap(fn, dtype=[("pad", "u1", (3,)), ("col", a.dtype), ("tail", "S2")], mode="w+", shape=a.shape)
        mm["pad"] = 0xA5
        mm["col"] = a
        return mm["col"]
    if variant == "mixed-order":
        if a.dtype.names is None:
            return None
        multi = [n for n in a.dtype.names if a.dtype[n].base.itemsize > 1 and a.dtype[n].base.kind in "iufc"]
        if len(multi) < 2:
            return None
        descr = []
        for d in a.dtype.descr:
            if d[0] == multi[0]:
                d = (d[0], np.dtype(d[1]).newbyteorder("S").str) + tuple(d[2:])
            descr.append(d)
        return a.astype(np.dtype(descr))
    raise ValueError(variant)


def snapshot(a):
    if not isinstance(a, np.ndarray):
        return ("buffer", bytes(memoryview(a)), type(a).__name__, len(a))
    if isinstance(a, np.ma.MaskedArray):
        return ("masked", snapshot(np.asarray(a.data)), np.ma.getmaskarray(a).tobytes())
    base = a
    while isinstance(base, np.ndarray) and base.base is not None and isinstance(base.base, np.ndarray):
        base = base.base
    return (np.ascontiguousarray(base).view("u1").tobytes() if base.dtype.itemsize else b"",
            a.dtype.descr if a.dtype.names else a.dtype.str, a.shape, a.strides,
            a.flags.writeable, a.flags.c_contiguous)


def main(ctx):
    # every lattice part once more under FP traps + warnings-as-errors (clean on the unchanged tree, see DESIGN section 0)
    ctx.envstrict_all = True
    import esutil as eu
    from esutil import coords as C, stat, numpy_util as nu, htm, sfile, recfile, wcsutil, integrate, cosmology

    ra = np.array([10.0, 200.0, 359.0, 45.0])
    dec = np.array([-20.0, 45.0, 89.0, 0.0])
    ra2 = ra + 1
    dec2 = dec - 1
    xx = np.array([1.0, 2.0, 2.5, 7.0, 3.0, 2.0])
    ww = np.array([1.0, 2.0, 1.0, 0.5, 3.0, 1.0])
    yy = xx * 2
    ia = np.array([3, 1, 2, 7], dtype="i4")
    ib = np.array([2, 2, 0, 5, 3, 3], dtype="i4")
    st = np.zeros(4, dtype=[("x", "<f8"), ("v", "<i2", (2,)), ("s", "S3"), ("b", "i1")])
    st["x"] = [1, 2, 3, 4]
    st["v"] = np.arange(8).reshape(4, 2)
    st["s"] = [b"a", b"", b"abc", b"zz"]
    st["b"] = [1, -2, 3, -4]
    SPECS = {}

    def spec(name, arrays, fn):
        SPECS[name] = (arrays, fn)

    # --- coords
    for nm in ("eq2gal", "gal2eq", "eq2ec", "ec2eq", "ec2gal", "gal2ec", "eq2sdss", "eq2xyz", "radec2aitoff"):
        spec("coords." + nm, dict(a=ra, b=dec), lambda a, b, f=getattr(C, nm): f(a, b))
    for nm in ("eq2gal", "gal2ec"):
        spec("coords.%s(b1950)" % nm, dict(a=ra, b=dec), lambda a, b, f=getattr(C, nm): f(a, b, b1950=True))
    for sel in (1, 4):
        spec("coords.euler(%d)" % sel, dict(a=ra, b=dec), lambda a, b, sel=sel: C.euler(a, b, sel))
    spec("coords.eq2xyz(rad)", dict(a=np.deg2rad(ra), b=np.deg2rad(dec)), lambda a, b: C.eq2xyz(a, b, units="rad"))
    spec("coords.eq2xyz(stomp)", dict(a=ra, b=dec), lambda a, b: C.eq2xyz(a, b, stomp=True))
    spec("coords.sdss2eq", dict(a=np.array([-10.0, 0, 50, 89]), b=np.array([-100.0, 0, 100, 179])),
         lambda a, b: C.sdss2eq(a, b))
    x3, y3, z3 = [np.array(v) for v in ([1.0, 0, 0, 0.6], [0.0, 1, 0, 0.0], [0.0, 0, 1, 0.8])]
    spec("coords.xyz2eq", dict(a=x3, b=y3, c=z3), lambda a, b, c: C.xyz2eq(a, b, c))
    spec("coords.xyz2eq(rad,stomp)", dict(a=x3, b=y3, c=z3), lambda a, b, c: C.xyz2eq(a, b, c, units="rad", stomp=True))
    spec("coords.shiftlon", dict(a=ra), lambda a: C.shiftlon(a))
    spec("coords.shiftlon(shift)", dict(a=ra), lambda a: C.shiftlon(a, shift=10.0))
    spec("coords.shiftlon(negshift,nowrap)", dict(a=ra), lambda a: C.shiftlon(a, shift=-10.0, wrap=False))
    spec("coords.shiftra", dict(a=ra), lambda a: C.shiftra(a, shift=100.0))
    spec("coords.rotate", dict(a=ra, b=dec), lambda a, b: C.rotate(10.0, 20.0, 30.0, a, b))
    spec("coords.atbound", dict(a=ra), lambda a: C.atbound(a.copy() if False else a, 0.0, 360.0) if False else None)
    del SPECS["coords.atbound"]   # atbound/atbound2 are documented as in-place helpers
    for units in (("deg", "deg"), ("rad", "rad"), ("deg", "rad"), ("rad", "deg")):
        conv = (lambda v: np.deg2rad(v)) if units[0] == "rad" else (lambda v: v)
        spec("coords.sphdist(%s,%s)" % units, dict(a=conv(ra), b=conv(dec), c=conv(ra2), d=conv(dec2)),
             lambda a, b, c, d, u=list(units): C.sphdist(a, b, c, d, units=u))
    spec("coords.gcirc", dict(a=ra, b=dec, c=ra2, d=dec2), lambda a, b, c, d: C.gcirc(a, b, c, d))
    spec("coords.gcirc(angle)", dict(a=ra, b=dec, c=ra2, d=dec2), lambda a, b, c, d: C.gcirc(a, b, c, d, getangle=True))
    spec("coords.randcap-centre", dict(), lambda: None)
    del SPECS["coords.randcap-centre"]

    # --- stat
    spec("stat.histogram", dict(a=xx), lambda a: stat.histogram(a, binsize=1.0, rev=True))
    spec("stat.histogram(nbin,min,max)", dict(a=xx), lambda a: stat.histogram(a, nbin=3, min=1.5, max=6.0, rev=True))
    spec("stat.histogram(weights)", dict(a=xx, w=ww), lambda a, w: stat.histogram(a, weights=w, binsize=1.0))
    spec("stat.histogram(more)", dict(a=xx), lambda a: stat.histogram(a, binsize=2.0, more=True))
    spec("stat.histogram(nperbin)", dict(a=xx, w=ww), lambda a, w: stat.histogram(a, weights=w, nperbin=2))
    spec("stat.histogram(python engine)", dict(a=xx, w=ww), lambda a, w: _pyengine(stat, a, w))
    spec("stat.Binner", dict(a=xx, y=yy, w=ww), lambda a, y, w: _binner(stat, a, y, w))
    spec("stat.histogram2d", dict(a=xx, b=yy), lambda a, b: stat.histogram2d(a, b, nx=2, ny=2))
    spec("stat.wmom", dict(a=xx, w=ww), lambda a, w: stat.wmom(a, w, calcerr=True, sdev=True))
    spec("stat.wmom(inputmean)", dict(a=xx, w=ww), lambda a, w: stat.wmom(a, w, inputmean=2.0))
    a2 = np.arange(12.0).reshape(6, 2)
    spec("stat.wmom(Nxd)", dict(a=a2, w=ww), lambda a, w: stat.wmom(a, w, sdev=True, calcerr=True))
    spec("stat.wmedian", dict(a=xx, w=ww), lambda a, w: stat.wmedian(a, w))
    spec("stat.sigma_clip", dict(a=xx), lambda a: stat.sigma_clip(a, nsig=1.0, silent=True))
    spec("stat.sigma_clip(weights)", dict(a=xx, w=ww),
         lambda a, w: stat.sigma_clip(a, weights=w, nsig=1.0, silent=True, get_indices=True))
    spec("stat.interplin", dict(v=yy[:5], x=np.array([1.0, 2.0, 2.5, 3.0, 7.0]), u=np.array([0.0, 2.2, 9.0, 2.5])),
         lambda v, x, u: stat.interplin(v, x, u))
    spec("stat.get_stats", dict(a=xx), lambda a: stat.get_stats(a))
    spec("stat.get_stats(weights)", dict(a=xx, w=ww), lambda a, w: stat.get_stats(a, weights=w))
    spec("stat.get_stats(nsig)", dict(a=xx), lambda a: stat.get_stats(a, nsig=2.0))
    cov = np.array([[2.0, 0.5], [0.5, 3.0]])
    spec("stat.cov2cor", dict(c=cov), lambda c: stat.cov2cor(c))
    spec("stat.cor2cov", dict(c=np.array([[1.0, 0.2], [0.2, 1.0]]), d=np.array([1.0, 2.0])),
         lambda c, d: stat.cor2cov(c, d))
    cov3 = np.array([[4.0, 1.2, 0.3], [1.2, 9.0, -0.6], [0.3, -0.6, 1.0]])
    spec("stat.cov2cor(3x3)", dict(c=cov3), lambda c: stat.cov2cor(c))
    spec("stat.cor2cov(3x3)", dict(c=np.array([[1.0, 0.2, -0.1], [0.2, 1.0, 0.3], [-0.1, 0.3, 1.0]]), d=np.array([1.0, 2.0, 0.5])),
         lambda c, d: stat.cor2cov(c, d))
    spec("stat.boxcar_average", dict(a=xx), lambda a: stat.boxcar_average(a, 2))

    # --- numpy_util
    spec("nu.match", dict(a=ia, b=ib), lambda a, b: nu.match(a, b))
    spec("nu.match(presorted)", dict(a=np.sort(ia), b=ib), lambda a, b: nu.match(a, b, presorted=True))
    spec("nu.match(float)", dict(a=ia * 1.5, b=ib * 1.5), lambda a, b: nu.match(a, b))
    spec("nu.match(str)", dict(a=np.array([b"b", b"a", b"cc"]), b=np.array([b"cc", b"x", b"a", b"a"])),
         lambda a, b: nu.match(a, b))
    spec("nu.match_multi", dict(a=ia, b=ib), lambda a, b: nu.match_multi(a, b))
    spec("nu.unique", dict(a=ib), lambda a: nu.unique(a))
    spec("nu.unique(values)", dict(a=ib), lambda a: nu.unique(a, values=True))
    spec("nu.rem_dup", dict(a=ib, f=np.array([0, 1, 2, 3, 4, 1])), lambda a, f: nu.rem_dup(a, f))
    spec("nu.rem_dup(values)", dict(a=ib, f=np.array([0, 1, 2, 3, 4, 1])), lambda a, f: nu.rem_dup(a, f, values=True))
    spec("nu.extract_fields", dict(a=st), lambda a: nu.extract_fields(a, ["x", "s"]))
    spec("nu.remove_fields", dict(a=st), lambda a: nu.remove_fields(a, "x"))
    spec("nu.add_fields", dict(a=st), lambda a: nu.add_fields(a, [("n", "f4")], defaults=[3]))
    spec("nu.reorder_fields", dict(a=st), lambda a: nu.reorder_fields(a, ["s"]))
    spec("nu.combine_fields", dict(a=st, q=np.zeros(4, dtype=[("q", ">i4")])), lambda a, q: nu.combine_fields([a, q]))
    spec("nu.split_fields", dict(a=st), lambda a: nu.split_fields(a))
    spec("nu.compare_arrays", dict(a=st, b=st.copy()), lambda a, b: nu.compare_arrays(a, b))
    spec("nu.copy_fields(source)", dict(a=st), lambda a: nu.copy_fields(a, np.zeros(a.shape, dtype=st.dtype)))
    spec("nu.splitarray", dict(a=xx), lambda a: nu.splitarray(2, a))
    for fname in ("to_native", "to_big_endian", "to_little_endian", "byteswap"):
        f = getattr(nu, fname)
        spec("nu.%s(struct)" % fname, dict(a=st), lambda a, f=f: f(a))
        spec("nu.%s(struct,keep_dtype)" % fname, dict(a=st), lambda a, f=f: f(a, keep_dtype=True))
        spec("nu.%s(plain)" % fname, dict(a=np.arange(6, dtype="i4")), lambda a, f=f: f(a))
        spec("nu.%s(plain f8,keep_dtype)" % fname, dict(a=xx), lambda a, f=f: f(a, inplace=False, keep_dtype=True))
    spec("nu.is_big_endian", dict(a=xx), lambda a: (nu.is_big_endian(a), nu.is_little_endian(a)))

    # --- record files
    tmpd = {}

    def fname_for(tag):
        return os.path.join(tmpd["d"], "c15_%s.rec" % tag)

    ft = np.zeros(3, dtype=[("a", "<i4"), ("x", "<f8", (2,)), ("s", "S3")])
    ft["a"] = [1, 2, 3]
    ft["x"] = [[0.5, 1.5], [2.5, -1.0], [1e10, 3.0]]
    ft["s"] = [b"a", b"", b"abc"]
    for delim in (None, ",", " ", "\t"):
        for optname, opt in (("", {}), ("padnull", {"padnull": True}), ("ignorenull", {"ignorenull": True})):
            if delim is None and optname:
                continue
            tag = "%s%s" % ("bin" if delim is None else "d%d" % ord(delim), optname)
            spec("sfile.write(%s)" % tag, dict(a=ft), lambda a, d=delim, o=opt, t=tag: sfile.write(fname_for("s" + t), a, delim=d, **o))
            spec("recfile.write(%s)" % tag, dict(a=ft), lambda a, d=delim, o=opt, t=tag: recfile.write(fname_for("r" + t), a, delim=d, **o))
            spec("io.write(%s)" % tag, dict(a=ft), lambda a, d=delim, o=opt, t=tag: eu.io.write(fname_for("i" + t), a, delim=d, **o))
    spec("SFile.write x2(text)", dict(a=ft, b=ft[:2].copy()), lambda a, b: _sfile_twice(sfile, fname_for("tw"), a, b, ","))
    spec("SFile.write x2(binary)", dict(a=ft, b=ft[:2].copy()), lambda a, b: _sfile_twice(sfile, fname_for("twb"), a, b, None))
    spec("sfile.write(append,text)", dict(a=ft), lambda a: _sfile_append(sfile, fname_for("ap"), a, ","))
    spec("Recfile.write(bracket_arrays)", dict(a=ft), lambda a: _rec_bracket(recfile, fname_for("br"), a))

    # --- wcs
    hd = dict(W.DECAM)
    px = np.array([10.0, 500.0, 2000.0, 1024.0])
    py = np.array([20.0, 3000.0, 100.0, 2048.0])
    lon, lat = [np.asarray(v, dtype="f8") for v in W.forward(hd, px, py)]
    sip = W.make_header("SIP2", (10.0, 20.0), 0.27, 30.0, False, (500.0, 600.0))
    slon, slat = [np.asarray(v, dtype="f8") for v in W.forward(sip, px, py)]
    tan = W.make_header("TAN", (359.9999, 89.99), 0.27, 30.0, False, (1024.0, 2048.0))
    tlon, tlat = [np.asarray(v, dtype="f8") for v in W.forward(tan, px, py)]
    for hname, h, (l1, l2) in (("tpv", hd, (lon, lat)), ("sip", sip, (slon, slat)), ("tan", tan, (tlon, tlat))):
        spec("wcs.image2sky(%s)" % hname, dict(a=px, b=py), lambda a, b, h=h: wcsutil.WCS(dict(h)).image2sky(a, b))
        spec("wcs.image2sky(%s,nodistort)" % hname, dict(a=px, b=py),
             lambda a, b, h=h: wcsutil.WCS(dict(h)).image2sky(a, b, distort=False))
        spec("wcs.sky2image(%s,find)" % hname, dict(a=l1[:2], b=l2[:2]), lambda a, b, h=h: wcsutil.WCS(dict(h)).sky2image(a, b))
        spec("wcs.sky2image(%s,nofind)" % hname, dict(a=l1, b=l2),
             lambda a, b, h=h: wcsutil.WCS(dict(h)).sky2image(a, b, find=False))
        spec("wcs.sky2image(%s,nofind,nodistort)" % hname, dict(a=l1, b=l2),
             lambda a, b, h=h: wcsutil.WCS(dict(h)).sky2image(a, b, find=False, distort=False))
        spec("wcs.get_jacobian(%s)" % hname, dict(a=px, b=py), lambda a, b, h=h: wcsutil.WCS(dict(h)).get_jacobian(a, b))

    # --- cosmology
    cos = dict(flat=cosmology.Cosmo(), curved=cosmology.Cosmo(omega_m=0.3, omega_l=0.6, omega_k=0.1, flat=False))
    z1 = np.array([0.1, 0.2, 0.3, 0.0])
    z2 = np.array([0.5, 0.6, 0.7, 1.0])
    for cn, c in cos.items():
        for nm in ("Dc", "Dm", "Da", "Dl", "sigmacritinv", "Ezinv_integral"):
            spec("cosmo.%s.%s(vec,vec)" % (cn, nm), dict(a=z1, b=z2), lambda a, b, c=c, nm=nm: getattr(c, nm)(a, b))
            spec("cosmo.%s.%s(vec,scalar)" % (cn, nm), dict(a=z1), lambda a, c=c, nm=nm: getattr(c, nm)(a, 1.5))
            spec("cosmo.%s.%s(scalar,vec)" % (cn, nm), dict(a=z2), lambda a, c=c, nm=nm: getattr(c, nm)(0.05, a))
        for nm in ("dV", "distmod", "Ez_inverse"):
            spec("cosmo.%s.%s(vec)" % (cn, nm), dict(a=z2), lambda a, c=c, nm=nm: getattr(c, nm)(a))
        spec("cosmo.%s.V(vec,vec)" % cn, dict(a=z1, b=z2), lambda a, b, c=c: c.V(a[0], b[0]))
        spec("cosmo.%s.sigmacritinv(npts)" % cn, dict(a=z1, b=z2), lambda a, b, c=c: c.sigmacritinv(a, b, npts=5))

    # --- htm
    hobj = htm.HTM(8)
    rad = np.array([2.0, 2.0, 2.0, 2.0])
    spec("htm.lookup_id", dict(a=ra, b=dec), lambda a, b: hobj.lookup_id(a, b))
    spec("htm.intersect", dict(), lambda: None)
    del SPECS["htm.intersect"]
    spec("htm.match", dict(a=ra, b=dec, c=ra2, d=dec2, r=rad), lambda a, b, c, d, r: hobj.match(a, b, c, d, r, maxmatch=0))
    spec("htm.match(scalar radius,maxmatch=1)", dict(a=ra, b=dec, c=ra2, d=dec2),
         lambda a, b, c, d: hobj.match(a, b, c, d, 2.0, maxmatch=1))
    spec("htm.match(file)", dict(a=ra, b=dec, c=ra2, d=dec2),
         lambda a, b, c, d: hobj.match(a, b, c, d, 2.0, maxmatch=0, file=fname_for("pairs")))
    spec("htm.Matcher", dict(a=ra, b=dec, c=ra2, d=dec2), lambda a, b, c, d: htm.Matcher(8, a, b).match(c, d, 2.0, maxmatch=0))
    spec("htm.Matcher(radius array)", dict(a=ra, b=dec, c=ra2, d=dec2, r=rad),
         lambda a, b, c, d, r: htm.Matcher(8, a, b).match(c, d, r, maxmatch=2))
    spec("htm.bincount", dict(a=ra, b=dec, c=ra2, d=dec2), lambda a, b, c, d: hobj.bincount(0.1, 5.0, 3, a, b, c, d))
    spec("htm.bincount(scale array)", dict(a=ra, b=dec, c=ra2, d=dec2, s=np.array([1.0, 2.0, 3.0, 1.5])),
         lambda a, b, c, d, s: hobj.bincount(0.1, 5.0, 3, a, b, c, d, scale=s))
    ids = hobj.lookup_id(ra2, dec2)
    hh, rev = stat.histogram(ids - ids.min(), rev=True)
    spec("htm.bincount(htmid2,htmrev2)", dict(i=ids, r=rev),
         lambda i, r: hobj.bincount(0.1, 5.0, 3, ra, dec, ra2, dec2, htmid2=i, htmrev2=r,
                                    minid=ids.min(), maxid=ids.max()))
    spec("htm.bincount(htmid2,htmrev2,no minmax)", dict(i=ids, r=rev),
         lambda i, r: hobj.bincount(0.1, 5.0, 3, ra, dec, ra2, dec2, htmid2=i, htmrev2=r))
    spec("htm.cylmatch", dict(), lambda: None)
    del SPECS["htm.cylmatch"]

    # --- integrate (tabulated data integrator takes arrays)
    spec("integrate.QGauss.integrate(data)", dict(x=np.array([0.0, 1.0, 3.0, 4.0]), y=np.array([1.0, 2.0, 0.0, 1.0])),
         lambda x, y: integrate.QGauss(5).integrate(x, y))

    BASE_SPECS = list(SPECS)      # the hand-registered specifications (before the option products): used by near-equal-elements
    STRUCTURAL_EXTRA = []
    # ------------------------------------------------ option lattices (full products)
    # For every function below ALL combinations of its boolean / enumerated keyword options are
    # registered (a hand-picked option set misses e.g. the one branch `units='rad', stomp=True` that
    # works on the caller's array).  Array arguments named in `kwarr` are passed by keyword.
    import itertools
    BO = [False, True]

    def ospec(name, f, arrays, options, kwarr=(), fixed=None):
        keys = list(options)
        combos = list(itertools.product(*[options[k] for k in keys]))
        # every boolean option once more as numpy.bool_ and as int 0/1 (what a comparison, a table column or a
        # command-line flag yields), the other options at their first value: "flag is False" style tests
        for k in keys:
            if options[k] == BO or options[k] == [False]:
                for v in ([np.False_, np.True_, 0, 1] if options[k] == BO else [np.False_, 0]):
                    combos.append(tuple(v if kk == k else options[kk][0] for kk in keys))
        for combo in combos:
            kw = dict(zip(keys, combo))
            nm = "%s[%s]" % (name, ",".join("%s=%s%r" % (k, type(kw[k]).__name__ + ":" if isinstance(kw[k], (np.bool_, int)) and not isinstance(kw[k], bool) else "", kw[k]) for k in keys))

            def call(_kw=kw, _f=f, _names=list(arrays), **arrs):
                pos = [arrs[k] for k in _names if k not in kwarr]
                kws = {k: arrs[k] for k in _names if k in kwarr}
                kws.update(_kw)
                kws.update(fixed or {})
                return _f(*pos, **kws)
            SPECS[nm] = (dict(arrays), call)

    # numbers that are valid both as degrees and as radians (ra in [0,2pi), |dec| <= pi/2)
    ura = np.array([0.2, 3.5, 6.2, 0.8])
    udec = np.array([-0.35, 0.8, 1.5, 0.0])
    ura2 = np.array([0.21, 3.4, 0.1, 3.9])
    udec2 = np.array([-0.3, 0.7, -1.5, 0.02])
    for nm in ("eq2gal", "gal2eq", "eq2ec", "ec2eq", "ec2gal", "gal2ec"):
        ospec("coords." + nm, getattr(C, nm), dict(a=ura, b=udec), dict(b1950=BO, dtype=["f8", "f4"]))
    ospec("coords.euler", lambda a, b, select, **kw: C.euler(a, b, select, **kw), dict(a=ura, b=udec),
          dict(select=[1, 2, 3, 4, 5, 6], b1950=BO, dtype=["f8", "f4"]))
    ospec("coords.eq2sdss", C.eq2sdss, dict(a=ura, b=udec), dict(dtype=["f8", "f4"]))
    ospec("coords.sdss2eq", C.sdss2eq, dict(a=udec, b=ura - 3.0), dict(dtype=["f8", "f4"]))
    ospec("coords.eq2xyz", C.eq2xyz, dict(a=ura, b=udec), dict(dtype=["f8", "f4"], units=["deg", "rad"], stomp=BO))
    ospec("coords.xyz2eq", C.xyz2eq, dict(a=x3, b=y3, c=z3), dict(units=["deg", "rad"], stomp=BO))
    ospec("coords.gcirc", C.gcirc, dict(a=ura, b=udec, c=ura2, d=udec2), dict(getangle=BO))
    ospec("coords.sphdist", C.sphdist, dict(a=ura, b=udec, c=ura2, d=udec2),
          dict(units=[["deg", "deg"], ["rad", "rad"], ["deg", "rad"], ["rad", "deg"]]))
    for nm in ("shiftlon", "shiftra"):
        ospec("coords." + nm, getattr(C, nm), dict(a=ra), dict(shift=[None, 0.0, 10.0, -10.0, 350.0, 10.000000000000002, 199.99999999999997], wrap=BO))
    ospec("coords.rotate", lambda a, b, ang: C.rotate(ang[0], ang[1], ang[2], a, b), dict(a=ra, b=dec),
          dict(ang=[(0.0, 0.0, 0.0), (10.0, 0.0, 30.0), (10.0, 20.0, 30.0), (0.0, 90.0, 0.0), (0.0, 180.0, 5.0)]))
    ospec("coords.radec2aitoff", C.radec2aitoff, dict(a=ra, b=dec), dict())
    ospec("coords.randsphere-args", lambda a, b, system: C.randsphere(3, ra_range=a, dec_range=b, system=system,
                                                                       rng=np.random.RandomState(1)),
          dict(a=np.array([10.0, 35.0]), b=np.array([-25.0, 15.0])), dict(system=["eq", "xyz"]))

    # stat
    for binning in (dict(binsize=1.0), dict(nbin=3), dict(nperbin=2)):
        bname = list(binning)[0]
        ospec("stat.histogram(%s)" % bname, stat.histogram, dict(a=xx), dict(min=[None, 1.5], max=[None, 6.0], rev=BO,
              more=BO, mergelast=BO), fixed=binning)
        ospec("stat.histogram(%s,weights)" % bname, stat.histogram, dict(a=xx, weights=ww),
              dict(min=[None, 1.5], max=[None, 6.0], rev=BO, more=BO), kwarr=("weights",), fixed=binning)

        def bdo(a, y, weights, _b=binning, **kw):
            b = stat.Binner(a, y, weights=weights)
            b.dohist(**dict(_b, **kw))
            b.calc_stats()
            return b
        ospec("stat.Binner(%s)" % bname, bdo, dict(a=xx, y=yy, weights=ww), dict(min=[None, 1.5], max=[None, 6.0], rev=BO,
              calc_stats=BO), kwarr=("weights",))
    ospec("stat.histogram2d", stat.histogram2d, dict(a=xx, b=yy), dict(rev=BO, more=BO), fixed=dict(nx=2, ny=3))
    ospec("stat.histogram2d(z,weights)", stat.histogram2d, dict(a=xx, b=yy, z=yy + 1, weights=ww), dict(rev=BO, more=BO),
          kwarr=("z", "weights"), fixed=dict(nx=2, ny=3))
    ospec("stat.wmom", stat.wmom, dict(a=xx, w=ww), dict(inputmean=[None, 0.0, 2.0], calcerr=BO, sdev=BO))
    ospec("stat.wmom(Nxd)", stat.wmom, dict(a=xx.reshape(3, 2).copy(), w=ww[:3].copy()), dict(calcerr=BO, sdev=BO))
    ospec("stat.sigma_clip", stat.sigma_clip, dict(a=xx), dict(niter=[0, 1, 4], nsig=[1.0, 4], get_err=BO, get_indices=BO),
          fixed=dict(silent=True))
    ospec("stat.sigma_clip(weights)", stat.sigma_clip, dict(a=xx, weights=ww),
          dict(niter=[0, 1, 4], nsig=[1.0, 4], get_err=BO, get_indices=BO), kwarr=("weights",), fixed=dict(silent=True))
    ospec("stat.get_stats", stat.get_stats, dict(a=xx), dict(nsig=[None, 2.0]))
    ospec("stat.get_stats(weights)", stat.get_stats, dict(a=xx, weights=ww), dict(nsig=[None, 2.0], inputmean=[None, 2.0]),
          kwarr=("weights",))
    ospec("stat.interplin(scalar u)", lambda v, x, u0: stat.interplin(v, x, u0), dict(v=yy[:5], x=np.array([1.0, 2.0, 2.5, 3.0, 7.0])),
          dict(u0=[0.0, 2.2, 9.0]))

    # numpy_util
    plain = {"struct": st, "f8": xx, "i4": np.arange(6, dtype="i4"), "2d": np.arange(6.0).reshape(2, 3)}
    for fname in ("byteswap", "to_native", "to_big_endian", "to_little_endian"):
        for pk, pv in plain.items():
            ospec("nu.%s(%s)" % (fname, pk), getattr(nu, fname), dict(a=pv), dict(inplace=[False], keep_dtype=BO))
    for fname in ("match", "match_multi"):
        ospec("nu." + fname, getattr(nu, fname), dict(a=np.sort(ia), b=ib), dict(presorted=BO))
    ospec("nu.unique", nu.unique, dict(a=ib), dict(values=BO))
    ospec("nu.rem_dup", nu.rem_dup, dict(a=ib, f=np.array([0, 1, 2, 3, 4, 1])), dict(values=BO))
    ospec("nu.extract_fields", nu.extract_fields, dict(a=st), dict(keepnames=[["x"], ["s", "x"], ["x", "v", "s", "b"], ("b", "zz")],
          strict=BO))
    ospec("nu.reorder_fields", nu.reorder_fields, dict(a=st), dict(ordered_names=[["s"], ["b", "x"], ["x", "v", "s", "b"], ["zz", "x"]],
          strict=BO))
    ospec("nu.remove_fields", nu.remove_fields, dict(a=st), dict(rmnames=["x", ["x", "b"], ["zz"]]))
    ospec("nu.add_fields", nu.add_fields, dict(a=st), dict(add_dtype_or_descr=[[("n", "f4")], [("n", "S2"), ("m", ">i4", (2,))]],
          defaults=[None]))
    ospec("nu.split_fields", nu.split_fields, dict(a=st), dict(fields=[None, ["x"], ["s", "v"]], getnames=BO))
    ospec("nu.compare_arrays", nu.compare_arrays, dict(a=st, b=st[::-1].copy()), dict(ignore_missing=BO), fixed=dict(verbose=False))
    ospec("nu.between", nu.between, dict(a=xx), dict(type=["[]", "[)", "(]", "()"]), fixed=dict(lowval=2.0, highval=3.0))
    ospec("nu.outside", nu.outside, dict(a=xx), dict(type=["[]", "[)", "(]", ")("]), fixed=dict(lowval=2.0, highval=3.0))
    ospec("nu.arrscl", nu.arrscl, dict(a=xx), dict(arrmin=[None, 0.0], arrmax=[None, 10.0]), fixed=dict(minval=0.0, maxval=1.0))
    ospec("nu.combine_arrlist", lambda a, b, keep: nu.combine_arrlist([a, b], keep=keep), dict(a=st, b=st[:2].copy()), dict(keep=BO))
    ospec("nu.arr2str", nu.arr2str, dict(a=xx), dict(brackets=BO))

    # record files: the full product of the write options
    for wname, wf in (("sfile.write", lambda a, t, **kw: sfile.write(fname_for("os" + t), a, **kw)),
                      ("recfile.write", lambda a, t, **kw: recfile.write(fname_for("or" + t), a, **kw)),
                      ("io.write", lambda a, t, **kw: eu.io.write(fname_for("oi" + t), a, **kw))):
        ospec(wname, lambda a, _wf=wf, **kw: _wf(a, "%s%d%d" % (("b" if kw["delim"] is None else "d%d" % ord(kw["delim"])),
                                                                 kw.get("padnull", 0), kw.get("ignorenull", 0)), **kw),
              dict(a=ft), dict(delim=[",", " ", "\t", ":"], padnull=BO, ignorenull=BO))
    ospec("Recfile.write", lambda a, **kw: _rec_write(recfile, fname_for("orw"), a, **kw), dict(a=ft),
          dict(delim=[None, ",", " "], bracket_arrays=BO, padnull=BO))

    # wcs, htm: every option combination
    # reference point exactly on a pole with CRVAL1 = 0 (the rotation to the native system is the identity there)
    pole_n = W.make_header("TAN", (0.0, 90.0), 0.27, 0.0, False, (1024.0, 2048.0))
    pole_s = W.make_header("SIP2", (0.0, -90.0), 0.27, 30.0, False, (1024.0, 2048.0))
    pnl = [np.asarray(v, dtype="f8") for v in W.forward(pole_n, px, py)]
    psl = [np.asarray(v, dtype="f8") for v in W.forward(pole_s, px, py)]
    for hname, h, (l1, l2) in (("tpv", hd, (lon, lat)), ("sip", sip, (slon, slat)), ("tan", tan, (tlon, tlat)),
                               ("tan-at-north-pole", pole_n, pnl), ("sip-at-south-pole", pole_s, psl)):
        ospec("wcs.image2sky(%s)" % hname, lambda a, b, _h=h, **kw: wcsutil.WCS(dict(_h)).image2sky(a, b, **kw), dict(a=px, b=py),
              dict(distort=BO))
        ospec("wcs.sky2image(%s)" % hname, lambda a, b, _h=h, **kw: wcsutil.WCS(dict(_h)).sky2image(a, b, **kw),
              dict(a=l1[:2], b=l2[:2]), dict(distort=BO, find=BO))
        ospec("wcs.get_jacobian(%s)" % hname, lambda a, b, _h=h, **kw: wcsutil.WCS(dict(_h)).get_jacobian(a, b, **kw),
              dict(a=px, b=py), dict(distort=BO, step=[1.0, 0.5]))
    ospec("htm.match", lambda a, b, c, d, **kw: hobj.match(a, b, c, d, 2.0, **kw), dict(a=ra, b=dec, c=ra2, d=dec2),
          dict(maxmatch=[-1, 0, 1, 2]))
    ospec("htm.match(radius array)", lambda a, b, c, d, r, **kw: hobj.match(a, b, c, d, r, **kw),
          dict(a=ra, b=dec, c=ra2, d=dec2, r=rad), dict(maxmatch=[-1, 0, 1, 2]))
    ospec("htm.bincount", lambda a, b, c, d, **kw: hobj.bincount(0.1, 5.0, 3, a, b, c, d, **kw), dict(a=ra, b=dec, c=ra2, d=dec2),
          dict(scale=[None, 2.0], getbins=BO))
    for with_rev in (False, True):
        for with_mm in (False, True):
            def bc(i, r=None, _mm=with_mm):
                kw = dict(htmid2=i)
                if r is not None:
                    kw["htmrev2"] = r
                if _mm:
                    kw.update(minid=ids.min(), maxid=ids.max())
                return hobj.bincount(0.1, 5.0, 3, ra, dec, ra2, dec2, **kw)
            arrs = dict(i=ids, r=rev) if with_rev else dict(i=ids)
            nm = "htm.bincount(supplied)[htmrev2=%s,minmax=%s]" % (with_rev, with_mm)
            SPECS[nm] = (arrs, bc)
            if with_rev:
                STRUCTURAL_EXTRA.append((nm, "r"))
    # positions outside the canonical longitude range (legitimate input: it is wrapped), redshifts that are
    # negative by a rounding error, tables holding a column type the text writer rejects: the callee has a reason
    # to "clean" the value or bails out half-way - neither may touch the caller's array
    wra = np.array([-10.0, 370.0, 720.5, 359.0])
    wra2 = np.array([-9.5, 369.0, 0.4, -1.0])
    ospec("htm.Matcher(ra outside [0,360))", lambda a, b, c, d, maxmatch: htm.Matcher(8, a, b).match(c, d, 2.0, maxmatch=maxmatch),
          dict(a=wra, b=dec, c=wra2, d=dec2), dict(maxmatch=[0, 1]))
    ospec("htm.match(ra outside [0,360))", lambda a, b, c, d, maxmatch: hobj.match(a, b, c, d, 2.0, maxmatch=maxmatch),
          dict(a=wra, b=dec, c=wra2, d=dec2), dict(maxmatch=[0, 1]))
    ospec("htm.lookup_id(ra outside [0,360))", lambda a, b: hobj.lookup_id(a, b), dict(a=wra, b=dec), dict())
    ospec("htm.bincount(ra outside [0,360))", lambda a, b, c, d: hobj.bincount(0.1, 5.0, 3, a, b, c, d), dict(a=wra, b=dec, c=wra2, d=dec2), dict())
    zneg = np.array([-1e-13, 0.2, -0.0, 0.5])
    zneg2 = np.array([0.5, 0.6, -5e-14, 1.0])
    for cn, c in cos.items():
        for nm in ("Dc", "Dm", "Da", "Dl", "sigmacritinv", "Ezinv_integral"):
            ospec("cosmo.%s.%s(tiny negative z)" % (cn, nm), lambda a, b, _c=c, _nm=nm: getattr(_c, _nm)(a, b), dict(a=zneg, b=zneg2), dict())
        for nm in ("dV", "distmod", "Ez_inverse"):
            ospec("cosmo.%s.%s(tiny negative z)" % (cn, nm), lambda a, _c=c, _nm=nm: getattr(_c, _nm)(a), dict(a=zneg), dict())
    # a table with a column the text writer cannot format: the write raises, the argument must be as before
    for badt in ("?", "f2", "c16", "U3"):
        bt = np.zeros(3, dtype=[("a", "<i4"), ("bad", badt), ("x", "<f8")])
        bt["a"] = [1, 2, 3]
        bt["x"] = [0.5, 1.5, 2.5]
        ospec("sfile.write(text, unsupported column %s)" % badt, lambda a, delim, _t=badt: sfile.write(fname_for("bad" + _t.strip("?") + str(ord(delim))), a, delim=delim),
              dict(a=bt), dict(delim=[",", " "]))
        ospec("recfile.write(text, unsupported column %s)" % badt, lambda a, delim, _t=badt: recfile.write(fname_for("rbad" + _t.strip("?") + str(ord(delim))), a, delim=delim),
              dict(a=bt), dict(delim=[","]))
    ospec("htm.intersect-scalars", lambda inclusive: hobj.intersect(10.0, 20.0, 1.0, inclusive=inclusive), dict(), dict(inclusive=BO))

    # weights of extreme magnitude (a "robustness" rescaling must happen on a private copy), all error options
    for sc in (1e160, 1e-160, 1e300, 5e-324 * 1e10):
        wbig = ww * sc
        ospec("stat.wmom(weights x %g)" % sc, lambda a, w, calcerr, sdev: stat.wmom(a, w, calcerr=calcerr, sdev=sdev), dict(a=xx, w=wbig), dict(calcerr=BO, sdev=BO))
        ospec("stat.get_stats(weights x %g)" % sc, lambda a, w: stat.get_stats(a, weights=w), dict(a=xx, w=wbig), dict())
        ospec("stat.histogram(weights x %g)" % sc, lambda a, w: stat.histogram(a, weights=w, binsize=1.0), dict(a=xx, w=wbig), dict())

    # ---------------------------------------------------------------- runner
    def one(case, rec):
        sname, target, variant = case
        if "d" not in tmpd or tmpd.get("owner") is not rec:
            tmpd["d"] = rec.tmp
            tmpd["owner"] = rec
        _MM["dir"] = rec.tmp
        arrays, fn = SPECS[sname]
        args = {}
        for k, base in arrays.items():
            if target == "*" or k == target:
                v = make_variant(base, variant)
                if v is None:
                    if target != "*":
                        return          # variant not applicable to this argument
                    v = np.asarray(base).copy()
            else:
                v = np.asarray(base).copy()
            args[k] = v
        snaps = {k: snapshot(v) for k, v in args.items()}
        err = None
        try:
            fn(**args)
        except Exception as e:
            err = "%s: %s" % (type(e).__name__, str(e)[:100])
        for k, v in args.items():
            s2 = snapshot(v)
            if s2 != snaps[k]:
                what = []
                names = ("bytes of the base buffer", "dtype", "shape", "strides", "writeable flag", "contiguity flag")
                for nmx, x0, x1 in zip(names, snaps[k], s2):
                    if x0 != x1:
                        what.append(nmx)
                return rec.fail(case, "argument %r was modified (%s)%s" % (
                    k, ", ".join(what), "; the call raised " + err if err else ""))
        if err and variant == "readonly" and "read-only" in err:
            return rec.fail(case, "the call tried to write into a read-only argument: %s" % err)
        rec.ok(case, outcome=("ok" if err is None else "raised:" + err.split(":")[0]) + ":" + variant,
               nontrivial=(variant != "native"), calls=1)

    # arguments that are index structures, not element-wise data: only variants that keep
    # them valid (1-d, complete) are meaningful; a truncated or reshaped reverse-index array
    # is a different (invalid) input, not a different memory layout of the same input
    STRUCTURAL = {("htm.bincount(htmid2,htmrev2)", "r"), ("htm.bincount(htmid2,htmrev2,no minmax)", "r")} | set(STRUCTURAL_EXTRA)
    units = []
    for sname, (arrays, fn) in SPECS.items():
        for variant in VARIANTS:
            for target in list(arrays) + (["*"] if len(arrays) > 1 else []):
                if variant in ("0d", "2d", "2d-F") and any((sname, t) in STRUCTURAL for t in
                                                   (list(arrays) if target == "*" else [target])):
                    continue
                units.append((sname, target, variant))
    # ---------------------------------------------------------------- long arguments, the same call twice
    # work buffers kept between calls are sized by the input: above some length (harvested from the integer constants of
    # the code under test, plus 200000) a function may keep what it was given - which for a native contiguous float64
    # argument is the caller's own array - and overwrite it on the NEXT call of the same shape.  Every function is called
    # twice with different long arguments of one shape; all arguments of both calls must be as they were.
    from mc.longarr import harvested_sizes
    import esutil.htm.htm as _hh
    import esutil.stat.util as _su
    LONGS = sorted({200000} | {b + 1 for b in harvested_sizes([C, nu, _hh, _su, wcsutil], lo=20000, hi=3000000)})[:6]
    ctx.notes.append("long-arguments: lengths %r" % (LONGS,))
    mlong = htm.Matcher(6, np.array([10.0, 11.0]), np.array([20.0, 21.0]))
    wlong = wcsutil.WCS(dict(tan_header)) if "tan_header" in dir() else None
    LSPECS = {
        "Matcher.match": lambda a, b, r: mlong.match(a, b, r, maxmatch=1),
        "Matcher.match(scalar radius)": lambda a, b, r: mlong.match(a, b, 0.01, maxmatch=1),
        "htm.match": lambda a, b, r: hobj.match(a[:1000], b[:1000], a, b, 0.001, maxmatch=1),
        "coords.sphdist": lambda a, b, r: C.sphdist(a, b, b, r),
        "coords.eq2gal": lambda a, b, r: C.eq2gal(a, b),
        "coords.eq2sdss": lambda a, b, r: C.eq2sdss(a, b),
        "stat.histogram(weights)": lambda a, b, r: stat.histogram(a, weights=r, binsize=30.0),
        "stat.wmom": lambda a, b, r: stat.wmom(a, r, calcerr=True),
        "numpy_util.match": lambda a, b, r: nu.match(np.arange(a.size), np.arange(a.size)[::7]),
        "htm.lookup_id": lambda a, b, r: hobj.lookup_id(a, b),
    }

    def one_long2(case, rec):
        fname, n = case
        f = LSPECS[fname]

        def mk(k):
            i = np.arange(n, dtype="f8")
            return ((i * 0.618 + k) % 360.0, ((i * 0.37 + 3 * k) % 160.0) - 80.0, 0.001 + ((i + k) % 7) * 1e-4)
        first, second = mk(0), mk(1)
        keep = [a.copy() for a in first + second]
        try:
            f(*first)
            f(*second)
        except Exception as e:
            return rec.fail(case, "%s on %d elements raised %s: %s" % (fname, n, type(e).__name__, str(e)[:120]))
        for k, (a, k0) in enumerate(zip(first + second, keep)):
            if a.tobytes() != k0.tobytes():
                return rec.fail(case, "%s on %d elements, called twice: argument %d of the %s call was modified" % (fname, n, k % 3, "first" if k < 3 else "second"))
        rec.ok(case, outcome="long2:%s" % fname, nontrivial=True, calls=2)

    ctx.lattice("long-arguments-two-calls", [(fn_, n) for fn_ in LSPECS for n in LONGS], one_long2, bounds=dict(functions=sorted(LSPECS), lengths=LONGS))

    # ---------------------------------------------------------------- near-equal elements
    # A callee may treat two elements that agree to round-off as "the same value" and tidy them up (symmetrise a matrix,
    # merge duplicates, snap to a neighbour).  Whether that happens is a relation between TWO positions of the argument,
    # invisible to any sweep over dtypes/layouts with fixed well-separated values.  For every hand-registered call
    # specification, every native float64 argument, every pair of positions i<j of that argument and every offset k in
    # ULPS, element j is set to element i moved by k units in the last place (math.nextafter, nothing from esutil); the
    # target "x~y" does the same between two arguments of equal shape (y[i] = x[i] moved by k ulps, all i).  All arguments
    # are native contiguous float64 copies (the one layout np.asarray() hands back uncopied); everything is compared
    # bit for bit after the call as in no-modification.
    import math
    ULPS = [-3, -1, 1, 2]

    def ulp_shift(v, k):
        v = float(v)
        for _ in range(abs(k)):
            v = math.nextafter(v, math.inf if k > 0 else -math.inf)
        return v

    def _isf8(b):
        b = np.asarray(b)
        return b.dtype == np.dtype("f8") and b.dtype.isnative and b.size >= 1

    def one_near(case, rec):
        sname, target, k = case
        if "d" not in tmpd or tmpd.get("owner") is not rec:
            tmpd["d"] = rec.tmp
            tmpd["owner"] = rec
        arrays, fn = SPECS[sname]
        if "~" in target:
            src, dst = target.split("~")
            plans = [(src, dst, None, None)]
        else:
            n = np.asarray(arrays[target]).size
            plans = [(target, target, i, j) for i in range(n) for j in range(i + 1, n)]
        ncalls = 0
        for src, dst, i, j in plans:
            args = {kk: np.array(b, copy=True, order="C") for kk, b in arrays.items()}
            if i is None:
                flat = args[dst].reshape(-1)
                for p, v in enumerate(args[src].reshape(-1).tolist()):
                    flat[p] = ulp_shift(v, k)
            else:
                flat = args[dst].reshape(-1)
                flat[j] = ulp_shift(flat[i], k)
            snaps = {kk: snapshot(v) for kk, v in args.items()}
            vals = {kk: np.asarray(v).tolist() for kk, v in args.items()}
            err = None
            try:
                fn(**args)
            except Exception as e:
                err = "%s: %s" % (type(e).__name__, str(e)[:100])
            ncalls += 1
            for kk, v in args.items():
                if snapshot(v) != snaps[kk]:
                    return rec.fail(case, "argument %r was modified: %s; arguments before the call %r, argument %r after it %r%s" % (
                        kk, ("element %d = element %d %+d ulp" % (j, i, k)) if i is not None else ("%s = %s %+d ulp" % (dst, src, k)),
                        vals, kk, np.asarray(v).tolist(), "; the call raised " + err if err else ""))
        rec.ok(case, outcome="near:%+d" % k, nontrivial=True, calls=ncalls)

    near_units = []
    for sname in BASE_SPECS:
        if sname.startswith("wcs.sky2image") and ",find)" in sname:
            continue          # iterative inversion: ~100x the cost of the other calls, same entry conversion as nofind
        arrays = SPECS[sname][0]
        f8 = [kk for kk, b in arrays.items() if _isf8(b)]
        for kk in f8:
            if np.asarray(arrays[kk]).size >= 2:
                near_units.extend((sname, kk, k) for k in ULPS)
        for x in range(len(f8)):
            for y in range(x + 1, len(f8)):
                if np.asarray(arrays[f8[x]]).shape == np.asarray(arrays[f8[y]]).shape:
                    near_units.extend((sname, "%s~%s" % (f8[x], f8[y]), k) for k in ULPS)
    ctx.lattice("near-equal-elements", near_units, one_near, bounds=dict(specs=len(BASE_SPECS), ulps=ULPS,
                positions="every pair i<j of each float64 argument; every pair of equal-shape float64 arguments"))

    ctx.quiet_workers = True
    ctx.lattice("no-modification", units, one, bounds=dict(specs=len(SPECS), variants=VARIANTS))
    ctx.notes.append("call specifications: " + ", ".join(sorted(SPECS)))


# helpers used by the specs -------------------------------------------------

def _pyengine(stat, a, w):
    from esutil.stat import util as su
    old = su.have_chist
    su.have_chist = False
    try:
        return stat.histogram(a, weights=w, binsize=1.0, rev=True)
    finally:
        su.have_chist = old


def _binner(stat, a, y, w):
    b = stat.Binner(a, y=y, weights=w)
    b.dohist(nperbin=2)
    b.calc_stats()
    b2 = stat.Binner(a, y=y, weights=w)
    b2.dohist(binsize=1.0, rev=True)
    return b, b2


def _rec_write(recfile, fn, a, **kw):
    with recfile.Recfile(fn, mode="w", **kw) as r:
        r.write(a)


def _sfile_twice(sfile, fn, a, b, delim):
    with sfile.SFile(fn, "w", delim=delim) as sf:
        sf.write(a, header={"k": 1})
        sf.write(b)


def _sfile_append(sfile, fn, a, delim):
    sfile.write(fn, a, delim=delim)
    sfile.write(fn, a, append=True)


def _rec_bracket(recfile, fn, a):
    r = recfile.Recfile(fn, mode="w", delim=",", bracket_arrays=True)
    r.write(a)
    r.close()
