"""C18 - weighted moments, sigma clipping, interpolation, summary statistics and
cov/cor follow their definitions (E1, eight lattices).

Every part is a full product over small alphabets; the expected values come
from reference models written out below in plain python (``math.fsum`` floats
for the moment formulas, exact ``fractions.Fraction`` arithmetic wherever a
*decision* is involved: the half-weight rank of the weighted median, the
"strictly within nsig deviations" test of the clipping loop, the segment of a
query point).  esutil is never used to compute an expected value.
"""
import functools
import itertools
import math
import os
import sys
import random
from fractions import Fraction as Fr

import numpy as np

RULE = (
    "eight exhaustive lattices.  wmom-1d: x in V^L (V = 0,1,2.5,-1,10 + one seed-chosen generic value) "
    "x w in {1,2,0,1e6}^L (sum>0) x inputmean {None,1.5,0.0,0,-1.0,1-element arrays incl. zero} x container {f8,list,i8}; every case "
    "calls wmom with all four calcerr/sdev settings and (no inputmean) wmedian; non-trivial = weights not all "
    "equal or a mean supplied.  wmom-nd: every N-by-d matrix (N,d<=3) over {0,2.5,-1} (3x3: columns from a "
    "5-column pool, thorough: 27x27x5 columns) x (every 1-d weight "
    "vector over {1,2,0,1e6} + every N-by-d weight matrix whose columns come from a pool of 4) x inputmean "
    "{None,1.5,[d]-array}; non-trivial = d>=2 and columns (data or weights) differ.  wmedian-long: all "
    "permutations of 5 (6) distinct values and all 0/1 patterns x all weight tuples.  sigma-clip: base data "
    "sets (generic inliers, seed-chosen inliers, three dyadic sets whose mean/deviation are exact in binary "
    "so that a point lies EXACTLY on the nsig boundary) + every tuple of <=k outliers from {50,-30,4,1.6} x "
    "two orderings x weights {None,ones,ramp,alternating 1/2} x nsig x niter 0..10 x return flags; "
    "non-trivial = something is clipped, a point is exactly on the boundary, or the loop ends by the "
    "iteration limit.  interplin: every strictly increasing table of 2..5 (thorough: 2..8) nodes drawn from an 8-value "
    "grid x 4 value sets x every node, midpoint, 1-ulp neighbour of the ends, far outside point, as one "
    "array call and as scalar calls; non-trivial = all but the queries strictly inside at non-nodes.  "
    "get-stats: 1-d/2-d data x weights x wmom keywords x clipping keywords; cov-cor: every symmetric matrix "
    "with diagonal/off-diagonal alphabets for d<=3(4), 2-symbol off-diagonals for d<=6, seed-chosen A A^T+0.1 I; "
    "boxcar: x in {0,1,2.5,-1}^L x window 1..L+2.  Cases are distinct by construction (products of distinct "
    "symbols); distinct_nontrivial counts the cases flagged non-trivial by the rule of their part."
)
ASSUMPTIONS = [
    "tolerances (the statement gives none; DESIGN.md 3/C18: 1e-12 relative, 1e-11 for interpolation): weighted/clipped mean "
    "|got-ref| <= 1e-12*max|x|; deviation and error are recomputed by the reference ABOUT THE MEAN THAT WAS RETURNED "
    "(itself checked first) and compared to 1e-12 relative - a 1-ulp difference in the mean legitimately moves the "
    "calcerr error by up to 1e-11 relative when the weights span 1e6; a supplied mean must come back bit-identical",
    "interplin: |got - exact| <= 1e-11*max(|exact|, |v| at the nodes of the segment and of its two neighbours); the exact "
    "value is computed in rational arithmetic from the float inputs",
    "cov/cor: cor[i,j] vs cov[i,j]/sqrt(cov[i,i]cov[j,j]) and the round trip cor2cov(cov2cor(c), sqrt(diag c)) vs c: 1e-12 "
    "relative element-wise, no absolute floor; diagonal magnitudes bounded to 1e-6..1e6 (products of two diagonals "
    "never over/underflow)",
    "sigma_clip: the reference takes each keep/discard decision in exact rational arithmetic.  A decision is binding only "
    "when it is numerically unambiguous: either the point is farther than 1e-9 (relative, on the squares) from the "
    "boundary, or the current subset is 'binary-exact' (every sum, the mean, the deviation and nsig*deviation are exactly "
    "representable, so ANY float evaluation order gives the exact result and a point exactly on the boundary must be "
    "discarded).  Otherwise both outcomes are accepted (the reference branches; a step with more than 4 ambiguous "
    "points is treated as unconstrained and gets its own outcome class).  A step that would discard every "
    "remaining point is unconstrained, as in DESIGN.md (the reported subset must then still be a subset of the current "
    "one, and the returned statistics must still be those of the reported subset)",
    "the subset sigma_clip 'reports' is the get_indices result, or the 'indices' entry it stores in the caller's extra= dict "
    "when get_indices=False",
    "get_stats min/max are those of the whole input (per column), also when clipping is requested; get_stats(2-d, nsig=) "
    "may refuse with ValueError (sigma_clip documents 1-d only)",
    "boxcar_average is anchored but not mentioned in the statement; the oracle is its docstring written out: "
    "out[i] = (1/N) * sum(x[i:i+N]) with zeros beyond the end, len(out) == len(x); 1e-12*max|x|",
    "the weights of the wmom/wmedian lattices are integers (exact cumulative sums), so the weighted-median rank "
    "comparison 'cumulative weight >= half the total' is exact in floating point",
    "finite alphabets and length bounds as listed under bounds of each part; wmom-nd/get-stats 2-d use N,d <= 3 "
    "(the statement's cov matrices go to 6x6, covered; its N and k are unspecified)",
]

TOL = 1e-12
TOL_INTERP = 1e-11

V = (0.0, 1.0, 2.5, -1.0, 10.0)
W = (1.0, 2.0, 0.0, 1e6)
VI = (0, 1, -1, 10)
WI = (1, 2, 0, 1000000)
XA = (0.0, 2.5, -1.0)
# weight-column pools for N-by-d weights
WPOOL = {
    1: ((1.0,), (2.0,), (1e6,)),
    2: ((1.0, 1.0), (1.0, 2.0), (0.0, 1e6), (2.0, 0.0)),
    3: ((1.0, 1.0, 1.0), (1.0, 2.0, 0.0), (0.0, 1e6, 1.0), (2.0, 0.0, 0.0)),
}


# =========================================================================
# reference models (plain python)


def relclose(a, b, tol):
    a = float(a)
    b = float(b)
    return abs(a - b) <= tol * max(abs(a), abs(b))


def ref_wmean(xs, ws):
    return math.fsum(w * x for x, w in zip(xs, ws)) / math.fsum(ws)


def ref_about(xs, ws, mu):
    """(weighted deviation, calcerr error, default error) about mu"""
    wtot = math.fsum(ws)
    var = math.fsum(w * ((x - mu) * (x - mu)) for x, w in zip(xs, ws)) / wtot
    e2 = math.fsum((w * w) * ((x - mu) * (x - mu)) for x, w in zip(xs, ws))
    return math.sqrt(var), math.sqrt(e2) / wtot, 1.0 / math.sqrt(wtot)


def ref_wmedian(xs, ws):
    """smallest sorted value whose cumulative weight reaches half the total (exact)"""
    half = sum(Fr(w) for w in ws) / 2
    cum = Fr(0)
    for v, w in sorted(zip(xs, ws)):
        cum += Fr(w)
        if cum >= half:
            return v
    raise AssertionError("unreachable")


def check_moments(r, cols, wcols, im, calcerr, sdev, oned):
    """compare one wmom result with the definitions; returns a message or None.

    cols/wcols: list of d columns (python floats); im: None | float | list of d floats
    """
    nexp = 3 if sdev else 2
    if not isinstance(r, tuple) or len(r) != nexp:
        return "returned %r, expected a %d-tuple" % (r, nexp)
    d = len(cols)
    want = () if oned else (d,)
    names = ("mean", "err", "sdev")[:nexp]
    vals = []
    for nm, val in zip(names, r):
        shp = np.shape(val)
        if shp != want:
            # a supplied mean may come back as supplied (scalar, or the [ndim] array)
            if not (nm == "mean" and im is not None and shp in ((), (d,))):
                return "%s has shape %r, expected %r (value %r)" % (nm, shp, want, val)
        try:
            vals.append([float(v) for v in np.broadcast_to(np.asarray(val, dtype="f8"), (d,))])
        except Exception as e:
            return "%s=%r is not numeric: %s" % (nm, val, e)
    for j in range(d):
        xs, ws = cols[j], wcols[j]
        got = vals[0][j]
        if im is None:
            exp = ref_wmean(xs, ws)
            if not abs(got - exp) <= TOL * max(abs(x) for x in xs):
                return "column %d: mean %r, sum(w x)/sum(w) = %r" % (j, got, exp)
        else:
            exp = im[j] if isinstance(im, list) else im
            if got != exp:
                return "column %d: mean %r is not the supplied mean %r" % (j, got, exp)
        sd, ecalc, edef = ref_about(xs, ws, got)
        eexp = ecalc if calcerr else edef
        if not relclose(vals[1][j], eexp, TOL):
            return "column %d: error %r, definition (calcerr=%r) gives %r" % (j, vals[1][j], calcerr, eexp)
        if sdev and not relclose(vals[2][j], sd, TOL):
            return "column %d: weighted deviation %r, definition gives %r" % (j, vals[2][j], sd)
    return None


# ---- sigma clipping -------------------------------------------------------


def _pow2(n):
    return n & (n - 1) == 0


def _exact_sum(terms):
    """every term is a binary fraction and ANY float summation order of them is exact"""
    k = 0
    tot = Fr(0)
    for t in terms:
        if not _pow2(t.denominator):
            return False
        k = max(k, t.denominator.bit_length() - 1)
        tot += abs(t)
    return tot * (1 << k) < (1 << 53)


def _repr(fr):
    try:
        return Fr(float(fr)) == fr
    except OverflowError:
        return False


NEAR = Fr(1, 10 ** 9)
MAXAMB = 4


def clip_step(idx, X, Wt, nsig, near=NEAR):
    """one clipping decision on subset idx.  Returns (kept-for-sure, ambiguous, exact_boundary)"""
    xs = [X[i] for i in idx]
    ws = [Wt[i] for i in idx] if Wt is not None else [Fr(1)] * len(idx)
    wtot = sum(ws)
    m = sum(w * x for x, w in zip(xs, ws)) / wtot
    dev2 = [(x - m) ** 2 for x in xs]
    var = sum(w * q for q, w in zip(dev2, ws)) / wtot
    ns = Fr(nsig)
    b2 = ns * ns * var
    exact = (_exact_sum(xs) and _exact_sum(ws) and _exact_sum([w * x for x, w in zip(xs, ws)])
             and _repr(m) and _exact_sum(dev2) and _exact_sum([w * q for q, w in zip(dev2, ws)])
             and _repr(var))
    if exact:
        sf = math.sqrt(float(var))
        exact = Fr(sf) ** 2 == var and _repr(ns * Fr(sf))
    sure, amb, onb = [], [], False
    for i, q in zip(idx, dev2):
        if exact:
            if q < b2:
                sure.append(i)
            elif q == b2:
                onb = True
        else:
            if abs(q - b2) <= near * max(q, b2):
                amb.append(i)
            elif q < b2:
                sure.append(i)
    return sure, amb, onb


@functools.lru_cache(maxsize=64)
def clip_levels(data, weights, nsig, maxiter=10, near=NEAR):
    """levels[k] = set of states acceptable after k iterations.

    state = (kind, idx, nclip, exact_boundary_seen, ambiguity_seen);
    kind 'run' (loop still going), 'stop' (nothing changed: fixed point),
    'free' (a step would have discarded everything: unconstrained below idx)
    """
    X = [Fr(v) for v in data]
    Wt = [Fr(v) for v in weights] if weights is not None else None
    cur = {("run", tuple(range(len(data))), 0, False, False)}
    levels = [cur]
    for _ in range(maxiter):
        nxt = set()
        for st in cur:
            kind, idx, nclip, onb0, amb0 = st
            if kind != "run":
                nxt.add(st)
                continue
            sure, amb, onb = clip_step(idx, X, Wt, nsig, near)
            onb = onb or onb0
            if len(amb) > MAXAMB:
                nxt.add(("free-amb", idx, nclip, onb, True))
                continue
            for r in range(len(amb) + 1):
                for extra in itertools.combinations(amb, r):
                    keep = tuple(sorted(sure + list(extra)))
                    a = amb0 or bool(amb)
                    if not keep:
                        nxt.add(("free", idx, nclip, onb, a))
                    elif len(keep) == len(idx):
                        nxt.add(("stop", idx, nclip, onb, a))
                    else:
                        nxt.add(("run", keep, nclip + 1, onb, a))
        cur = nxt
        levels.append(cur)
    return levels


def subset_stats_msg(data, weights, ind, m, s, e):
    """are (m, s, e) the mean / deviation / error of exactly data[ind]?  message or None"""
    xs = [float(data[i]) for i in ind]
    scale = max(abs(x) for x in xs)
    if weights is None:
        ws = [1.0] * len(xs)
    else:
        ws = [float(weights[i]) for i in ind]
    mexp = ref_wmean(xs, ws)
    m = float(m)
    if not abs(m - mexp) <= TOL * scale:
        return "mean %r but the mean of the reported subset %r is %r" % (m, list(ind), mexp)
    sd, ecalc, _ = ref_about(xs, ws, m)
    if not relclose(s, sd, TOL):
        return "deviation %r but that of the reported subset %r is %r" % (float(s), list(ind), sd)
    if e is not None:
        eexp = sd / math.sqrt(len(xs)) if weights is None else ecalc
        if not relclose(e, eexp, TOL):
            return "error %r but that of the reported subset %r is %r" % (float(e), list(ind), eexp)
    return None


def match_level(states, ind):
    """the acceptable state that explains the reported subset, or None"""
    ind = tuple(ind)
    best = None
    for st in sorted(states):
        kind, idx = st[0], st[1]
        if kind in ("run", "stop") and idx == ind:
            return st
        if kind.startswith("free") and set(ind) <= set(idx) and len(ind) > 0:
            best = st
    return best


def clip_outcome(st, niter):
    kind, idx, nclip, onb, amb = st
    if kind == "free-amb":
        oc = "more-than-%d-ambiguous-points:unconstrained" % MAXAMB
    elif kind == "free":
        oc = "everything-would-be-clipped:unconstrained"
    elif kind == "stop":
        oc = "converged-after-%s" % ("no-clipping" if nclip == 0 else "clipping")
    else:
        oc = "iteration-limit-after-%s" % ("no-clipping" if nclip == 0 else "clipping")
    if onb:
        oc += "+point-exactly-on-boundary"
    if amb:
        oc += "+numerically-ambiguous-step"
    return oc


# ---- interpolation --------------------------------------------------------


def ref_interp(xt, vt, u):
    """exact piecewise-linear value with straight-line extension of the end segments"""
    X = [Fr(a) for a in xt]
    Vv = [Fr(a) for a in vt]
    U = Fr(u)
    n = len(X)
    if U < X[0]:
        i, region = 0, "below"
    elif U > X[-1]:
        i, region = n - 2, "above"
    else:
        i = max(j for j in range(n - 1) if X[j] <= U)
        region = "node" if U in X else "inside"
    E = Vv[i] + (U - X[i]) * (Vv[i + 1] - Vv[i]) / (X[i + 1] - X[i])
    scale = max([abs(E)] + [abs(Vv[j]) for j in range(max(0, i - 1), min(n, i + 3))])
    return float(E), float(scale), region


def ref_boxcar(x, N):
    n = len(x)
    return [math.fsum(x[i:i + N]) / N for i in range(n)]


# =========================================================================


def _wclass(w):
    nz = [v for v in w if v != 0]
    parts = []
    if len(set(w)) == 1:
        parts.append("equal")
    else:
        if len(nz) < len(w):
            parts.append("some-zero")
        if max(nz) / min(nz) >= 1e5:
            parts.append("wildly-unequal")
        if not parts:
            parts.append("unequal")
    return "w:" + "+".join(parts)


def _imlabel(im):
    if im is None:
        return "computed-mean"
    if isinstance(im, tuple):
        return "supplied-array-mean"
    return "supplied-scalar-mean"


def main(ctx):
    from esutil import stat

    rng = random.Random(18000 + ctx.seed)
    G = round(rng.uniform(-3.0, 7.0), 6)        # the generic representative x symbol
    while G in V:
        G = round(rng.uniform(-3.0, 7.0), 6)
    VG = V + (G,)
    ctx.notes.append("seed-chosen generic x symbol: %r" % G)

    # ------------------------------------------------------------------
    # part 1: wmom / wmedian on 1-d data
    def build1(cont, x, w):
        if cont == "list":
            return list(x), list(w)
        if cont == "i8":
            return np.array(x, dtype="i8"), np.array(w, dtype="i8")
        return np.array(x, dtype="f8"), np.array(w, dtype="f8")

    def im_arg(im):
        """case literal -> (argument for esutil, reference form)"""
        if im is None:
            return None, None
        if isinstance(im, tuple):            # ("arr", values)
            return np.array(im[1], dtype="f8"), [float(v) for v in im[1]]
        return im, float(im)

    def one_w1(case, rec):
        cont, x, w, im = case
        xa, wa = build1(cont, x, w)
        xs = [float(v) for v in x]
        ws = [float(v) for v in w]
        imarg, imref = im_arg(im)
        ncall = 0
        for calcerr in (False, True):
            for sdev in (False, True):
                kw = {}
                if im is not None:
                    kw["inputmean"] = imarg
                if calcerr:
                    kw["calcerr"] = True
                if sdev:
                    kw["sdev"] = True
                ncall += 1
                try:
                    r = stat.wmom(xa, wa, **kw)
                except Exception as e:
                    return rec.fail(case, "wmom(%s) raised %s: %s" % (sorted(kw), type(e).__name__, e))
                msg = check_moments(r, [xs], [ws], imref, calcerr, sdev, True)
                if msg:
                    return rec.fail(case, "wmom(calcerr=%r, sdev=%r): %s" % (calcerr, sdev, msg))
        oc = _wclass(w) + "|" + _imlabel(im)
        if im is None:
            ncall += 1
            try:
                med = stat.wmedian(xa, wa)
            except Exception as e:
                return rec.fail(case, "wmedian raised %s: %s" % (type(e).__name__, e))
            exp = ref_wmedian(xs, ws)
            if np.shape(med) != () or not (float(med) == exp):
                return rec.fail(case, "wmedian=%r, smallest value whose cumulative weight reaches half is %r"
                                % (med, exp))
            if exp != sorted(xs)[(len(xs) - 1) // 2]:
                oc += "|median-moved-by-weights"
        rec.ok(case, outcome=oc, nontrivial=bool(len(set(w)) > 1 or im is not None), calls=ncall)

    L1 = ctx.pick(3, 4)
    LC = ctx.pick(2, 3)          # other containers
    LR = ctx.pick(4, 5)          # reduced alphabets
    VR = (0.0, 2.5, -1.0)
    WR = (1.0, 0.0, 1e6)
    IMS = (None, 1.5, 0.0, 0, -1.0, ("arr", (1.5,)), ("arr", (0.0,)))
    units1 = []

    def add1(cont, fam, L, xal):
        # the unit fixes the first symbol (the first two for L >= 4: load balance)
        for pre in itertools.product(xal, repeat=1 if L < 4 else 2):
            units1.append((cont, fam, L, pre))

    for L in range(1, L1 + 1):
        add1("f8", "full", L, VG)
    for L in range(1, LC + 1):
        add1("list", "full", L, VG)
        add1("i8", "int", L, VI)
    add1("f8", "reduced", LR, VR)

    def expand1(u):
        cont, fam, L, pre = u
        xal, wal = {"full": (VG, W), "int": (VI, WI), "reduced": (VR, WR)}[fam]
        for rest in itertools.product(xal, repeat=L - len(pre)):
            x = pre + rest
            for w in itertools.product(wal, repeat=L):
                if sum(w) == 0:
                    continue
                for im in IMS:
                    yield (cont, x, w, im)

    # offset-dominated data (Julian dates, frequencies in Hz, negative offsets): |mean| / deviation up to 1e11.  The
    # reference takes the deviation about the returned mean, so a two-pass implementation agrees to rounding;
    # raw-moment formulas (<x^2> - <x>^2) lose everything here
    OFFS = (2459000.5, 1.4e9, -7.5e6, 1e15, 3.0e-3)
    SPREAD = (-0.01, 0.0, 0.01, 0.005, -0.0025)
    for off in OFFS:
        units1.append(("f8", "offset", 0, (off,)))

    _expand1_base = expand1

    def expand1(u):
        if u[1] != "offset":
            for c in _expand1_base(u):
                yield c
            return
        off = u[3][0]
        for L in (2, 3, 5):
            x = tuple(off + (abs(off) * 1e-9 if abs(off) > 1e12 else 1.0) * SPREAD[i] for i in range(L))
            for w in ((1.0,) * L, tuple([1.0, 2.0, 0.5, 1e6, 2.0][:L]), tuple([0.0, 1.0, 1.0, 2.0, 0.5][:L])):
                for im in (None, off):
                    yield ("f8", x, w, im)

    ctx.lattice("wmom-1d", units1, one_w1, expand=expand1,
                bounds=dict(max_len_full=L1, max_len_list_i8=LC, len_reduced=LR, x_alphabet=list(VG),
                            w_alphabet=list(W), x_reduced=list(VR), w_reduced=list(WR),
                            inputmean=[None, 1.5, 0.0, 0, -1.0, "array([1.5])", "array([0.0])"], calcerr=[False, True], sdev=[False, True],
                            containers=["f8", "list", "i8"]))

    # ------------------------------------------------------------------
    # part 2: wmom on N-by-d data
    def one_wn(case, rec):
        xcols, wspec, im = case
        d = len(xcols)
        N = len(xcols[0])
        arr = np.array(xcols, dtype="f8").T.copy()
        if wspec[0] == "1d":
            wa = np.array(wspec[1], dtype="f8")
            wcols = [[float(v) for v in wspec[1]]] * d
        else:
            wa = np.array(wspec[1], dtype="f8").T.copy()
            wcols = [[float(v) for v in c] for c in wspec[1]]
        cols = [[float(v) for v in c] for c in xcols]
        imarg, imref = im_arg(im)
        ncall = 0
        for calcerr in (False, True):
            for sdev in (False, True):
                kw = {}
                if im is not None:
                    kw["inputmean"] = imarg
                if calcerr:
                    kw["calcerr"] = True
                if sdev:
                    kw["sdev"] = True
                ncall += 1
                try:
                    r = stat.wmom(arr, wa, **kw)
                except Exception as e:
                    return rec.fail(case, "wmom(%s) on %dx%d data, %s weights raised %s: %s"
                                    % (sorted(kw), N, d, wspec[0], type(e).__name__, e))
                msg = check_moments(r, cols, wcols, imref, calcerr, sdev, False)
                if msg:
                    return rec.fail(case, "wmom(calcerr=%r, sdev=%r) on N-by-d data, %s weights: %s"
                                    % (calcerr, sdev, wspec[0], msg))
        differ = d >= 2 and (len(set(xcols)) > 1 or (wspec[0] == "nd" and len(set(wspec[1])) > 1))
        oc = "%s-weights|%s|%s" % (wspec[0], "columns-differ" if differ else "columns-identical", _imlabel(im))
        rec.ok(case, outcome=oc, nontrivial=bool(differ), calls=ncall)

    def colpool(N, reduced):
        if reduced:
            return [(0.0, 0.0, 0.0), (0.0, 2.5, -1.0), (2.5, 2.5, -1.0), (-1.0, 0.0, 2.5), (G, -1.0, 0.0)]
        return list(itertools.product(XA, repeat=N))

    def wspecs(N, d):
        out = []
        for w in itertools.product(W, repeat=N):
            if sum(w) > 0:
                out.append(("1d", w))
        for wc in itertools.product(WPOOL[N], repeat=d):
            out.append(("nd", wc))
        return out

    # 3x3 matrices: quick = 5-column pool for every column; thorough = all 27 columns for the
    # first two columns, the 5-column pool for the third (the columns are independent in the
    # definition; what a third full column could add is covered by the 3x2 / 2x3 full products)
    mode33 = ctx.pick("pool5^3", "27x27x5")
    unitsn = []
    for N in (1, 2, 3):
        for d in (1, 2, 3):
            red = (N == 3 and d == 3 and ctx.quick)
            for c0 in colpool(N, red):
                unitsn.append((N, d, c0, red))

    def expandn(u):
        N, d, c0, red = u
        ims = (None, 1.5, 0.0, ("arr", tuple(1.5 - j for j in range(d))), ("arr", (0.0,) * d))
        ws = wspecs(N, d)
        if N == 3 and d == 3 and not red:
            rests = itertools.product(colpool(3, False), colpool(3, True))
        else:
            rests = itertools.product(colpool(N, red), repeat=d - 1)
        for rest in rests:
            xcols = (c0,) + rest
            for wspec in ws:
                for im in ims:
                    yield (xcols, wspec, im)

    ctx.lattice("wmom-nd", unitsn, one_wn, expand=expandn,
                bounds=dict(N=[1, 2, 3], d=[1, 2, 3], x_alphabet=list(XA), columns_3x3=mode33,
                            w1d_alphabet=list(W), wnd_column_pool={str(k): [list(c) for c in v]
                                                                   for k, v in WPOOL.items()},
                            inputmean=[None, 1.5, 0.0, "array(1.5 - arange(d))", "zeros(d)"]))

    # ------------------------------------------------------------------
    # part 3: weighted median on longer arrays
    def one_med(case, rec):
        x, w = case
        try:
            med = stat.wmedian(np.array(x, dtype="f8"), np.array(w, dtype="f8"))
        except Exception as e:
            return rec.fail(case, "wmedian raised %s: %s" % (type(e).__name__, e))
        exp = ref_wmedian(x, w)
        if np.shape(med) != () or not (float(med) == exp):
            return rec.fail(case, "wmedian=%r, smallest value whose cumulative weight reaches half is %r" % (med, exp))
        plain = sorted(x)[(len(x) - 1) // 2]
        tot = sum(w)
        # exactly half of the weight at or below the answer: the 'reaches' (>=) boundary
        below = sum(wi for xi, wi in zip(x, w) if xi <= exp)
        oc = _wclass(w) + ("|median-moved-by-weights" if exp != plain else "|same-as-unweighted")
        if 2 * below == tot:
            oc += "|cumulative-weight-exactly-half"
        rec.ok(case, outcome=oc, nontrivial=bool(exp != plain or 2 * below == tot), calls=1)

    PV = (0.0, 1.0, 2.5, -1.0, 10.0, G)
    unitsm = [("perm", p, "W4") for p in itertools.permutations(PV[:5])]
    unitsm += [("perm", p, "W3") for p in ctx.pick([], list(itertools.permutations(PV)))]
    nb = ctx.pick(5, 6)
    unitsm += [("bits", tuple(float(b) for b in bits), "W4") for bits in itertools.product((0, 1), repeat=nb)]

    def expandm(u):
        _, x, wname = u
        wal = W if wname == "W4" else (1.0, 2.0, 0.0)
        for w in itertools.product(wal, repeat=len(x)):
            if sum(w) > 0:
                yield (x, w)

    ctx.lattice("wmedian-long", unitsm, one_med, expand=expandm,
                bounds=dict(permutations_of=[5] + ctx.pick([], [6]), pattern_len=nb, values=list(PV),
                            w_alphabet=list(W), w_alphabet_len6=[1.0, 2.0, 0.0]))

    # ------------------------------------------------------------------
    # part 4: sigma clipping
    def clip_args(cont, data, w):
        if cont == "list":
            return list(data), (None if w is None else list(w))
        if cont == "i8":
            return np.array(data, dtype="i8"), (None if w is None else np.array(w, dtype="f8"))
        return np.array(data, dtype="f8"), (None if w is None else np.array(w, dtype="f8"))

    _quiet_fd2 = []

    def one_clip(case, rec, near=NEAR, tag_passes=False):
        cont, data, w, nsig, niter, get_err, get_ind = case
        arr, wts = clip_args(cont, data, w)
        extra = {}
        try:
            r = stat.sigma_clip(arr, weights=wts, nsig=nsig, niter=niter, get_err=get_err,
                                get_indices=get_ind, extra=extra, silent=True)
        except Exception as e:
            return rec.fail(case, "sigma_clip raised %s: %s" % (type(e).__name__, e))
        nexp = 2 + int(get_err) + int(get_ind)
        if len(r) != nexp:
            return rec.fail(case, "sigma_clip returned %d values, expected %d" % (len(r), nexp))
        # the same call with the diagnostics left on (the default): whatever is reported must not change the result,
        # nor - in the warnings-as-errors pass - make the call raise
        if not _quiet_fd2:
            _quiet_fd2.append(os.dup2(os.open(os.devnull, os.O_WRONLY), 2))
        try:
            r2 = stat.sigma_clip(arr, weights=wts, nsig=nsig, niter=niter, get_err=get_err, get_indices=get_ind)
        except Exception as e:
            return rec.fail(case, "sigma_clip with the diagnostics on (silent left at its default) raised %s: %s" % (type(e).__name__, e))
        if len(r2) != len(r) or any(not np.array_equal(np.asarray(a), np.asarray(b), equal_nan=True) for a, b in zip(r, r2)):
            return rec.fail(case, "sigma_clip with silent left at its default returns %r, with silent=True %r" % (r2, r))
        m, s = r[0], r[1]
        e = r[2] if get_err else None
        ind = r[-1] if get_ind else extra.get("indices")
        try:
            levels = clip_levels(tuple(data), None if w is None else tuple(w), nsig, 10, near)
        except ZeroDivisionError:
            # some reachable subset has total weight zero: its weighted mean is undefined, the case is not constrained
            return rec.ok(case, outcome="subset-of-zero-total-weight:unconstrained", nontrivial=False, calls=1)
        states = levels[min(niter, len(levels) - 1)]
        if ind is None:
            # no subset reported at all: the statistics must be those of an acceptable subset
            for st in sorted(states):
                if not st[0].startswith("free") and subset_stats_msg(data, w, st[1], m, s, e) is None:
                    return rec.ok(case, outcome=clip_outcome(st, niter) + "|indices-not-reported",
                                  nontrivial=True, calls=1)
            if any(st[0].startswith("free") for st in states):
                return rec.ok(case, outcome="everything-would-be-clipped:unconstrained|indices-not-reported",
                              nontrivial=True, calls=1)
            return rec.fail(case, "statistics (%r, %r, %r) are those of no acceptable subset %r"
                            % (m, s, e, sorted(st[1] for st in states)))
        ind = [int(i) for i in np.asarray(ind).reshape(-1)]
        if len(set(ind)) != len(ind) or not ind or min(ind) < 0 or max(ind) >= len(data):
            return rec.fail(case, "reported indices %r are not a non-empty subset of range(%d)" % (ind, len(data)))
        msg = subset_stats_msg(data, w, ind, m, s, e)
        if msg:
            return rec.fail(case, "statistics are not those of the reported subset: " + msg)
        st = match_level(states, sorted(ind))
        if st is None:
            return rec.fail(case, "surviving subset %r after niter=%d, nsig=%r; literal iteration gives %r"
                            % (sorted(ind), niter, nsig, sorted((k[0], list(k[1])) for k in states)))
        oc = clip_outcome(st, niter)
        if tag_passes:
            oc += "|discarding-passes=%d" % st[2]
        rec.ok(case, outcome=oc,
               nontrivial=bool(st[2] > 0 or st[3] or st[0] != "stop"), calls=1)

    BASE_GENERIC = (1.0, 1.1, 0.9, 1.05, 0.95, 1.02)
    BASE_SEED = tuple(round(1.0 + 0.08 * rng.gauss(0, 1), 4) for _ in range(6))
    ctx.notes.append("seed-chosen inlier set for sigma_clip: %r" % (BASE_SEED,))
    # binary-exact sets: mean and deviation exactly representable
    EX1 = (-3.0, 3.0, -1.0, 1.0, 0.0)                                   # mean 0, dev 2: nsig 1.5 -> |x|=3 on boundary
    EX2 = (5.0, 11.0, 7.0, 9.0, 8.0)                                    # the same shifted by 8
    EX3 = (-4.0, 4.0, -2.0, 2.0, -2.0, 2.0, 0.0, 0.0, 0.0, 0.0, 0.0, 0.0)   # dev 2: nsig 2 and 1 on boundary
    OUT = (50.0, -30.0, 4.0, 1.6)
    KOUT = ctx.pick(2, 3)
    NSIG = ctx.pick((0.5, 1.0, 1.5, 2.0, 3.0, 4, 6.0),
                    (0.5, 0.75, 1.0, 1.25, 1.5, 2.0, 2.5, 3.0, 4, 5.0, 6.0))
    FLAGS = ctx.pick(((True, True), (False, False)),
                     ((True, True), (False, False), (True, False), (False, True)))

    def wkinds(n):
        out = [None, (1.0,) * n]
        if n > 1:
            out.append(tuple(0.5 + 1.5 * i / (n - 1) for i in range(n)))
            out.append(tuple(1.0 + (i % 2) for i in range(n)))
            # exact zeros: a zero-weight point inside the band is a surviving point like any other (it is reported
            # among the indices, it does not move the mean)
            out.append(tuple(0.0 if i == 1 else 1.0 for i in range(n)))
        if n > 2:
            out.append(tuple(float(i % 2) for i in range(n)))
        return out

    unitsc = []
    for base in (BASE_GENERIC, BASE_SEED, EX1, EX2, EX3):
        for k in range(KOUT + 1):
            for outs in itertools.product(OUT, repeat=k):
                unitsc.append(("f8", base + outs, "kinds"))
                unitsc.append(("f8", (base + outs)[::-1], "kinds"))
    # the same sets at other physical scales (fluxes of 1e-17, counts of 1e20): every threshold of the clipping is relative
    for scale_ in (2.0 ** -56, 2.0 ** 66, 2.0 ** -400):        # (squares must stay representable: not below 2^-500)
        unitsc.append(("f8", tuple(v * scale_ for v in EX1 + (50.0,)), "kinds"))
        unitsc.append(("f8", tuple(v * scale_ for v in BASE_GENERIC + (50.0, -30.0)), "kinds"))
    # explicit weighted binary-exact set: mean 0, weighted dev 1, nsig 2 puts +-2 on the boundary
    unitsc.append(("f8", (-2.0, 2.0, 0.0), ((1.0, 1.0, 6.0),)))
    unitsc.append(("f8", (0.0, -2.0, 2.0, 50.0), ((6.0, 1.0, 1.0, 1.0),)))
    # other containers
    unitsc.append(("list", BASE_GENERIC + (50.0,), "kinds"))
    unitsc.append(("list", EX1, "kinds"))
    unitsc.append(("i8", (-3, 3, -1, 1, 0), "kinds"))
    unitsc.append(("i8", (-3, 3, -1, 1, 0, 50), "kinds"))
    unitsc.append(("f8", (2.5,), "kinds"))
    unitsc.append(("f8", (2.5, 2.5, 2.5), "kinds"))

    def expandc(u):
        cont, data, wk = u
        ws = wkinds(len(data)) if wk == "kinds" else list(wk)
        for w in ws:
            for nsig in NSIG:
                for flags in FLAGS:
                    for niter in range(0, 11):
                        yield (cont, data, w, nsig, niter, flags[0], flags[1])

    ctx.lattice("sigma-clip", unitsc, one_clip, wstrict=True, expand=expandc,
                bounds=dict(bases=[list(BASE_GENERIC), list(BASE_SEED), list(EX1), list(EX2), list(EX3)],
                            outliers=list(OUT), max_outliers=KOUT, orderings=["as built", "reversed"],
                            weights=["None", "ones", "ramp 0.5..2", "alternating 1,2"], nsig=list(NSIG),
                            niter=list(range(11)), flags_get_err_get_indices=[list(f) for f in FLAGS]))

    # ------------------------------------------------------------------
    # part 4b: sigma clipping, windows that barely move between passes.  A gross outlier of relative weight 10^-k
    # (inverse-variance weight of a very noisy measurement) is discarded in one pass; that moves the clipping window by a
    # relative amount of about weight*D^2/(2*W) - every decade from "a lot" down to below rounding.  A second point of
    # small weight is placed relative to the old and the new upper edge of the window: inside both, in the sliver
    # between them (the next pass must still discard it), outside both.  The positions are computed here from exact
    # rational moments; the keep/discard decisions are the reference's (exact rationals, ambiguity band FINE on squares).
    FINE = Fr(1, 10 ** 13)

    def _edge(xs, ws, nsig):
        X = [Fr(v) for v in xs]
        Wt = [Fr(v) for v in ws]
        wt = sum(Wt)
        m = sum(a * b for a, b in zip(X, Wt)) / wt
        var = sum(b * (a - m) ** 2 for a, b in zip(X, Wt)) / wt
        return float(m) + nsig * math.sqrt(float(var))

    def sliver_data(core, D, wout, wmar, frac, nsig, sign):
        n = len(core)
        xm = nsig * 1.0
        for _ in range(12):
            xs_new = list(core) + [xm]
            ws_new = [1.0] * n + [wmar]
            t_new = _edge(xs_new, ws_new, nsig)
            t_old = _edge(xs_new + [D], ws_new + [wout], nsig)
            xm = (1.0 - frac) * t_new + frac * t_old
        data = tuple(sign * v for v in list(core) + [D, xm])
        return data, tuple([1.0] * n + [wout, wmar])

    SL_CORES = ((1.0, -1.0, 1.0, -1.0), (1.0, -1.0, 1.0, -1.0, 0.5, -0.5, 0.25, -0.25))
    SL_D = (10.0, 100.0, 10000.0)
    SL_K = (0, 3, 6, 8, 9, 10, 11, 12, 13, 14, 15, 16, 17, 18, 20)
    SL_WMAR = (1e-3, 1e-9, 1e-15)
    SL_FRAC = (-1.0, 0.5, 2.0)
    SL_NSIG = (2.5, 4)
    SL_NITER = ctx.pick((0, 1, 2, 3, 4, 10), tuple(range(11)))
    unitss = []
    for core in SL_CORES:
        for D in SL_D:
            for k in SL_K:
                for wmar in SL_WMAR:
                    for frac in SL_FRAC:
                        for nsig in SL_NSIG:
                            for sign in (1.0, -1.0):
                                data, w = sliver_data(core, D, 10.0 ** -k, wmar, frac, nsig, sign)
                                unitss.append((data, w, nsig))

    def expands(u):
        data, w, nsig = u
        for flags in FLAGS:
            for niter in SL_NITER:
                yield ("f8", data, w, nsig, niter, flags[0], flags[1])

    def one_clip_fine(case, rec):
        return one_clip(case, rec, near=FINE, tag_passes=True)

    ctx.lattice("sigma-clip-window-barely-moves", unitss, one_clip_fine, wstrict=True, expand=expands,
                bounds=dict(cores=[list(c) for c in SL_CORES], outlier_at=list(SL_D),
                            outlier_weight=["1e-%d" % k for k in SL_K], marginal_weight=list(SL_WMAR),
                            marginal_position_in_sliver_units=list(SL_FRAC), nsig=list(SL_NSIG), mirrored=[False, True],
                            niter=list(SL_NITER), flags_get_err_get_indices=[list(f) for f in FLAGS]))

    # ------------------------------------------------------------------
    # part 5: linear interpolation
    def one_interp(case, rec):
        cont, xt, vt, us, scalar = case
        if cont == "list":
            x, v = list(xt), list(vt)
        elif cont == "i8":
            x, v = np.array(xt, dtype="i8"), np.array(vt, dtype="i8")
        else:
            x, v = np.array(xt, dtype="f8"), np.array(vt, dtype="f8")
        if scalar:
            uarg = us[0]
        elif cont == "list":
            uarg = list(us)
        else:
            uarg = np.array(us, dtype="f8")
        try:
            got = stat.interplin(v, x, uarg)
        except Exception as e:
            return rec.fail(case, "interplin raised %s: %s" % (type(e).__name__, e))
        got = np.asarray(got, dtype="f8").reshape(-1)
        if got.size != len(us):
            return rec.fail(case, "interplin returned %d values for %d query points" % (got.size, len(us)))
        regions = set()
        for u, g in zip(us, got.tolist()):
            E, scale, region = ref_interp(xt, vt, u)
            regions.add(region)
            if not abs(g - E) <= TOL_INTERP * scale:
                return rec.fail(case, "u=%r (%s): interplin=%r, piecewise-linear/straight-line extension gives %r"
                                % (u, region, g, E))
        oc = ("scalar:" if scalar else "array:") + "+".join(sorted(regions))
        rec.ok(case, outcome=oc, nontrivial=bool(regions - {"inside"}), calls=1)

    GRID = (-2.0, -1.5, 0.0, 0.001, 1.0, 4.0, 4.5, 1000.0)
    NMAX = ctx.pick(5, 8)

    def valuesets(xt):
        return [tuple(a * a for a in xt), tuple(1.0 - a for a in xt),
                tuple(math.sin(a) for a in xt), tuple(float(i % 2) for i in range(len(xt)))]

    def queries(xt):
        us = list(xt)
        us += [(a + b) / 2 for a, b in zip(xt[:-1], xt[1:])]
        us += [float(np.nextafter(xt[0], -np.inf)), float(np.nextafter(xt[0], np.inf)),
               float(np.nextafter(xt[-1], np.inf)), float(np.nextafter(xt[-1], -np.inf)),
               xt[0] - 1.0, xt[0] - 1000.0, xt[-1] + 7.0, xt[-1] + 1e4]
        for a in xt[1:-1]:
            us += [float(np.nextafter(a, -np.inf)), float(np.nextafter(a, np.inf))]
        return tuple(dict.fromkeys(us))            # distinct, order kept

    unitsi = []
    for n in range(2, NMAX + 1):
        for xt in itertools.combinations(GRID, n):
            unitsi.append(("f8", xt))
            if n <= 3:
                unitsi.append(("list", xt))
            if all(float(a).is_integer() for a in xt):
                unitsi.append(("i8", tuple(int(a) for a in xt)))

    def expandi(u):
        cont, xt = u
        if cont == "i8":
            vsets = [tuple(a * a for a in xt), tuple(1 - a for a in xt), tuple(i % 2 for i in range(len(xt)))]
        else:
            vsets = valuesets(xt)
        vsets = list(dict.fromkeys(vsets))                 # e.g. x^2 == 0,1 pattern on (0,1)
        us = queries(tuple(float(a) for a in xt))
        for vt in vsets:
            yield (cont, xt, vt, us, False)
            yield (cont, xt, vt, us[::-1], False)
            for uq in us:
                if cont == "i8" and float(uq).is_integer():
                    yield (cont, xt, vt, (int(uq),), True)
                else:
                    yield (cont, xt, vt, (uq,), True)

    ctx.lattice("interplin", unitsi, one_interp, expand=expandi,
                bounds=dict(grid=list(GRID), table_sizes=list(range(2, NMAX + 1)),
                            values=["x^2", "1-x", "sin x", "0,1,0,1.."],
                            queries=["nodes", "midpoints", "1 ulp outside/inside both ends", "1 ulp either side of inner nodes",
                                     "x0-1", "x0-1000", "xn+7", "xn+1e4"], containers=["f8", "list", "i8"]))

    # tables that are evenly spaced up to a small displacement of some nodes, queried inside the slivers between the
    # nominal and the real node positions: a shortcut for "evenly spaced" tables that decides evenness with a
    # tolerance picks the neighbouring segment there
    DELTAS = (1e-12, 1e-9, 1e-7, 1e-6, 8e-6, 9.9e-6, 1e-4, 1e-3)
    unitsn = []
    for n, step, x0 in ((4, 1.0, 0.0), (6, 0.25, -3.0), (5, 1000.0, 1e6), (9, 1e-3, 2.0)):
        for j in range(0, n):
            for dl in DELTAS:
                for sg in (1.0, -1.0):
                    unitsn.append((n, step, x0, j, dl * sg))
    # long tables whose step grows slowly (every step within 1e-5 relative of the first)
    for n in (201, 2001):
        unitsn.append((n, 1.0, 0.0, "grow", 4e-9))

    def expand_near(u):
        n, step, x0, j, dl = u
        if j == "grow":
            xt = tuple(float(v) for v in np.cumsum(np.r_[x0, step * (1.0 + dl * np.arange(n - 1))]))
            nominal = [x0 + step * k for k in (n // 2, n - 2, n - 1)]
            real = [xt[n // 2], xt[n - 2], xt[n - 1]]
        else:
            xs = [x0 + step * k for k in range(n)]
            xs[j] = xs[j] + dl * step
            xt = tuple(xs)
            nominal, real = [x0 + step * j], [xs[j]]
        us = []
        for p, q in zip(nominal, real):
            us += [p, q, (p + q) / 2, q + (q - p), p - (q - p), float(np.nextafter(q, -np.inf)), float(np.nextafter(q, np.inf))]
        us = tuple(u_ for u_ in dict.fromkeys(us))
        for vt in (tuple(float(i % 2) * 1000.0 for i in range(len(xt))), tuple(float((i * i) % 7) for i in range(len(xt)))):
            yield ("f8", xt, vt, us, False)
            for uq in us:
                yield ("f8", xt, vt, (uq,), True)

    ctx.lattice("interplin-almost-even-tables", unitsn, one_interp, expand=expand_near,
                bounds=dict(displacements_relative_to_step=list(DELTAS), tables=["4 x 1.0", "6 x 0.25", "5 x 1000 at 1e6", "9 x 1e-3", "201/2001 nodes, step growing by 4e-9 per node"],
                            queries=["nominal node", "real node", "between", "beyond", "1 ulp either side"]))

    # unevenly spaced tables that LOOK regular to a cheap test: first step == last step == mean step (interior uneven),
    # first == second step, all steps equal but one, symmetric step patterns - every node, mid-point and 1/4 point queried
    LOOKS_EVEN = [(0.0, 1.0, 1.5, 3.5, 4.0, 5.0), (2.0, 4.0, 5.0, 6.0, 7.0, 8.0, 14.0, 16.0), (0.0, 1.0, 1.25, 2.75, 3.0, 4.0), (-3.0, -2.0, -1.9, -0.1, 0.0, 1.0),
                  (0.0, 1.0, 2.0, 2.5, 4.0), (0.0, 0.5, 2.0, 3.0, 4.0), (0.0, 1.0, 2.0, 3.0, 3.5, 5.0, 6.0), (10.0, 20.0, 25.0, 45.0, 50.0, 60.0), (0.0, 2.0, 3.0, 4.0),
                  (0.0, 1.0, 3.0, 4.0), (0.0, 1.0, 1.0 + 2 ** -20, 3.0, 4.0)]

    def expand_looks(xt):
        us = []
        for a, b in zip(xt[:-1], xt[1:]):
            us += [a, a + 0.25 * (b - a), 0.5 * (a + b), a + 0.9 * (b - a)]
        us += [xt[-1], xt[0] - 0.5, xt[-1] + 0.5]
        us = tuple(dict.fromkeys(us))
        for vt in (tuple(float((i * i) % 5) * 3.0 for i in range(len(xt))), tuple(float(i % 2) * 100.0 for i in range(len(xt))), tuple(a * a for a in xt)):
            yield ("f8", xt, vt, us, False)
            for uq in us:
                yield ("f8", xt, vt, (uq,), True)

    ctx.lattice("interplin-tables-that-look-even", LOOKS_EVEN, one_interp, expand=expand_looks, bounds=dict(tables=[list(t) for t in LOOKS_EVEN]))

    # ------------------------------------------------------------------
    # part 6: get_stats
    def getf(res, key, shape, case, rec):
        if not isinstance(res, dict) or key not in res:
            rec.fail(case, "get_stats result %r has no %r" % (res, key))
            return None
        val = res[key]
        if np.shape(val) != shape:
            rec.fail(case, "get_stats %s=%r has shape %r, expected %r" % (key, val, np.shape(val), shape))
            return None
        return [float(t) for t in np.asarray(val, dtype="f8").reshape(-1)]

    _quiet_fd1 = []

    def one_gs(case, rec):
        kind = case[0]
        if kind == "1d":
            _, x, w, kwt = case
            kw = dict(kwt)
            arr = np.array(x, dtype="f8") if len(x) > 1 or kw.get("_arr", True) else x[0]
            kw.pop("_arr", None)
            cols = [[float(v) for v in x]]
            wcols = None if w is None else [[float(v) for v in w]]
            shape = ()
            warg = None if w is None else np.array(w, dtype="f8")
        else:
            _, xcols, wspec, kwt = case
            kw = dict(kwt)
            arr = np.array(xcols, dtype="f8").T.copy()
            cols = [[float(v) for v in c] for c in xcols]
            shape = (len(xcols),)
            if wspec is None:
                wcols, warg = None, None
            elif wspec[0] == "1d":
                warg = np.array(wspec[1], dtype="f8")
                wcols = [[float(v) for v in wspec[1]]] * len(xcols)
            else:
                warg = np.array(wspec[1], dtype="f8").T.copy()
                wcols = [[float(v) for v in c] for c in wspec[1]]
        clip = "nsig" in kw or "niter" in kw
        try:
            if clip:
                # silent= is forwarded to sigma_clip: keeps "nsig too small" off stderr
                res = stat.get_stats(arr, weights=warg, silent=True, **kw)
            else:
                res = stat.get_stats(arr, weights=warg, **kw)
        except ValueError as e:
            if clip and kind == "2d":
                return rec.ok(case, outcome="2-d+clipping:refused-ValueError", nontrivial=False, calls=1)
            return rec.fail(case, "get_stats raised ValueError: %s" % e)
        except Exception as e:
            return rec.fail(case, "get_stats(%s) raised %s: %s" % (sorted(kw), type(e).__name__, e))
        # the same call with the table printed (doprint=True, the error column scaled by nsigma_print): printing is an
        # observer, the dictionary returned must be the same
        if not _quiet_fd1:
            sys.stdout.flush()
            _quiet_fd1.append(os.dup(1))
        try:
            sys.stdout.flush()
            dn = os.open(os.devnull, os.O_WRONLY)
            os.dup2(dn, 1)
            os.close(dn)
            try:
                for npr in (2.0, 1.0):
                    kw2 = dict(kw)
                    kw2.update(doprint=True, nsigma_print=npr)
                    if clip:
                        kw2["silent"] = True
                    resp = stat.get_stats(arr, weights=warg, **kw2)
                    for key in ("min", "max", "mean", "std", "err"):
                        if key in res and not np.array_equal(np.asarray(res[key]), np.asarray(resp[key]), equal_nan=True):
                            return rec.fail(case, "get_stats(doprint=True, nsigma_print=%r) returns %s=%r, without printing %r" % (npr, key, resp[key], res[key]))
            finally:
                sys.stdout.flush()
                os.dup2(_quiet_fd1[0], 1)
        except Exception as e:
            return rec.fail(case, "get_stats(doprint=True) raised %s: %s" % (type(e).__name__, e))
        got = {}
        for key in ("min", "max", "mean", "std", "err"):
            shp = shape
            if key == "mean" and "inputmean" in kw and kind == "2d" and np.shape(res.get("mean")) == ():
                shp = ()
            got[key] = getf(res, key, shp, case, rec)
            if got[key] is None:
                return
            if len(got[key]) == 1 and len(cols) > 1:
                got[key] = got[key] * len(cols)
        for j, xs in enumerate(cols):
            if got["min"][j] != min(xs) or got["max"][j] != max(xs):
                return rec.fail(case, "column %d: min/max = %r/%r, data have %r/%r"
                                % (j, got["min"][j], got["max"][j], min(xs), max(xs)))
            m, s, e = got["mean"][j], got["std"][j], got["err"][j]
            if clip:
                wj = None if wcols is None else tuple(wcols[j])
                levels = clip_levels(tuple(xs), wj, kw.get("nsig", 4))
                states = levels[min(kw.get("niter", 4), len(levels) - 1)]
                hit = None
                for st in sorted(states):
                    if not st[0].startswith("free") and subset_stats_msg(xs, wj, st[1], m, s, e) is None:
                        hit = st
                        break
                if hit is None:
                    if any(st[0].startswith("free") for st in states):
                        return rec.ok(case, outcome="clip:everything-would-be-clipped:unconstrained",
                                      nontrivial=True, calls=1)
                    return rec.fail(case, "mean/std/err = %r/%r/%r are not those of the clipped subset %r"
                                    % (m, s, e, sorted(list(st[1]) for st in states)))
                oc = "clip%s:" % ("+weights" if wj is not None else "") + clip_outcome(hit, 0)
                nontriv = hit[2] > 0
            elif wcols is not None:
                ws = wcols[j]
                if "inputmean" in kw:
                    if m != kw["inputmean"]:
                        return rec.fail(case, "column %d: mean %r is not the supplied mean %r" % (j, m, kw["inputmean"]))
                else:
                    exp = ref_wmean(xs, ws)
                    if not abs(m - exp) <= TOL * max(abs(v) for v in xs):
                        return rec.fail(case, "column %d: mean %r, sum(w x)/sum(w) = %r" % (j, m, exp))
                sd, ecalc, edef = ref_about(xs, ws, m)
                eexp = ecalc if kw.get("calcerr", True) else edef
                if not relclose(s, sd, TOL):
                    return rec.fail(case, "column %d: std %r, weighted deviation is %r" % (j, s, sd))
                if not relclose(e, eexp, TOL):
                    return rec.fail(case, "column %d: err %r, wmom error (calcerr=%r) is %r"
                                    % (j, e, kw.get("calcerr", True), eexp))
                oc = "%s:weights-%s%s" % (kind, "1d" if kind == "1d" else wspec[0],
                                          "".join("+" + k for k in sorted(kw)))
                nontriv = len(set(ws)) > 1 or bool(kw)
            else:
                n = len(xs)
                exp = math.fsum(xs) / n
                if not abs(m - exp) <= TOL * max(abs(v) for v in xs):
                    return rec.fail(case, "column %d: mean %r, data mean %r" % (j, m, exp))
                sd = math.sqrt(math.fsum((v - m) * (v - m) for v in xs) / n)
                if not relclose(s, sd, TOL) or not relclose(e, sd / math.sqrt(n), TOL):
                    return rec.fail(case, "column %d: std/err = %r/%r, definitions give %r/%r"
                                    % (j, s, e, sd, sd / math.sqrt(n)))
                oc = "%s:unweighted" % kind
                nontriv = len(set(xs)) > 1
        rec.ok(case, outcome=oc, nontrivial=bool(nontriv), calls=1)

    LG = ctx.pick(3, 4)
    KWW = ((), (("calcerr", False),), (("inputmean", 1.5),), (("calcerr", False), ("inputmean", 1.5)))
    unitsg = []
    for L in range(1, LG + 1):
        for x0 in VG:
            unitsg.append(("1d", L, x0))
    SH2 = ((1, 2), (2, 2), (3, 2)) + ctx.pick((), ((2, 3), (3, 3)))
    for N, d in SH2:
        for c0 in colpool(N, N == 3 and d == 3):
            unitsg.append(("2d", N, d, c0))
    clipsets = []
    for base in (BASE_GENERIC, EX1, EX3):
        for k in range(0, 2):
            for outs in itertools.product(OUT, repeat=k):
                clipsets.append(base + outs)
    for data in clipsets:
        unitsg.append(("clip", data))
    unitsg.append(("clip2d",))
    CLIPKW = ((("nsig", 1.5),), (("nsig", 3.0),), (("nsig", 2.0),), (("niter", 0),), (("niter", 2),),
              (("nsig", 2.0), ("niter", 1)), (("nsig", 1.5), ("niter", 10)), (("nsig", 0.5),))

    def expandg(u):
        if u[0] == "1d":
            _, L, x0 = u
            for rest in itertools.product(VG, repeat=L - 1):
                x = (x0,) + rest
                yield ("1d", x, None, ())
                if L == 1:
                    yield ("1d", x, None, (("_arr", False),))       # python scalar input
                for w in itertools.product(W, repeat=L):
                    if sum(w) > 0:
                        for kwt in KWW:
                            yield ("1d", x, w, kwt)
        elif u[0] == "2d":
            _, N, d, c0 = u
            red = N == 3 and d == 3
            for rest in itertools.product(colpool(N, red), repeat=d - 1):
                xcols = (c0,) + rest
                yield ("2d", xcols, None, ())
                for wspec in wspecs(N, d):
                    for kwt in KWW[:3]:
                        yield ("2d", xcols, wspec, kwt)
        elif u[0] == "clip":
            data = u[1]
            for w in (None, tuple(0.5 + 1.5 * i / (len(data) - 1) for i in range(len(data)))):
                for kwt in CLIPKW:
                    yield ("1d", data, w, kwt)
        else:
            yield ("2d", ((0.0, 2.5, -1.0, 50.0), (1.0, 1.0, 2.0, 3.0)), None, (("nsig", 1.5),))

    ctx.lattice("get-stats", unitsg, one_gs, wstrict=True, expand=expandg,
                bounds=dict(max_len_1d=LG, x_alphabet=list(VG), w_alphabet=list(W),
                            shapes_2d=[list(t) for t in SH2],
                            wmom_keywords=[dict(k) for k in KWW], clip_keywords=[dict(k) for k in CLIPKW],
                            clip_data_sets=len(clipsets)))

    # ------------------------------------------------------------------
    # part 7: covariance <-> correlation
    def one_cov(case, rec):
        diag, off = case
        d = len(diag)
        cov = np.zeros((d, d))
        k = 0
        for i in range(d):
            cov[i, i] = diag[i]
            for j in range(i + 1, d):
                cov[i, j] = cov[j, i] = off[k]
                k += 1
        try:
            cor = stat.cov2cor(cov)
            back = stat.cor2cov(cor, np.sqrt(np.diag(cov)))
        except Exception as e:
            return rec.fail(case, "cov2cor/cor2cov raised %s: %s" % (type(e).__name__, e))
        if np.shape(cor) != (d, d) or np.shape(back) != (d, d):
            return rec.fail(case, "shapes %r, %r; expected (%d,%d)" % (np.shape(cor), np.shape(back), d, d))
        big = False
        for i in range(d):
            for j in range(d):
                c = float(cov[i, j])
                exp = c / math.sqrt(float(cov[i, i]) * float(cov[j, j]))
                if not relclose(cor[i, j], exp, TOL):
                    return rec.fail(case, "cor[%d,%d]=%r, cov/sqrt(cii cjj) = %r" % (i, j, float(cor[i, j]), exp))
                if i == j and not relclose(cor[i, i], 1.0, TOL):
                    return rec.fail(case, "cor[%d,%d]=%r is not 1" % (i, i, float(cor[i, i])))
                if not relclose(back[i, j], c, TOL):
                    return rec.fail(case, "round trip [%d,%d]: %r, covariance %r" % (i, j, float(back[i, j]), c))
                if i != j and abs(exp) > 1:
                    big = True
        # the same matrix in other dtypes / memory layouts (integer-valued matrices also as int64)
        ncall = 2
        if d <= 3:
            forms = [(">f8", cov.astype(">f8"), TOL), ("F-order", np.asfortranarray(cov), TOL),
                     ("f4", cov.astype("f4"), 1e-6)]
            if np.all(cov == np.round(cov)) and np.abs(cov).max() < 2 ** 40:
                forms.append(("i8", cov.astype("i8"), TOL))
            for fname, cv, tol in forms:
                try:
                    corv = np.asarray(stat.cov2cor(cv), dtype="f8")
                    backv = np.asarray(stat.cor2cov(corv, np.sqrt(np.diag(cov))), dtype="f8")
                except Exception as e:
                    return rec.fail(case, "cov2cor/cor2cov on the %s form raised %s: %s" % (fname, type(e).__name__, e))
                ncall += 2
                for i in range(d):
                    for j in range(d):
                        c = float(np.asarray(cv, dtype="f8")[i][j])
                        exp = c / math.sqrt(float(np.asarray(cv, dtype="f8")[i][i]) * float(np.asarray(cv, dtype="f8")[j][j]))
                        if not relclose(corv[i, j], exp, tol):
                            return rec.fail(case, "%s form: cor[%d,%d]=%r, cov/sqrt(cii cjj) = %r" % (fname, i, j, float(corv[i, j]), exp))
                        if not relclose(backv[i, j], c, tol):
                            return rec.fail(case, "%s form: round trip [%d,%d]: %r, covariance %r" % (fname, i, j, float(backv[i, j]), c))
        oc = "d=%d|%s|%s" % (d, "equal-variances" if len(set(diag)) == 1 else "unequal-variances",
                             "not-positive-definite(|cor|>1)" if big else
                             ("diagonal" if not any(off) else "correlated"))
        rec.ok(case, outcome=oc, nontrivial=bool(d > 1 and any(off)), calls=ncall)

    DIAG = (1.0, 0.25, 4.0, 1e6, 1e-6, 9.0)
    OFF = (0.0, -0.5, 0.3, 2.0, -1.0)
    DFULL = ctx.pick(3, 4)
    unitsv = []
    for d in range(1, DFULL + 1):
        dal = DIAG if d <= 3 else DIAG[:3]
        oal = OFF if d <= 3 else OFF[:3]
        for diag in itertools.product(dal, repeat=d):
            unitsv.append(("full", diag, oal))
    DIAGV = {4: [(1.0, 0.25, 4.0, 1e6), (1e-6, 1.0, 1.0, 4.0)],
             5: [(1.0, 0.25, 4.0, 1e6, 1e-6), (2.0,) * 5],
             6: [(1.0, 0.25, 4.0, 1e6, 1e-6, 9.0), (0.5,) * 6]}
    for d in range(DFULL + 1, 7):
        for diag in DIAGV[d]:
            noff = d * (d - 1) // 2
            nfree = min(noff, ctx.pick(8, 15))
            # split on the first two off-diagonals for load balance
            for o0 in itertools.product((-0.5, 0.3), repeat=2):
                unitsv.append(("two", diag, o0, nfree))
    for d in range(1, 7):
        for t in range(3):
            A = [[rng.gauss(0, 1) for _ in range(d)] for _ in range(d)]
            diag = tuple(math.fsum(A[i][k] * A[i][k] for k in range(d)) + 0.1 for i in range(d))
            off = tuple(math.fsum(A[i][k] * A[j][k] for k in range(d))
                        for i in range(d) for j in range(i + 1, d))
            unitsv.append(("given", diag, off))

    def expandv(u):
        if u[0] == "full":
            _, diag, oal = u
            d = len(diag)
            for off in itertools.product(oal, repeat=d * (d - 1) // 2):
                yield (diag, off)
        elif u[0] == "two":
            _, diag, o0, nfree = u
            d = len(diag)
            noff = d * (d - 1) // 2
            for bits in itertools.product((-0.5, 0.3), repeat=nfree - 2):
                head = o0 + bits
                # off-diagonals beyond the enumerated ones repeat the pattern
                yield (diag, tuple(head[i % nfree] for i in range(noff)))
        else:
            yield (u[1], u[2])

    ctx.lattice("cov-cor", unitsv, one_cov, expand=expandv,
                bounds=dict(full_product_up_to_d=DFULL, diag_alphabet=list(DIAG), offdiag_alphabet=list(OFF),
                            two_symbol_offdiag=[-0.5, 0.3], two_symbol_free_entries=ctx.pick(8, 15),
                            max_d=6, seeded_AAT_per_d=3))

    # ------------------------------------------------------------------
    # part 8: boxcar average
    def one_box(case, rec):
        x, N = case
        try:
            got = stat.boxcar_average(np.array(x, dtype="f8"), N)
        except Exception as e:
            return rec.fail(case, "boxcar_average raised %s: %s" % (type(e).__name__, e))
        exp = ref_boxcar(list(x), N)
        got = np.asarray(got, dtype="f8")
        if got.shape != (len(x),):
            return rec.fail(case, "boxcar_average returned shape %r for %d data" % (got.shape, len(x)))
        scale = max(abs(v) for v in x)
        for i, (g, e) in enumerate(zip(got.tolist(), exp)):
            if not abs(g - e) <= TOL * scale:
                return rec.fail(case, "out[%d]=%r, mean of window x[%d:%d] (zero padded) is %r" % (i, g, i, i + N, e))
        oc = "window=1" if N == 1 else ("window>len" if N > len(x) else "window<=len")
        rec.ok(case, outcome=oc, nontrivial=bool(N > 1 and len(set(x)) > 1), calls=1)

    BX = (0.0, 1.0, 2.5, -1.0)
    LB = ctx.pick(4, 6)
    unitsb = [(L, x0) for L in range(1, LB + 1) for x0 in BX]

    def expandb(u):
        L, x0 = u
        for rest in itertools.product(BX, repeat=L - 1):
            for N in range(1, L + 3):
                yield ((x0,) + rest, N)

    ctx.lattice("boxcar", unitsb, one_box, expand=expandb,
                bounds=dict(max_len=LB, alphabet=list(BX), window="1..len+2"))

    # ------------------------------------------------------------ call sequences
    # sequences of calls of the statistics functions in one process, the same arrays passed repeatedly
    # (mc/worlds.py call_sequences): memoised weights/means, results that are views of a shared scratch array,
    # option values remembered from an earlier call
    from mc.worlds import call_sequences
    import esutil.stat.util as _su

    def seq_pool():
        return dict(x=np.array([0.0, 1.0, 2.5, -1.0, 10.0, 2.5]), w=np.array([1.0, 2.0, 0.5, 1.0, 0.25, 2.0]),
                    x2=np.array([[0.0, 1.0], [2.5, -1.0], [10.0, 2.5]]), w3=np.array([1.0, 2.0, 0.5]),
                    tx=np.array([1.0, 2.0, 2.5, 3.0, 7.0]), tv=np.array([2.0, 4.0, 5.0, 6.0, 14.5]),
                    tx2=np.array([1.0, 1.5, 4.0, 6.0, 7.0]),      # same size and end points as tx, other interior

                    cov=np.array([[4.0, 1.0], [1.0, 9.0]]))

    SEQ_CALLS = [("wmom", "x", "w", None, False), ("wmom", "x", "w", 0.0, True), ("wmom", "x", "w", 1.5, True),
                 ("wmom", "x2", "w3", None, True), ("wmedian", "x", "w"), ("sigma_clip", "x", None, 1.5),
                 ("sigma_clip", "x", "w", 1.0), ("interplin", 2.2, "tx"), ("interplin", 9.0, "tx"), ("interplin", 2.2, "tx2"), ("interplin", 5.0, "tx2"), ("get_stats", "x", None),
                 ("get_stats", "x", "w"), ("cov2cor",), ("boxcar", 2)]

    def _vals(r):
        if isinstance(r, dict):
            return [np.asarray(r[k]) for k in sorted(r)]
        if isinstance(r, (tuple, list)):
            out = []
            for v in r:
                out += _vals(v) if isinstance(v, (dict, tuple, list)) else [np.asarray(v)]
            return out
        return [np.asarray(r)]

    def seq_run(c, pool):
        if c[0] == "wmom":
            return _vals(stat.wmom(pool[c[1]], pool[c[2]], inputmean=c[3], calcerr=c[4], sdev=True))
        if c[0] == "wmedian":
            return _vals(stat.wmedian(pool[c[1]], pool[c[2]]))
        if c[0] == "sigma_clip":
            return _vals(stat.sigma_clip(pool[c[1]], weights=None if c[2] is None else pool[c[2]], nsig=c[3], silent=True,
                                         get_err=True, get_indices=True))
        if c[0] == "interplin":
            return _vals(stat.interplin(pool["tv"], pool[c[2]], np.array([c[1], 1.5])))
        if c[0] == "get_stats":
            return _vals(stat.get_stats(pool[c[1]], weights=None if c[2] is None else pool[c[2]]))
        if c[0] == "cov2cor":
            return _vals(stat.cov2cor(pool["cov"]))
        return _vals(stat.boxcar_average(pool["x"], c[1]))

    def seq_mut(m, pool):
        pool[m[0]][:] = pool[m[0]][::-1].copy()

    call_sequences(ctx, "call-sequences", seq_pool, SEQ_CALLS, seq_run, lambda: [_su], depth=ctx.pick(3, 3),
                   mutations=[("x",), ("w",)], mutate=seq_mut, nodedup_depth=3)

    # ------------------------------------------------ long query arrays through interplin (mc/longarr.py)
    from mc.longarr import tiled_elementwise, PERIOD, marks
    TX = np.array([0.0, 1.0, 2.5, 3.0, 7.0, 7.5])
    TV = np.array([1.0, -2.0, 0.5, 0.5, 10.0, -4.0])

    def u_base():
        u = np.linspace(-1.0, 8.5, PERIOD)
        u[:6] = TX
        return (u,)

    def x_base():
        return (np.cumsum(np.r_[0.0, 0.5 + (np.arange(PERIOD - 1) % 7) * 0.25]),)

    ispecs = {"interplin(long u)": (u_base, (lambda u: stat.interplin(TV, TX, u))),
              # a long TABLE: node j of the tiled table is not periodic, so only the query at the nodes themselves is used:
              # interpolating a table at its own nodes returns the node values
              }
    tiled_elementwise(ctx, "long-arrays", ispecs, marks(ctx), harvest=([__import__("esutil.stat.util", fromlist=["x"])], []))

    # ------------------------------------------------------------ many distinct tables / data sets, then each again
    from mc.worlds import revisit
    revisit(ctx, "revisit-after-many-distinct-calls", {
        "interplin(44 tables)": (lambda: None, [("table", k) for k in range(44)],
                                 lambda o, c: [np.asarray(stat.interplin(np.arange(5.0) * (c[1] + 1), np.array([0.0, 1.0, 2.5, 3.0, 7.0]) + 0.1 * c[1], np.array([0.5, 2.7, 6.0, 9.0]) + 0.1 * c[1]))]),
        "sigma_clip(44 data sets)": (lambda: None, [("clip", k) for k in range(44)],
                                     lambda o, c: [np.asarray(v) for v in stat.sigma_clip(np.array([1.0, 1.1, 0.9, 1.05, 0.95, 50.0 + c[1], 1.02]) * (1 + 0.01 * c[1]), nsig=2.0, get_indices=True, silent=True)]),
        "wmom(44 data sets)": (lambda: None, [("wmom", k) for k in range(44)],
                               lambda o, c: [np.asarray(v) for v in stat.wmom(np.array([1.0, 2.0, 4.0, 8.0]) + c[1], np.array([1.0, 2.0, 0.5, 1.0 + c[1]]), calcerr=True, sdev=True)]),
    })
