"""C14 - per-bin statistics and equal-occupancy bins equal direct computation (E1 + E2)."""
import itertools
import math
import random

import numpy as np

RULE = (
    "part 'stats': full product of every data tuple of length <= L (3 quick, 4 thorough) over the 9-value C05 "
    "alphabet (f8; and over 5 integers as i8) x {no weights, weights cyclic over {1,2,.5} at "
    "two shifts} x {no second variable, second variable} (shift 2 with a second variable only among the "
    "secondary entries) x binning {binsize .1,.3,.5,1,2.5 | "
    "nbin 1,2,3,5} x min {None,-1,0,.5,1} x max {None,1,2,3.7} x entry {Binner.dohist(rev=True), "
    "histogram(more=True), histogram(weights=)}; the secondary entries (dohist without rev, "
    "dohist(calc_stats=False)+calc_stats(), histogram(weights=,more=True)), the pure-python "
    "histogram engine and seed-chosen generic weights / second variable on every tuple of "
    "length <= L-1.  part 'nperbin': every tuple of length <= LN (4 quick, 5 thorough) over a 6-value alphabet x "
    "nperbin 1..len+1 x mergelast x 3 limit settings x {plain, weights, second variable, both} "
    "x entry {Binner, histogram(more=True), histogram(weights=), histogram(rev=True)} (both "
    "histogram engines for length < LN).  part "
    "'two-symbol-long': every 2-symbol pattern of length 8/12 through both modes.  part "
    "'reuse' (E2): all sequences of <= 3 dohist/calc_stats calls on ONE Binner object.  "
    "non-trivial = the case has a bin with >= 2 members, an empty bin, a datum that is not "
    "counted, (nperbin) a tie, a short/merged last bin or a datum outside the limits, "
    "(reuse) every distinct object state reached (fingerprint of the whole dictionary and attributes)."
)
ASSUMPTIONS = [
    "reference bin membership: floor((x-min)/binsize) in float64 exactly as C05 states it, nbin = int((max-min)/binsize)+1, "
    "binsize = (max-min)/nbin; data outside [min,max] or with an invalid bin number are not members of any bin",
    "reference statistics are computed in plain python with math.fsum from the members' values: mean, population "
    "standard deviation (ddof=0), median (mean of the two middle values for even counts), err = std/sqrt(n) for n>=2; "
    "weights: sum w, sum(w x)/sum w, sqrt(sum(w (x-wmean)^2)/sum w), for n>=2 1/sqrt(sum w) and "
    "sqrt(sum(w^2 (x-wmean)^2))/sum w (the two formulas of the histogram docstring)",
    "tolerance |a-b| <= 1e-12*max(1,|a|,|b|) for every floating statistic and bin edge (from DESIGN.md, not from the "
    "property text); counts, reverse indices, equal-occupancy low/high and sentinels are compared exactly",
    "sentinel of an empty bin: -9999 for every mean/std/err/median entry (also weighted and second-variable ones), 0 for whist",
    "the error entries (err, werr, werr2 and their y versions) of single-member bins are NOT checked: the statement "
    "restricts them to bins with at least two members (esutil stores the mean there)",
    "edges: low = min + i*binsize, high = min + (i+1)*binsize, center = min + (i+.5)*binsize where min is the min= "
    "argument or the smallest datum",
    "equal-occupancy bins: which of several tied data goes to which side of a bin boundary is not prescribed; the check "
    "demands that the reverse-index slices partition the original indices of the data within the limits and that the "
    "sorted values of slice i equal the i-th run of the sorted data; second-variable and weight statistics are then "
    "computed from the members named by the (validated) slice",
    "weights are strictly positive; data are finite (no nan/inf); arrays longer than the length bound are covered only "
    "by the 2-symbol pattern family",
]

V = [0.0, 0.5, 1.0, 1.5, 2.0, 3.7, -1.0, 0.1, 0.30000000000000004]
VI = [0, 1, 2, -1, 3]
VN = [0.0, 0.5, 1.0, 2.0, 3.5, -1.0]
W = [1.0, 2.0, 0.5]
Y = [10.0, -3.0, 4.0]
BINNING = [("binsize", 0.5), ("binsize", 1.0), ("binsize", 0.3), ("binsize", 2.5),
           ("binsize", 0.1), ("nbin", 1), ("nbin", 2), ("nbin", 3), ("nbin", 5)]
MINS = [None, -1.0, 0.0, 0.5, 1.0]
MAXS = [None, 1.0, 2.0, 3.7]
NLIMITS = [(None, None), (0.0, 2.0), (0.5, None)]
SENT = -9999.0
TOL = 1e-12

STAT_KEYS = ("mean", "std", "median", "err")
WSTAT_KEYS = ("mean", "std", "err", "err2")


def close(a, b):
    a = float(a)
    b = float(b)
    if a == b:
        return True
    return abs(a - b) <= TOL * max(1.0, abs(a), abs(b))


def wcyc(n, s):
    return tuple(W[(i + s) % 3] for i in range(n))


def ycyc(n):
    return tuple(Y[i % 3] * (i + 1) for i in range(n))


# ----------------------------------------------------------------------------
# reference model (plain python floats == IEEE doubles)


def ref_members(x, bkind, bval, mn, mx):
    """bin membership for binsize/nbin binning; None when no datum is within the limits"""
    xmin = min(x) if mn is None else mn
    xmax = max(x) if mx is None else mx
    inlim = [xmin <= v <= xmax for v in x]
    if not any(inlim):
        return None
    if bkind == "nbin":
        nb = bval
        bs = float(xmax - xmin) / nb
    else:
        bs = bval
        nb = int((xmax - xmin) / bs) + 1
    order = sorted(range(len(x)), key=lambda j: x[j])  # stable
    members = [[] for _ in range(nb)]
    ncounted = 0
    for j in order:
        if not inlim[j] or bs == 0:
            continue  # bs == 0: (x-min)/0 is nan or inf, never a valid bin number
        q = (x[j] - xmin) / bs
        if not math.isfinite(q):
            continue
        b = math.floor(q)
        if 0 <= b < nb:
            members[b].append(j)
            ncounted += 1
    return dict(xmin=xmin, bs=bs, nb=nb, members=members, ncounted=ncounted,
                ninlim=sum(inlim))


def ref_nper(x, nper, mergelast, mn, mx):
    """equal-occupancy runs of the stable sort (original indices); None when nothing is within the limits"""
    order = sorted(range(len(x)), key=lambda j: x[j])
    sel = [j for j in order if (mn is None or x[j] >= mn) and (mx is None or x[j] <= mx)]
    if not sel:
        return None
    chunks = [sel[k:k + nper] for k in range(0, len(sel), nper)]
    short = len(chunks[-1]) != nper
    merged = False
    if mergelast and short and len(chunks) >= 2:
        last = chunks.pop()
        chunks[-1] = chunks[-1] + last
        merged = True
    return dict(chunks=chunks, short=short, merged=merged, sel=sel)


def ref_stats(vals):
    n = len(vals)
    mean = math.fsum(vals) / n
    std = math.sqrt(math.fsum((v - mean) ** 2 for v in vals) / n)
    s = sorted(vals)
    med = s[n // 2] if n % 2 else 0.5 * (s[n // 2 - 1] + s[n // 2])
    err = std / math.sqrt(n) if n >= 2 else None
    return dict(mean=mean, std=std, median=med, err=err)


def ref_wstats(vals, wts):
    n = len(vals)
    sw = math.fsum(wts)
    wmean = math.fsum(w * v for w, v in zip(wts, vals)) / sw
    wstd = math.sqrt(math.fsum(w * (v - wmean) ** 2 for w, v in zip(wts, vals)) / sw)
    if n >= 2:
        werr = 1.0 / math.sqrt(sw)
        werr2 = math.sqrt(math.fsum(w * w * (v - wmean) ** 2 for w, v in zip(wts, vals))) / sw
    else:
        werr = werr2 = None
    return dict(mean=wmean, std=wstd, err=werr, err2=werr2)


def expected_entries(p, members, x, y, w):
    """{key: [expected value per bin]}; None = not claimed by the property"""
    nb = len(members)
    exp = {}
    vars_ = [(p, x)]
    if y is not None:
        vars_.append(("y", y))
    for pref, _ in vars_:
        for k in STAT_KEYS:
            exp[pref + k] = [SENT] * nb
        if w is not None:
            for k in WSTAT_KEYS:
                exp["w" + pref + k] = [SENT] * nb
    if w is not None:
        exp["whist"] = [0.0] * nb
    for i, m in enumerate(members):
        if not m:
            continue
        wm = None if w is None else [w[j] for j in m]
        if wm is not None:
            exp["whist"][i] = math.fsum(wm)
        for pref, arr in vars_:
            vals = [arr[j] for j in m]
            st = ref_stats(vals)
            for k in STAT_KEYS:
                exp[pref + k][i] = st[k]
            if wm is not None:
                ws = ref_wstats(vals, wm)
                for k in WSTAT_KEYS:
                    exp["w" + pref + k][i] = ws[k]
    return exp


def compare_entries(b, exp, members, scale=None):
    """first mismatch between the result dictionary and the expected per-bin entries, or None.  ``scale`` (largest
    |value| of the data, x and y) adds the rounding of ONE datum to the tolerance of every statistic: a mean or a
    deviation of data 2459000.5 + k*1e-7 cannot be better than ulp(2459000.5) whatever the algorithm"""
    nb = len(members)
    slack = 0.0 if scale is None else 16.0 * float(np.spacing(float(scale)))
    # fixed order: plain statistics first, then the weighted ones
    for key in sorted(exp, key=lambda k: (k.startswith("w"), k)):
        if key not in b:
            return "result has no entry %r (keys %r)" % (key, sorted(b.keys()))
        got = np.asarray(b[key])
        if got.shape != (nb,):
            return "entry %r has shape %r, expected (%d,)" % (key, got.shape, nb)
        for i in range(nb):
            e = exp[key][i]
            if e is None:
                continue
            g = float(got[i])
            n = len(members[i])
            if n == 0:
                if g != e:
                    return "empty bin: %s[%d]=%r, documented sentinel %r" % (key, i, g, e)
            elif not close(g, e) and not abs(g - e) <= slack:
                return "%s of a %s bin: %s[%d]=%r, computed directly from the members %r: %r" % (
                    key, "single-member" if n == 1 else "multi-member", key, i, g, members[i], e)
    return None


def rev_slices(rev, nb):
    """list of member lists from the reverse indices, or an error string"""
    rev = np.asarray(rev)
    if rev.ndim != 1 or rev.size < nb + 1:
        return "rev too short for %d bins: %r" % (nb, rev.tolist())
    out = []
    prev = nb + 1
    for i in range(nb):
        lo, hi = int(rev[i]), int(rev[i + 1])
        if not (nb + 1 <= lo <= hi <= rev.size) or lo < prev:
            return "rev offsets out of range/order at bin %d: rev=%r" % (i, rev.tolist())
        prev = hi
        out.append([int(v) for v in rev[lo:hi]])
    return out


def occupancy_class(members, nuncounted):
    s = set()
    for m in members:
        s.add("empty" if not m else ("single" if len(m) == 1 else "multi"))
    oc = "+".join(k for k in ("multi", "single", "empty") if k in s) or "nobins"
    if nuncounted:
        oc += "+uncounted"
    return oc


def verify_binned(b, x, y, w, ref, level):
    """level: 'hist' (counts only), 'edges' (counts, edges), 'full' (everything).  -> error or None"""
    p = "x" if y is not None else ""
    nb = ref["nb"]
    members = ref["members"]
    if "hist" not in b:
        return "result has no 'hist'"
    h = np.asarray(b["hist"])
    counts = [len(m) for m in members]
    if h.shape != (nb,) or h.tolist() != counts:
        return "hist=%r expected %r" % (h.tolist(), counts)
    if level == "hist":
        return None
    for key, off in (("low", 0.0), ("high", 1.0), ("center", 0.5)):
        if p + key not in b:
            return "result has no entry %r (keys %r)" % (p + key, sorted(b.keys()))
        got = np.asarray(b[p + key])
        if got.shape != (nb,):
            return "entry %r has shape %r, expected (%d,)" % (p + key, got.shape, nb)
        for i in range(nb):
            e = ref["xmin"] + (i + off) * ref["bs"]
            if not close(got[i], e):
                return "bin edge %s[%d]=%r, expected min+(i+%s)*binsize=%r" % (p + key, i, float(got[i]), off, e)
    if level == "edges":
        return None
    scale = max([abs(float(v)) for v in x] + ([abs(float(v)) for v in y] if y is not None else []))
    msg = compare_entries(b, expected_entries(p, members, x, y, w), members, scale)
    if msg:
        return msg
    if "rev" not in b:
        return "result has no 'rev'"
    sl = rev_slices(b["rev"], nb)
    if isinstance(sl, str):
        return sl
    for i in range(nb):
        if sorted(sl[i]) != sorted(members[i]):
            return "bin %d: rev slice %r, members %r" % (i, sl[i], members[i])
    return None


def verify_nper(hist, rev, b, x, y, w, ref, level):
    """hist/rev: the returned arrays; b: result dictionary or None.  level 'rev' | 'lowhigh' | 'full'"""
    chunks = ref["chunks"]
    nb = len(chunks)
    h = np.asarray(hist)
    counts = [len(c) for c in chunks]
    if h.shape != (nb,) or h.tolist() != counts:
        return "nperbin hist=%r expected %r" % (h.tolist(), counts)
    sl = rev_slices(rev, nb)
    if isinstance(sl, str):
        return "nperbin " + sl
    flat = [j for s in sl for j in s]
    if sorted(flat) != sorted(ref["sel"]):
        return "nperbin reverse indices %r are not a partition of the original indices within the limits %r" % (
            sl, sorted(ref["sel"]))
    for i in range(nb):
        got = sorted(x[j] for j in sl[i])
        want = [x[j] for j in chunks[i]]
        if got != want:
            return "nperbin bin %d holds values %r, the consecutive sorted data are %r" % (i, got, want)
    if level == "rev":
        return None
    for key, pos in (("low", 0), ("high", -1)):
        if key not in b:
            return "nperbin result has no entry %r (keys %r)" % (key, sorted(b.keys()))
        got = np.asarray(b[key])
        if got.shape != (nb,):
            return "nperbin entry %r has shape %r, expected (%d,)" % (key, got.shape, nb)
        for i in range(nb):
            e = x[chunks[i][pos]]
            if float(got[i]) != e:
                return "nperbin %s[%d]=%r, %s member is %r" % (
                    key, i, float(got[i]), "smallest" if pos == 0 else "largest", e)
    if level == "lowhigh":
        return None
    p = "x" if y is not None else ""
    scale = max([abs(float(v)) for v in x] + ([abs(float(v)) for v in y] if y is not None else []))
    msg = compare_entries(b, expected_entries(p, sl, x, y, w), sl, scale)
    if msg:
        return "nperbin " + msg
    return None


# ----------------------------------------------------------------------------


def main(ctx):
    from esutil import stat
    from esutil.stat import util as su

    rng = random.Random(1000 + ctx.seed)
    GW = [round(rng.uniform(0.2, 5.0), 3) for _ in range(12)]
    GY = [round(rng.uniform(-20.0, 20.0), 3) for _ in range(12)]
    ctx.notes.append("generic weights (seed %d): %r; generic second variable: %r" % (ctx.seed, GW, GY))

    def layout(a, lay):
        """the same values in another memory layout (applied to x, weights and y alike)"""
        if lay == "strided":
            big = np.full(a.size * 3 + 1, 55.5, dtype=a.dtype)
            big[1::3] = a
            return big[1::3]
        if lay == "neg":
            big = np.full(a.size * 2, 55.5, dtype=a.dtype)
            big[::2] = a[::-1]
            return big[::2][::-1]
        if lay == "field":
            r = np.zeros(a.size, dtype=[("pad", "i2"), ("x", a.dtype), ("tail", "S3")])
            r["x"] = a
            return r["x"]
        if lay == "col":
            m = np.full((a.size, 3), 55.5, dtype=a.dtype)
            m[:, 1] = a
            return m[:, 1]
        if lay == "swapped":
            return a.astype(a.dtype.newbyteorder("S"))
        if lay == "f4":
            return a.astype("f4")
        if lay == "list":
            return a.tolist()
        raise ValueError(lay)

    def arrays(dt, data, w, y):
        base, _, lay = dt.partition(":")
        arr = np.array(data, dtype=base)
        warr = None if w is None else np.array(w, dtype="f8")
        yarr = None if y is None else np.array(y, dtype="f8")
        x = arr.astype("f8").tolist()
        if lay:
            arr = layout(arr, lay)
            warr = None if warr is None else layout(warr, lay)
            yarr = None if yarr is None else layout(yarr, lay)
        return arr, warr, yarr, x

    # ------------------------------------------------------------ part: stats
    def run_entry(entry, arr, warr, yarr, kw):
        """-> (result dict, level, ncalls)"""
        if entry == "binner":
            b = stat.Binner(arr, y=yarr, weights=warr)
            b.dohist(rev=True, **kw)
            return b, "full", 1
        if entry == "binner-norev":
            b = stat.Binner(arr, y=yarr, weights=warr)
            b.dohist(**kw)
            return b, ("full" if (warr is not None or yarr is not None) else "edges"), 1
        if entry == "binner-split":
            b = stat.Binner(arr, y=yarr, weights=warr)
            b.dohist(rev=True, calc_stats=False, **kw)
            b.calc_stats()
            return b, "full", 2
        if entry == "hist-more":
            return stat.histogram(arr, weights=warr, more=True, **kw), "full", 1
        if entry == "hist-weights":
            return stat.histogram(arr, weights=warr, **kw), "full", 1
        raise RuntimeError("unknown entry %r" % (entry,))

    def one(case, rec):
        dt, data, w, y, bkind, bval, mn, mx, entry, eng = case
        arr, warr, yarr, x = arrays(dt, data, w, y)
        ref = ref_members(x, bkind, bval, mn, mx)
        kw = {bkind: bval, "min": mn, "max": mx}
        su.have_chist = eng
        try:
            b, level, ncall = run_entry(entry, arr, warr, yarr, kw)
        except ValueError as e:
            if ref is None:
                return rec.ok(case, outcome="no-data-in-limits:ValueError", nontrivial=True, calls=1)
            return rec.fail(case, "unexpected ValueError: %s" % (e,))
        except Exception as e:  # never expected
            return rec.fail(case, "raised %s: %s" % (type(e).__name__, e))
        finally:
            su.have_chist = True
        if ref is None:
            return rec.fail(case, "no datum within [min,max] but no error was raised")
        if not isinstance(b, dict):
            return rec.fail(case, "result is not a dictionary: %r" % (type(b).__name__,))
        msg = verify_binned(b, x, y, w, ref, level)
        if msg:
            return rec.fail(case, msg)
        oc = occupancy_class(ref["members"], len(x) - ref["ncounted"])
        nontrivial = any(len(m) != 1 for m in ref["members"]) or ref["ncounted"] < len(x)
        rec.ok(case, outcome="%s:%s" % (level, oc), nontrivial=nontrivial, calls=ncall)

    L = ctx.pick(3, 4)
    LI = 3
    PRIMARY = (
        (None, False, ("binner", "hist-more")),
        (0, False, ("binner", "hist-weights")),
        (1, False, ("binner", "hist-weights")),
        (None, True, ("binner",)),
        (0, True, ("binner",)),
    )

    def variants(n, full):
        """(w, y, entry, engine) combinations for a data tuple of length n"""
        out = []
        for ws, ys, entries in PRIMARY:
            w = None if ws is None else wcyc(n, ws)
            y = ycyc(n) if ys else None
            for e in entries:
                out.append((w, y, e, True))
        if full:
            gw = tuple(GW[:n])
            gy = tuple(GY[:n])
            for ws, ys, entries in PRIMARY:
                w = None if ws is None else wcyc(n, ws)
                y = ycyc(n) if ys else None
                for e in entries:
                    out.append((w, y, e, False))  # pure python engine
            out += [
                (None, None, "binner-norev", True),
                (None, None, "binner-split", True),
                (wcyc(n, 0), None, "binner-norev", True),
                (wcyc(n, 1), ycyc(n), "binner-split", True),
                (wcyc(n, 1), ycyc(n), "binner-norev", True),
                (None, ycyc(n), "binner-norev", True),
                (wcyc(n, 0), None, "hist-more", True),
                (gw, None, "hist-weights", True),
                (gw, gy, "binner", True),
                (None, gy, "binner", True),
            ]
        return out

    units = []
    for (bkind, bval) in BINNING:
        for mn in MINS:
            for mx in MAXS:
                if mn is not None and mx is not None and mx < mn:
                    continue
                for n in range(1, L + 1):
                    if n >= 4:
                        for v0 in V:
                            units.append(("f8", n, bkind, bval, mn, mx, v0))
                    else:
                        units.append(("f8", n, bkind, bval, mn, mx, None))
                for n in range(1, LI + 1):
                    units.append(("i8", n, bkind, bval, mn, mx, None))

    def expand(u):
        dt, n, bkind, bval, mn, mx, v0 = u
        alpha = V if dt == "f8" else VI
        if dt == "f8":
            var = variants(n, n <= L - 1)
        else:
            var = [(None, None, "hist-more", True), (wcyc(n, 0), None, "hist-weights", True),
                   (wcyc(n, 1), ycyc(n), "binner", True)]
        if v0 is None:
            it = itertools.product(alpha, repeat=n)
        else:
            it = ((v0,) + t for t in itertools.product(alpha, repeat=n - 1))
        for data in it:
            for (w, y, entry, eng) in var:
                yield (dt, data, w, y, bkind, bval, mn, mx, entry, eng)

    ctx.lattice("stats", units, one, expand=expand,
                bounds=dict(max_len_f8=L, max_len_i8=LI, alphabet=V, int_alphabet=VI,
                            binning=BINNING, mins=MINS, maxs=MAXS, weights=W, second=Y,
                            secondary_entries_max_len=L - 1))

    # memory layouts of x, weights and y (same values; the reference sees the values only)
    C14_LAYOUTS = ["f8:strided", "f8:neg", "f8:field", "f8:col", "f8:swapped", "f8:list"]
    LDATA = [(0.0, 0.5, 1.0, 1.5, 2.0, 3.7, 1.0, 3.0), (3.0, 1.0, 2.0, 2.0), (1.0,)]
    lunits = [(lay, bk, bv) for lay in C14_LAYOUTS for (bk, bv) in BINNING]

    def expand_lay(u):
        lay, bkind, bval = u
        for data in LDATA:
            n = len(data)
            for mn, mx in ((None, None), (0.5, None), (None, 2.0)):
                for (w, y, entry, eng) in ((None, None, "hist-more", True), (wcyc(n, 1), None, "hist-weights", True),
                                           (wcyc(n, 1), ycyc(n), "binner", True), (wcyc(n, 0), ycyc(n), "binner", False),
                                           (None, ycyc(n), "binner-split", True)):
                    yield (lay, data, w, y, bkind, bval, mn, mx, entry, eng)

    ctx.lattice("input-layouts", lunits, one, expand=expand_lay, bounds=dict(layouts=C14_LAYOUTS, data=[list(d) for d in LDATA]))

    # weights (and the second variable) in other physical units: the weighted statistics are scale-free in the
    # weights, so the same weight pattern is used scaled far down and far up (inverse variances of 1e-12 are
    # ordinary); an absolute threshold on a weight sum breaks exactly here
    WSCALES = [1e-12, 1e-20, 1e-300, 1e12, 1e150]
    sunits = [(sc, bk, bv) for sc in WSCALES for (bk, bv) in BINNING]

    def expand_scale(u):
        sc, bkind, bval = u
        for data in LDATA:
            n = len(data)
            for ws in (0, 1):
                w = tuple(v * sc for v in wcyc(n, ws))
                for mn, mx in ((None, None), (0.5, None)):
                    for (y, entry, eng) in ((None, "hist-weights", True), (ycyc(n), "binner", True), (ycyc(n), "binner", False)):
                        yield ("f8", data, w, y, bkind, bval, mn, mx, entry, eng)

    ctx.lattice("weight-scales", sunits, one, expand=expand_scale, bounds=dict(scales=WSCALES, data=[list(d) for d in LDATA]))

    # ---------------------------------------------------------- part: special data
    # (a) data dominated by a large offset (Julian dates 2459000.5 + k*1e-7, 1e9 + k*1e-3): members of a bin that are
    #     distinct but equal to 1e-13 relative - a tie test with a relative tolerance takes them for equal;
    # (b) statistics that hit the documented "empty bin" sentinel -9999 exactly: members -10000.5 and -9997.5 (mean
    #     -9999), a single member -9999, second-variable and weighted means of -9999: emptiness is a matter of the
    #     reverse indices, never of a value.
    SPECIAL = [
        ("jd-1e-7", tuple(2459000.5 + k * 1e-7 for k in (0, 1, 2, 5, 3, 4)), ("binsize", 1.0), None, None),
        ("jd-1e-7-two-bins", tuple(2459000.5 + k * 1e-7 for k in (0, 1, 2)) + tuple(2459002.25 + k * 3e-7 for k in (1, 0, 2)), ("binsize", 1.0), None, None),
        ("1e9+1e-3", tuple(1e9 + k * 1e-3 for k in (3, 1, 2, 0)), ("nbin", 1), None, None),
        ("-1e6-1e-6", tuple(-1e6 - k * 1e-6 for k in (0, 1, 2, 3, 4)), ("nbin", 2), None, None),
        ("mean-is-sentinel", (-10000.5, -9997.5, -9980.0, -9979.0), ("binsize", 10.0), -10005.0, None),
        ("member-is-sentinel", (-9999.0, -9990.0, -9989.5), ("binsize", 5.0), -10000.0, None),
        ("all-sentinel", (-9999.0, -9999.0, -9999.0, 2.0), ("nbin", 3), None, None),
        ("median-is-sentinel", (-10001.0, -9999.0, -9998.0, 5.0), ("nbin", 2), None, None),
    ]
    SPECIAL_Y = {"plain": None, "y-sentinel": lambda n: tuple([-9999.0] * n), "y-mean-sentinel": lambda n: tuple((-10000.5, -9997.5)[i % 2] for i in range(n)),
                 "y-jd": lambda n: tuple(2459000.5 + i * 1e-7 for i in range(n))}
    SPECIAL_W = {"none": None, "ones": lambda n: tuple([1.0] * n), "cyc": lambda n: wcyc(n, 0)}
    spunits = [(nm, yk, wk) for (nm, _, _, _, _) in SPECIAL for yk in SPECIAL_Y for wk in SPECIAL_W]

    def expand_special(u):
        nm, yk, wk = u
        _, data, (bkind, bval), mn, mx = [t for t in SPECIAL if t[0] == nm][0]
        n = len(data)
        y = None if SPECIAL_Y[yk] is None else SPECIAL_Y[yk](n)
        w = None if SPECIAL_W[wk] is None else SPECIAL_W[wk](n)
        for eng in (True, False):
            for entry in ("binner", "binner-split") + (("hist-more",) if y is None and w is None else ()) + (("hist-weights",) if y is None and w is not None else ()):
                yield ("f8", data, w, y, bkind, bval, mn, mx, entry, eng)

    ctx.lattice("special-data", spunits, one, expand=expand_special,
                bounds=dict(data=[t[0] for t in SPECIAL], second_variable=sorted(SPECIAL_Y), weights=sorted(SPECIAL_W), engines=["compiled", "python"]))

    def expand_special_nper(u):
        nm, yk, wk = u
        _, data, _b, mn, mx = [t for t in SPECIAL if t[0] == nm][0]
        n = len(data)
        y = None if SPECIAL_Y[yk] is None else SPECIAL_Y[yk](n)
        w = None if SPECIAL_W[wk] is None else SPECIAL_W[wk](n)
        for nper in (2, 3, n):
            for ml in (True, False):
                yield (data, w, y, nper, ml, None, None, "binner", True)

    # ---------------------------------------------------------- part: large bins
    # bins of several hundred to a few thousand members (odd and even counts around 256, 512, 1024, 4096), the members
    # in scrambled order and a second variable that is not monotonic in x: order statistics taken by partial sorting
    # (partition, introselect) are only wrong for large, suitably arranged bins
    def expand_large(u):
        sizes, ykind, eng = u
        xs, ys = [], []
        for b, n in enumerate(sizes):
            for i in range(n):
                xs.append(b + ((i * 7919 + 13) % n) / float(n + 1))
                ys.append({"sin": math.sin(1.0 + 0.37 * (len(xs) + 1) * (b + 1)), "saw": float((i * 31) % 17) - 8.0,
                           "steps": float((i * 5) % 3)}[ykind])
        order = [(k * 104729 + 7) % len(xs) for k in range(len(xs))]
        data = tuple(xs[k] for k in order)
        y = tuple(ys[k] for k in order)
        yield ("f8", data, None, y, "binsize", 1.0, 0.0, None, "binner", eng)
        yield ("f8", data, tuple(1.0 + (k % 3) for k in range(len(data))), y, "binsize", 1.0, 0.0, None, "binner", eng)

    MANY_EVEN = tuple(258 + 2 * (k % 23) for k in range(40))        # forty bins of 258..302 members (even counts)
    MANY_EVEN2 = tuple(600 + 2 * (k % 7) for k in range(ctx.pick(160, 600)))      # (selection by partition goes wrong for about one arrangement in a hundred)
    lgunits = [(sz, yk, eng) for sz in ((257, 258, 300), (512, 513, 1000), (1024, 255, 256, 2), (4096, 4097), MANY_EVEN, MANY_EVEN2) for yk in ("sin", "saw", "steps") for eng in (True, False)]
    ctx.lattice("large-bins", lgunits, one, expand=expand_large,
                bounds=dict(bin_sizes=[[257, 258, 300], [512, 513, 1000], [1024, 255, 256, 2], [4096, 4097], "40 bins of 258..302 (even)", "160 (thorough: 600) bins of 600..612 (even)"], second_variable=["sin", "saw", "steps"], engines=["compiled", "python"]))

    # ---------------------------------------------------------- part: nperbin
    def one_nper(case, rec):
        data, w, y, nper, ml, mn, mx, entry, eng = case
        arr, warr, yarr, x = arrays("f8", data, w, y)
        nper_arg = nper
        if isinstance(nper, tuple):
            nper_arg = np.dtype(nper[1]).type(nper[2])
            nper = nper[2]
        ref = ref_nper(x, nper, ml, mn, mx)
        kw = dict(nperbin=nper_arg, mergelast=ml, min=mn, max=mx)
        su.have_chist = eng
        ncall = 1
        try:
            if entry == "binner":
                b = stat.Binner(arr, y=yarr, weights=warr)
                b.dohist(**kw)
                hist, rev, level = b.get("hist"), b.get("rev"), "full"
            elif entry == "binner-split":
                b = stat.Binner(arr, y=yarr, weights=warr)
                b.dohist(calc_stats=False, **kw)
                b.calc_stats()
                ncall = 2
                hist, rev, level = b.get("hist"), b.get("rev"), "full"
            elif entry == "hist-more":
                b = stat.histogram(arr, weights=warr, more=True, **kw)
                hist, rev, level = b.get("hist"), b.get("rev"), "full"
            elif entry == "hist-weights":
                b = stat.histogram(arr, weights=warr, **kw)
                hist, rev, level = b.get("hist"), b.get("rev"), "full"
            elif entry == "hist-rev":
                hist, rev = stat.histogram(arr, rev=True, **kw)
                b, level = None, "rev"
            else:
                raise RuntimeError("unknown entry %r" % (entry,))
        except ValueError as e:
            if ref is None:
                return rec.ok(case, outcome="no-data-in-limits:ValueError", nontrivial=True, calls=1)
            return rec.fail(case, "unexpected ValueError: %s" % (e,))
        except Exception as e:  # never expected
            return rec.fail(case, "raised %s: %s" % (type(e).__name__, e))
        finally:
            su.have_chist = True
        if ref is None:
            return rec.fail(case, "no datum within [min,max] but no error was raised")
        if hist is None or rev is None:
            return rec.fail(case, "nperbin result has no hist/rev (keys %r)" % (sorted(b.keys()),))
        msg = verify_nper(hist, rev, b, x, y, w, ref, level)
        if msg:
            return rec.fail(case, msg)
        nsel = len(ref["sel"])
        ties = len(set(x)) < len(x)
        if ref["merged"]:
            oc = "short-last-merged"
        elif ref["short"] and len(ref["chunks"]) == 1:
            oc = "single-short-bin"
        elif ref["short"]:
            oc = "short-last-kept"
        else:
            oc = "all-full"
        if nsel < len(x):
            oc += "+limited"
        if ties:
            oc += "+ties"
        rec.ok(case, outcome="%s:%s" % (level, oc), nontrivial=bool(ties or ref["short"] or nsel < len(x)),
               calls=ncall)

    LN = ctx.pick(4, 5)

    def nper_variants(n):
        gw = tuple(GW[:n])
        gy = tuple(GY[:n])
        out = []
        # the pure python engine on every tuple shorter than the length bound
        for eng in ((True, False) if n < LN else (True,)):
            out += [
                (None, None, "binner", eng),
                (None, None, "hist-more", eng),
                (None, None, "hist-rev", eng),
                (wcyc(n, 0), None, "hist-weights", eng),
                (None, ycyc(n), "binner", eng),
                (wcyc(n, 1), ycyc(n), "binner", eng),
            ]
        out += [
            (wcyc(n, 1), None, "binner", True),
            (wcyc(n, 0), None, "hist-more", True),
            (wcyc(n, 0), ycyc(n), "binner-split", True),
            (None, None, "binner-split", True),
            (gw, gy, "binner", True),
        ]
        return out

    units_n = []
    for n in range(1, LN + 1):
        for nper in range(1, n + 2):
            for ml in (True, False):
                for (mn, mx) in NLIMITS:
                    if n >= 4:
                        for v0 in VN:
                            units_n.append((n, nper, ml, mn, mx, v0))
                    else:
                        units_n.append((n, nper, ml, mn, mx, None))

    def expand_n(u):
        n, nper, ml, mn, mx, v0 = u
        var = nper_variants(n)
        if v0 is None:
            it = itertools.product(VN, repeat=n)
        else:
            it = ((v0,) + t for t in itertools.product(VN, repeat=n - 1))
        for data in it:
            for (w, y, entry, eng) in var:
                yield (data, w, y, nper, ml, mn, mx, entry, eng)

    ctx.lattice("nperbin", units_n, one_nper, expand=expand_n,
                bounds=dict(max_len=LN, alphabet=VN, nperbin="1..len+1", mergelast=[True, False],
                            limits=NLIMITS, engines=["compiled", "python (len < max_len)"]))

    # long inputs for the equal-occupancy bins: N = 150 and 97 values (a fixed scramble of distinct values and one with
    # ties) x EVERY nperbin 1..N x mergelast x engine: bin numbers computed as (i - 0) * (1/nperbin) instead of
    # i / nperbin are wrong only for particular (nperbin, position) pairs far beyond the short-input lattice
    def long_data(N, ties):
        vals = [((i * 37) % N) * (0.5 if not ties else 1.0) for i in range(N)]
        if ties:
            vals = [float(int(v) // 3) for v in vals]
        return tuple(float(v) for v in vals)

    units_nl = [(N, ties, nper) for (N, ties) in ((150, False), (97, True)) for nper in range(1, N + 1)]

    def expand_nl(u):
        N, ties, nper = u
        data = long_data(N, ties)
        for ml in (True, False):
            for eng in (True, False):
                yield (data, None, None, nper, ml, None, None, "hist-more", eng)
            yield (data, wcyc(N, 1), ycyc(N), nper, ml, None, None, "binner", True)
        # the same request with nperbin given as a narrow numpy integer (index arithmetic must not be done in that type)
        for tname, tmax in (("i1", 127), ("u1", 255), ("i2", 32767)):
            if nper <= tmax and nper * (N // nper) > tmax:
                yield (data, None, None, ("np", tname, nper), True, None, None, "hist-more", True)

    ctx.lattice("nperbin-long", units_nl, one_nper, expand=expand_nl, bounds=dict(lengths=[150, 97], nperbin="every value 1..N"))
    ctx.lattice("special-data-nperbin", spunits, one_nper, expand=expand_special_nper,
                bounds=dict(data=[t[0] for t in SPECIAL], second_variable=sorted(SPECIAL_Y), weights=sorted(SPECIAL_W), nperbin=[2, 3, "len"]))

    # -------------------------------------------------- part: two-symbol-long
    LL = ctx.pick(8, 12)
    pairs = [(0.0, 1.0), (0.5, 3.7), (-1.0, 0.30000000000000004), (1.0, 1.0)]
    units_l = []
    for pr in pairs:
        for (bkind, bval) in (("binsize", 0.5), ("binsize", 1.0), ("nbin", 2), ("nbin", 3)):
            for mn, mx in ((None, None), (0.5, None), (-1.0, 2.0)):
                units_l.append(("b", pr, bkind, bval, mn, mx))
        for nper in (1, 2, 3, 5, LL - 1, LL, LL + 1):
            for ml in (True, False):
                for (mn, mx) in ((None, None), (0.5, None)):
                    units_l.append(("n", pr, nper, ml, mn, mx))

    def one_long(case, rec):
        if case[0] == "b":
            return one(case[1:], rec)
        return one_nper(case[1:], rec)

    def expand_l(u):
        gw = tuple(GW[i % len(GW)] for i in range(LL))
        gy = tuple(GY[i % len(GY)] for i in range(LL))
        for bits in itertools.product((0, 1), repeat=LL):
            data = tuple(u[1][b] for b in bits)
            if u[0] == "b":
                _, pr, bkind, bval, mn, mx = u
                yield ("b", "f8", data, wcyc(LL, 0), ycyc(LL), bkind, bval, mn, mx, "binner", True)
                yield ("b", "f8", data, gw, None, bkind, bval, mn, mx, "hist-weights", True)
                yield ("b", "f8", data, None, gy, bkind, bval, mn, mx, "binner", True)
            else:
                _, pr, nper, ml, mn, mx = u
                yield ("n", data, wcyc(LL, 0), ycyc(LL), nper, ml, mn, mx, "binner", True)
                yield ("n", data, gw, gy, nper, ml, mn, mx, "binner", True)
                yield ("n", data, None, None, nper, ml, mn, mx, "hist-more", True)

    ctx.lattice("two-symbol-long", units_l, one_long, expand=expand_l,
                bounds=dict(length=LL, symbol_pairs=pairs))

    # ------------------------------------------------------ part: reuse (E2)
    from mc.util import fingerprint

    CFGS = (
        (("binsize", 1.0), ("rev", True)),
        (("nbin", 2), ("rev", True)),
        (("nperbin", 2),),
        (("nperbin", 2), ("mergelast", False)),
        (("binsize", 0.5), ("min", 0.0), ("max", 2.0), ("rev", True), ("calc_stats", False)),
        (("nperbin", 3), ("min", 0.0), ("calc_stats", False)),
        (("binsize", 1.0),),
    )
    # a request without any datum in its limits is rejected (ValueError); whatever the object reports afterwards
    # (nothing at all, or the results of the last accepted request) must be right
    REJECT = (("binsize", 1.0), ("min", 50.0), ("rev", True))
    EVENTS = tuple(("dohist", c) for c in CFGS) + (("calc_stats",), ("dohist-rejected", REJECT))
    datas = [(0.0, 0.5, 1.0, 2.0, 0.5), (2.0, -1.0, 0.5, 0.5, 3.7, 1.0, 0.0), (1.0,),
             (0.30000000000000004, 0.1, 0.0, 1.5, 1.0)]
    roots = []
    for d in datas:
        n = len(d)
        roots.append((("new", d, None, None),))
        roots.append((("new", d, wcyc(n, 0), None),))
        roots.append((("new", d, tuple(GW[:n]), ycyc(n)),))

    def execute(hist, rec):
        _, data, w, y = hist[0]
        arr, warr, yarr, x = arrays("f8", data, w, y)
        b = stat.Binner(arr, y=yarr, weights=warr)
        cfg = None
        stats_done = False
        pending = None      # the last accepted request, while a later one was rejected
        for k, ev in enumerate(hist[1:]):
            try:
                if ev[0] == "dohist":
                    b.dohist(**dict(ev[1]))
                    cfg = dict(ev[1])
                    stats_done = cfg.get("calc_stats", True)
                    pending = None
                elif ev[0] == "dohist-rejected":
                    try:
                        b.dohist(**dict(ev[1]))
                        rec.fail(hist, "a request without any datum in its limits was accepted (call %d)" % (k + 1))
                        return None
                    except ValueError:
                        pass
                    pending, cfg = (cfg if cfg is not None else pending), None
                elif cfg is None:
                    # nothing to report on yet: "run dohist first" (ValueError) is the documented answer
                    try:
                        b.calc_stats()
                        if pending is not None and "hist" in b:
                            cfg = pending          # the object reports on the last accepted request: checked below
                            stats_done = True
                    except ValueError:
                        pass
                else:
                    b.calc_stats()
                    stats_done = True
            except Exception as e:
                rec.fail(hist, "call %d of %d on one Binner (%s) raised %s: %s" % (
                    k + 1, len(hist) - 1, ev[0], type(e).__name__, e))
                return None
        if cfg is not None:
            mn, mx = cfg.get("min"), cfg.get("max")
            if "nperbin" in cfg:
                ref = ref_nper(x, cfg["nperbin"], cfg.get("mergelast", True), mn, mx)
                if ref is None or "hist" not in b or "rev" not in b:
                    rec.fail(hist, "reuse: no hist/rev after nperbin dohist (keys %r)" % (sorted(b.keys()),))
                    return None
                msg = verify_nper(b["hist"], b["rev"], b, x, y, w, ref, "full" if stats_done else "lowhigh")
            else:
                bkind = "nbin" if "nbin" in cfg else "binsize"
                ref = ref_members(x, bkind, cfg[bkind], mn, mx)
                if ref is None:
                    rec.fail(hist, "reuse: harness configuration without data in limits")
                    return None
                if not stats_done:
                    level = "hist"
                elif cfg.get("rev") or w is not None or y is not None:
                    level = "full"
                else:
                    level = "edges"
                msg = verify_binned(b, x, y, w, ref, level)
            if msg:
                rec.fail(hist, "after %d call(s) on one Binner: %s" % (len(hist) - 1, msg))
                return None
        return fingerprint(dict(b), b.__dict__), EVENTS

    ctx.histories("reuse", roots, execute, depth=ctx.pick(4, 5), nodedup_depth=3,
                  bounds=dict(configs=[dict(c) for c in CFGS], roots=len(roots),
                              calls_per_object=ctx.pick(3, 4)))

    # ------------------------------------------------------------ call sequences
    # sequences of histogram(more=True) / Binner calls in one process with several results alive at once
    # (mc/worlds.py call_sequences): reverse indices or per-bin arrays that are views of a module-level
    # scratch buffer are overwritten by the next call; split dohist(calc_stats=False) ... calc_stats() pairs
    # with another Binner's histogram in between
    from mc.worlds import call_sequences

    def seq_pool():
        return dict(d1=np.array([0.0, 0.5, 1.0, 1.5, 2.0, 3.7, 1.0, 3.0]), d2=np.array([3.0, 1.0, 2.0, 2.0]),
                    w1=np.array([1.0, 2.0, 0.5, 1.0, 2.0, 0.5, 1.0, 2.0]), w2=np.array([2.0, 0.5, 1.0, 2.0]),
                    y1=np.array([0.5, 1.0, 1.5, 2.0, 2.5, 3.0, 3.5, 4.0]),
                    # data in the subnormal range: whatever an earlier call leaves behind in the floating-point mode of
                    # the process (flush-to-zero) shows in the statistics of these
                    t1=np.array([1.0, 2.0, 3.0, 5.0, 8.0, 9.0, 12.0, 13.0]) * 1e-311, ty=np.array([4.0, 1.0, 7.0, 2.0, 9.0, 3.0, 8.0, 5.0]) * 1e-312)

    SEQ_CALLS = [("more", "d1", None, 1.0), ("more", "d2", None, 1.0), ("more", "d1", "w1", 0.5), ("more", "d2", "w2", 0.5),
                 ("split", "d1", "w1", "d2"), ("split", "d2", "w2", "d1"), ("nper", "d1", 3), ("nper", "d2", 2),
                 # counts only (no reverse indices, no weights, no second variable), and subnormal data
                 ("counts", "d1", 1.0), ("counts", "d2", 0.5), ("tiny", "t1", "ty", 2), ("tiny-nper", "t1", 3)]

    def _dictvals(r):
        return [np.asarray(r[k]) for k in sorted(r.keys()) if isinstance(r[k], (np.ndarray, float, int, np.generic))]

    def seq_run(c, pool):
        if c[0] == "more":
            return _dictvals(stat.histogram(pool[c[1]], weights=None if c[2] is None else pool[c[2]], binsize=c[3], more=True, rev=True))
        if c[0] == "nper":
            return _dictvals(stat.histogram(pool[c[1]], nperbin=c[2], more=True, rev=True))
        if c[0] == "counts":
            return [np.asarray(stat.histogram(pool[c[1]], binsize=c[2]))]
        if c[0] == "tiny":
            bt = stat.Binner(pool[c[1]], y=pool[c[2]])
            bt.dohist(nbin=c[3])
            bt.calc_stats()
            return _dictvals(dict(bt))
        if c[0] == "tiny-nper":
            return _dictvals(stat.histogram(pool[c[1]], nperbin=c[2], more=True, rev=True))
        b1 = stat.Binner(pool[c[1]], weights=pool[c[2]])
        b1.dohist(binsize=1.0, rev=True, calc_stats=False)
        b2 = stat.Binner(pool[c[3]])
        b2.dohist(binsize=0.5, rev=True)                 # another object's histogram in between
        b1.calc_stats()
        return _dictvals(dict(b1)) + _dictvals(dict(b2))

    call_sequences(ctx, "call-sequences", seq_pool, SEQ_CALLS, seq_run, lambda: [su], depth=3, nodedup_depth=3, result_edits=True)
