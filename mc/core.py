"""Explorers, crash isolation, violations, evidence.

Three explorers, all run the real code in forked worker processes:

* ``Ctx.lattice``   E1  – exhaustive enumeration of a finite product space
* ``Ctx.histories`` E2  – explicit-state BFS over operation histories (replay
                          from fresh; undeduplicated to depth d0, then
                          de-duplicated on a canonical key)
* ``Ctx.choices``   E3/E4 – stateless, deviation-bounded DFS over the choice
                          points (environment answers / scheduler decisions)
                          that an execution exposes

A *case* is a plain python literal (tuples, lists, dicts, numbers, str, bytes,
None, bool); it is stored in replay files with ``repr`` and read back with a
restricted ``eval``, so every violation can be re-executed by
``./check Cxx --replay file`` through the same ``one(case, rec)`` function,
without any explorer.
"""
import collections
import hashlib
import json
import multiprocessing
import os
import pickle
import re
import shutil
import signal
import sys
import time
import traceback

VERIF = os.path.dirname(os.path.dirname(os.path.abspath(__file__)))
NWORKERS = int(os.environ.get("VERIF_WORKERS", "16"))
MAX_VIOL_PER_WORKER = 400
# watchdog: a unit that runs longer than this is killed (SIGALRM) and reported as a violation of that unit
# ("worker process died (signal 14)"): a change that makes the library loop on garbage must not hang the check
UNIT_TIMEOUT = int(os.environ.get("VERIF_UNIT_TIMEOUT", "240"))
MAX_VIOL_PER_CLASS = int(os.environ.get("VERIF_MAX_VIOL_PER_CLASS", "3"))


def message_class(message):
    """failure class of a message: bracketed/quoted content and numbers blanked"""
    m = message
    for _ in range(6):
        m2 = re.sub(r"\[[^\[\]]*\]|\([^()]*\)|\{[^{}]*\}|'[^']*'|\"[^\"]*\"", "..", m)
        if m2 == m:
            break
        m = m2
    m = re.sub(r"[-+]?[0-9][0-9.e+-]*", "#", m)
    m = re.sub(r"\s+", " ", m)
    return m[:110]
# [(finding id, text, predicate(part, case))] set by run.py before exploring
KNOWN = []
QUIET_WORKERS = False


# --------------------------------------------------------------------------
# case <-> text


def case_to_text(case):
    return repr(case)


def text_to_case(s):
    return eval(s, {"__builtins__": {}}, {"inf": float("inf"), "nan": float("nan")})


def _jsonable(x, depth=0):
    if depth > 6:
        return repr(x)
    if isinstance(x, (str, int, bool)) or x is None:
        return x
    if isinstance(x, float):
        if x != x or x in (float("inf"), float("-inf")):
            return repr(x)
        return x
    if isinstance(x, (list, tuple)):
        return [_jsonable(v, depth + 1) for v in x]
    if isinstance(x, dict):
        return {str(k): _jsonable(v, depth + 1) for k, v in x.items()}
    return repr(x)


# --------------------------------------------------------------------------


class Violation(object):
    def __init__(self, part, case, message, prefix=None):
        self.part = part
        self.case = case
        self.message = message
        # indices of the units this worker process had executed up to and including the violating one:
        # a violation that needs process-wide state left by EARLIER cases is replayed with them
        self.prefix = prefix

    def sig(self):
        h = hashlib.sha1()
        h.update(self.part.encode())
        h.update(case_to_text(self.case).encode())
        return h.hexdigest()[:16]


class Rec(object):
    """per-worker recorder handed to every ``one(case, rec)``"""

    def __init__(self, part):
        self.part = part
        self.evaluations = 0
        self.nontrivial = 0
        self.calls = 0
        self.outcomes = collections.Counter()
        self.violations = []
        self.nviol = 0
        self.first = None
        self.last = None
        self.extra = collections.Counter()
        self.known = collections.Counter()
        self.vclasses = collections.Counter()

    # one case was evaluated (and held, unless fail() was called for it)
    def ok(self, case=None, outcome="ok", nontrivial=True, calls=1):
        self.evaluations += 1
        if nontrivial:
            self.nontrivial += 1
        self.calls += calls
        self.outcomes[outcome] += 1
        if case is not None:
            if self.first is None:
                self.first = case
            self.last = case

    def fail(self, case, message):
        for kid, what, pred in KNOWN:
            try:
                hit = pred(self.part, case)
            except Exception:
                hit = False
            if hit:
                self.known[(kid, what)] += 1
                return
        self.nviol += 1
        k = message_class(message)
        self.vclasses[k] += 1
        if self.vclasses[k] <= MAX_VIOL_PER_CLASS and len(self.violations) < MAX_VIOL_PER_WORKER:
            sh = getattr(self, "_shard", None)
            self.violations.append(Violation(self.part, case, message,
                                             prefix=None if sh is None else list(sh[0][:sh[1] + 1])))

    def count(self, key, n=1):
        self.extra[key] += n

    def merge(self, o):
        self.evaluations += o.evaluations
        self.nontrivial += o.nontrivial
        self.calls += o.calls
        self.outcomes.update(o.outcomes)
        self.violations.extend(o.violations)
        self.nviol += o.nviol
        mx = max(self.extra.get("max_unit_seconds", 0), o.extra.get("max_unit_seconds", 0))
        self.extra.update(o.extra)
        if mx:
            self.extra["max_unit_seconds"] = mx
        self.known.update(o.known)
        self.vclasses.update(o.vclasses)
        if self.first is None:
            self.first = o.first
        if o.last is not None:
            self.last = o.last


# --------------------------------------------------------------------------
# forked sharded execution with crash isolation


def _run_sharded(part, units, work, nworkers, tmpdir, per_worker_setup=None, unit_case=None):
    """run work(unit, rec) for every unit, sharded over forked workers.

    Returns a merged Rec.  A worker that dies is reported as a violation of the
    unit it was executing and its remaining units are given to a new worker.
    """
    n = len(units)
    nworkers = max(1, min(nworkers, n))
    if unit_case is None:
        def unit_case(u):
            return ("unit", u)
    total = Rec(part)
    if n == 0:
        return total
    slots = multiprocessing.RawArray("q", nworkers)
    # shard -> list of unit indices still to do
    shards = [list(range(w, n, nworkers)) for w in range(nworkers)]
    pending = {}

    def spawn(w, idxs):
        slots[w] = -1
        out = os.path.join(tmpdir, "w%d.pkl" % w)
        if os.path.exists(out):
            os.unlink(out)
        sys.stdout.flush()
        sys.stderr.flush()
        pid = os.fork()
        if pid == 0:
            code = 0
            try:
                signal.signal(signal.SIGINT, signal.SIG_DFL)
                if QUIET_WORKERS:
                    dn = os.open(os.devnull, os.O_WRONLY)
                    os.dup2(dn, 2)
                rec = Rec(part)
                wtmp = os.path.join(tmpdir, "wd%d" % w)
                os.makedirs(wtmp, exist_ok=True)
                rec.tmp = wtmp
                if per_worker_setup:
                    per_worker_setup(w)
                signal.signal(signal.SIGALRM, signal.SIG_DFL)
                if os.environ.get("VERIF_FPSTRICT"):
                    # experiment switch: the library under a process that traps floating-point errors
                    import numpy as _np
                    _np.seterr(divide="raise", invalid="raise", over="raise")
                if os.environ.get("VERIF_WSTRICT"):
                    # experiment switch: the library under a process that turns warnings into errors
                    import warnings as _w
                    _w.simplefilter("error")
                    _w.filterwarnings("default", message=".*encountered in.*")
                for pos, i in enumerate(idxs):
                    slots[w] = i
                    rec._shard = (idxs, pos)
                    signal.alarm(UNIT_TIMEOUT)
                    t_unit = time.time()
                    try:
                        work(units[i], rec)
                    except Exception:
                        rec.fail(unit_case(units[i]),
                                 "harness/unit raised: " + traceback.format_exc()[-1500:])
                    signal.alarm(0)
                    t_unit = time.time() - t_unit
                    if t_unit > rec.extra.get("max_unit_seconds", 0):
                        rec.extra["max_unit_seconds"] = round(t_unit, 2)
                slots[w] = -2
                del rec.tmp
                if hasattr(rec, "_shard"):
                    del rec._shard
                with open(out + ".tmp", "wb") as f:
                    pickle.dump(rec, f, protocol=4)
                os.rename(out + ".tmp", out)
            except BaseException:
                traceback.print_exc()
                code = 3
            finally:
                sys.stdout.flush()
                sys.stderr.flush()
                os._exit(code)
        pending[pid] = (w, idxs)

    for w in range(nworkers):
        spawn(w, shards[w])
    while pending:
        pid, status = os.wait()
        if pid not in pending:
            continue
        w, idxs = pending.pop(pid)
        out = os.path.join(tmpdir, "w%d.pkl" % w)
        if os.WIFEXITED(status) and os.WEXITSTATUS(status) == 0 and os.path.exists(out):
            with open(out, "rb") as f:
                total.merge(pickle.load(f))
            os.unlink(out)
            continue
        cur = slots[w]
        how = ("signal %d" % os.WTERMSIG(status)) if os.WIFSIGNALED(status) else (
            "exit status %d" % os.WEXITSTATUS(status))
        if os.WIFSIGNALED(status) and os.WTERMSIG(status) == signal.SIGALRM:
            how += ": still running after %d s, killed by the watchdog" % UNIT_TIMEOUT
        if cur >= 0:
            total.fail(unit_case(units[cur]),
                       "worker process died (%s) while executing this unit" % how)
            rest = idxs[idxs.index(cur) + 1:]
            # results of units completed before the crash are lost: redo them too,
            # except the crashing one
            redo = idxs[:idxs.index(cur)] + rest
            if redo:
                spawn(w, redo)
        else:
            total.fail(("worker", w), "worker process died (%s) outside any unit" % how)
    return total


# --------------------------------------------------------------------------


class Part(object):
    def __init__(self, name, one, kind):
        self.name = name
        self.one = one
        self.kind = kind
        self.stats = {}


class Ctx(object):
    def __init__(self, pid, tier, seed, replay=None):
        self.pid = pid
        self.tier = tier
        self.seed = seed
        self.quick = tier == "quick"
        global UNIT_TIMEOUT
        if tier != "quick" and "VERIF_UNIT_TIMEOUT" not in os.environ:
            UNIT_TIMEOUT = 1200
        self.parts = collections.OrderedDict()
        self.replay_request = replay
        self.t0 = time.time()
        self.notes = []
        self.assumptions = []
        self.rule = ""
        base = "/dev/shm" if os.path.isdir("/dev/shm") else "/var/tmp"
        self.tmpdir = os.path.join(base, "esutil-verif-%s-%d" % (pid, os.getpid()))
        shutil.rmtree(self.tmpdir, ignore_errors=True)
        os.makedirs(self.tmpdir)
        self.replayed = None

    def cleanup(self):
        shutil.rmtree(self.tmpdir, ignore_errors=True)

    def pick(self, quick, thorough):
        return quick if self.quick else thorough

    # ------------------------------------------------------------------ E1
    def lattice(self, name, units, one, expand=None, nworkers=None, bounds=None,
                engine="lattice", fpstrict=False, wstrict=False, envstrict=False, fpignore=False):
        """enumerate: for unit in units: for case in expand(unit): one(case, rec)

        ``units`` is a list (sharded over workers); ``expand`` (default:
        identity) yields the fully specified cases of a unit.
        """
        auto_strict = False
        if getattr(self, "envstrict_all", False) and not name.endswith(("/strict-environment", "/fp-strict", "/warnings-as-errors", "/fp-errors-ignored")):
            # ("small": only parts of at most 400000 cases in the quick tier - the environment pass doubles a part)
            auto_strict = True
            envstrict = envstrict or self.envstrict_all != "small" or not self.quick
        part = Part(name, one, engine)
        self.parts[name] = part
        part.units = units
        part.expand = expand
        if self.replay_request is not None:
            if fpstrict:
                self._fpstrict_pass(name, units, one, expand, nworkers, bounds, engine)
            if wstrict:
                self._wstrict_pass(name, units, one, expand, nworkers, bounds, engine)
            if envstrict:
                self._envstrict_pass(name, units, one, expand, nworkers, bounds, engine)
            if fpignore:
                self._fpignore_pass(name, units, one, expand, nworkers, bounds, engine)
            return part
        units = list(units)
        part.units = units
        t0 = time.time()
        global QUIET_WORKERS
        QUIET_WORKERS = bool(getattr(self, "quiet_workers", False))

        if expand is None:
            def work(unit, rec):
                one(unit, rec)
        else:
            def work(unit, rec):
                for case in expand(unit):
                    one(case, rec)

        tmp = os.path.join(self.tmpdir, "p%d" % len(self.parts))
        os.makedirs(tmp, exist_ok=True)
        rec = _run_sharded(name, units, work, nworkers or NWORKERS, tmp,
                           unit_case=(lambda u: u) if expand is None else None)
        shutil.rmtree(tmp, ignore_errors=True)
        part.stats = dict(
            engine=engine, units=len(units), evaluations=rec.evaluations,
            states=rec.evaluations, transitions=rec.calls,
            distinct_nontrivial=rec.nontrivial,
            outcome_classes=dict(rec.outcomes.most_common(40)),
            n_outcome_classes=len(rec.outcomes),
            violations=rec.nviol, wall_s=round(time.time() - t0, 2),
            first=rec.first, last=rec.last, bounds=bounds or {},
            extra=dict(rec.extra), exhaustive=True,
        )
        part.known = rec.known
        part.vclasses = rec.vclasses
        part.violations = rec.violations
        self._progress(part)
        if fpstrict:
            self._fpstrict_pass(name, units, one, expand, nworkers, bounds, engine)
        if wstrict:
            self._wstrict_pass(name, units, one, expand, nworkers, bounds, engine)
        if envstrict or (auto_strict and rec.evaluations <= 400000):
            self._envstrict_pass(name, units, one, expand, nworkers, bounds, engine)
        if fpignore:
            self._fpignore_pass(name, units, one, expand, nworkers, bounds, engine)
        return part

    def _fpignore_pass(self, name, units, one, expand, nworkers, bounds, engine):
        """the same part once more with numpy's floating-point error handling switched OFF (numpy.errstate(all='ignore'),
        what number-crunching applications commonly set): code that notices a condition only through a warning or an
        exception of the FP machinery (try arccos, clip and redo if it complains) silently returns NaN there"""
        import numpy as _np

        def lenient_one(case, rec):
            with _np.errstate(all="ignore"):
                return one(case, rec)
        b = dict(bounds or {})
        b["environment"] = "numpy.errstate(all='ignore')"
        return self.lattice(name + "/fp-errors-ignored", units, lenient_one, expand=expand, nworkers=nworkers, bounds=b, engine=engine)

    def _envstrict_pass(self, name, units, one, expand, nworkers, bounds, engine):
        """both strict environments at once (floating-point errors trap AND every warning is an exception), for parts
        that are clean under both on the unchanged tree: one extra pass instead of two"""
        import warnings as _w
        import numpy as _np

        def strict_one(case, rec):
            with _w.catch_warnings():
                _w.simplefilter("error")
                with _np.errstate(divide="raise", invalid="raise", over="raise"):
                    return one(case, rec)
        b = dict(bounds or {})
        b["environment"] = "numpy.errstate(divide/invalid/over='raise') and warnings.simplefilter('error')"
        return self.lattice(name + "/strict-environment", units, strict_one, expand=expand, nworkers=nworkers, bounds=b, engine=engine)

    def _wstrict_pass(self, name, units, one, expand, nworkers, bounds, engine):
        """the same part once more in a process that turns every warning into an exception (python -W error, a pytest
        filterwarnings=error): a diagnostic that the library writes to stderr must not become a ``warnings.warn`` that
        makes a legitimate call raise there.  Only used for parts that are clean under it on the unchanged tree."""
        import warnings as _w

        def strict_one(case, rec):
            with _w.catch_warnings():
                _w.simplefilter("error")
                # numpy's floating-point warnings ("... encountered in ...") belong to the fp-strict environment
                _w.filterwarnings("default", message=".*encountered in.*")
                return one(case, rec)
        b = dict(bounds or {})
        b["environment"] = "warnings.simplefilter('error') except numpy floating-point warnings"
        return self.lattice(name + "/warnings-as-errors", units, strict_one, expand=expand, nworkers=nworkers, bounds=b, engine=engine)

    def _fpstrict_pass(self, name, units, one, expand, nworkers, bounds, engine):
        """the same part once more in a process that TRAPS floating-point errors (numpy.seterr divide/invalid/over =
        'raise'): an environment some applications run in.  Only used for parts that are known to be clean under it
        on the unchanged tree (the library as a whole is not: e.g. distmod(0) is log10(0))."""
        import numpy as _np

        def strict_one(case, rec):
            with _np.errstate(divide="raise", invalid="raise", over="raise"):
                return one(case, rec)
        b = dict(bounds or {})
        b["environment"] = "numpy.errstate(divide='raise', invalid='raise', over='raise')"
        return self.lattice(name + "/fp-strict", units, strict_one, expand=expand, nworkers=nworkers, bounds=b, engine=engine)

    # ------------------------------------------------------------------ E2
    def histories(self, name, roots, execute, depth, nodedup_depth=2, nworkers=None,
                  bounds=None, max_states=None):
        """explicit-state BFS over operation histories.

        ``execute(hist, rec)`` builds a fresh world, replays ``hist`` (a tuple of
        events) on the real code, checks the oracles (calling rec.fail), and
        returns ``(key, menu)``: the canonical key of the reached state and the
        tuple of events enabled there.  It returns ``None`` to prune (e.g. after
        a violation).  Histories up to ``nodedup_depth`` events are all
        expanded; beyond, a state whose key was seen is not expanded again.
        """
        def one(case, rec):
            r = execute(tuple(case), rec)
            rec.ok(case, outcome="replayed", calls=len(case))
            return r

        part = Part(name, one, "histories")
        self.parts[name] = part
        if self.replay_request is not None:
            return part
        t0 = time.time()
        seen = set()
        frontier = [tuple(r) for r in roots]
        nstates = 0
        ntrans = 0
        nexec = 0
        maxdepth = 0
        total = Rec(name)
        capped = False
        tmp = os.path.join(self.tmpdir, "p%d" % len(self.parts))
        os.makedirs(tmp, exist_ok=True)
        level = 0
        dup_merged = 0
        while frontier:
            results = {}

            def work(hist, rec):
                r = execute(hist, rec)
                rec.ok(hist, outcome="depth%d" % len(hist), calls=1)
                rec.count("replayed_ops", len(hist))
                if not hasattr(rec, "res"):
                    rec.res = []
                rec.res.append((hist, r))

            rec = _run_sharded_collect(name, frontier, work, nworkers or NWORKERS, tmp)
            total.merge(rec)
            ntrans += len(frontier)
            nxt = []
            for hist, r in sorted(getattr(rec, 'res_all', []), key=lambda t: (len(t[0]), case_to_text(t[0]))):
                maxdepth = max(maxdepth, len(hist))
                if r is None:
                    continue
                key, menu = r
                if len(hist) > nodedup_depth:
                    if key in seen:
                        dup_merged += 1
                        continue
                if key not in seen:
                    seen.add(key)
                    nstates += 1
                if len(hist) >= depth:
                    continue
                for ev in menu:
                    nxt.append(hist + (ev,))
            nxt.sort(key=lambda h: case_to_text(h))
            # safety net: a tree under test whose module-level state differs from run to run (a cache that stores time
            # stamps) makes every history a new state; the search is then cut off and the part reported as capped
            # (exhaustive=False in the evidence) instead of running for hours
            cap = max_states or int(os.environ.get("VERIF_MAX_STATES", "20000" if self.quick else "150000"))
            if nstates > cap or len(nxt) > 4 * cap:
                capped = True
                print("[%s] %s: search cut off at %d states / a frontier of %d histories (capped, not exhaustive)" % (self.pid, name, nstates, len(nxt)), flush=True)
                break
            frontier = nxt
            level += 1
        shutil.rmtree(tmp, ignore_errors=True)
        part.stats = dict(
            engine="histories", evaluations=total.evaluations, states=nstates,
            transitions=ntrans, max_depth=maxdepth, depth_bound=depth,
            nodedup_depth=nodedup_depth, merged_duplicates=dup_merged,
            replayed_ops=total.extra.get("replayed_ops", 0),
            distinct_nontrivial=nstates,
            outcome_classes=dict(total.outcomes), n_outcome_classes=len(total.outcomes),
            violations=total.nviol, wall_s=round(time.time() - t0, 2),
            first=total.first, last=total.last, bounds=bounds or {},
            extra={k: v for k, v in total.extra.items() if k != "replayed_ops"},
            exhaustive=not capped,
        )
        part.known = total.known
        part.vclasses = total.vclasses
        part.violations = total.violations
        self._progress(part)
        return part

    # --------------------------------------------------------------- E3/E4
    def choices(self, name, units, run, bound, nworkers=None, bounds=None,
                engine="environment", max_exec_per_unit=None):
        """stateless deviation-bounded DFS.

        ``run(unit, prefix, rec)`` executes the real code for ``unit`` taking the
        choices of ``prefix`` (list of ints) at the first len(prefix) choice
        points and choice 0 afterwards; it returns ``points``: a list with one
        entry per choice point met, each ``(n_alternatives, costs)`` where
        ``costs[alt]`` is the deviation cost of taking alternative ``alt``
        (cost of alternative 0 must be 0), or raises.  All executions whose
        total cost is <= bound are explored.
        """
        def one(case, rec):
            unit, prefix = case
            pts = run(unit, list(prefix), rec)
            rec.ok(case, outcome="replayed", calls=1)
            return pts

        part = Part(name, one, engine)
        self.parts[name] = part
        if self.replay_request is not None:
            return part
        t0 = time.time()

        def work(unit, rec):
            nexec = 0
            stack = [([], 0)]
            while stack:
                prefix, cost0 = stack.pop()
                pts = run(unit, list(prefix), rec)
                nexec += 1
                taken = list(prefix) + [0] * (len(pts) - len(prefix))
                if len(pts) < len(prefix):
                    rec.fail((unit, tuple(prefix)), "replay diverged: fewer choice points than the prefix")
                    continue
                rec.ok((unit, tuple(prefix)), outcome="cost%d" % cost0, calls=1,
                       nontrivial=True)
                rec.count("choice_points", len(pts))
                c = cost0
                for i in range(len(prefix), len(pts)):
                    nalt, costs = pts[i]
                    for alt in range(1, nalt):
                        if c + costs[alt] <= bound:
                            stack.append((taken[:i] + [alt], c + costs[alt]))
                if max_exec_per_unit and nexec >= max_exec_per_unit:
                    rec.count("capped_units")
                    break
            rec.count("units_done")

        tmp = os.path.join(self.tmpdir, "p%d" % len(self.parts))
        os.makedirs(tmp, exist_ok=True)
        units = list(units)
        rec = _run_sharded(name, units, work, nworkers or NWORKERS, tmp)
        shutil.rmtree(tmp, ignore_errors=True)
        part.stats = dict(
            engine=engine, units=len(units), evaluations=rec.evaluations,
            states=rec.evaluations, transitions=rec.calls + rec.extra.get("choice_points", 0),
            executions=rec.evaluations, deviation_bound=bound,
            distinct_nontrivial=rec.nontrivial,
            outcome_classes=dict(rec.outcomes.most_common(40)),
            n_outcome_classes=len(rec.outcomes),
            violations=rec.nviol, wall_s=round(time.time() - t0, 2),
            first=rec.first, last=rec.last, bounds=bounds or {},
            extra=dict(rec.extra), exhaustive=rec.extra.get("capped_units", 0) == 0,
        )
        part.known = rec.known
        part.vclasses = rec.vclasses
        part.violations = rec.violations
        self._progress(part)
        return part

    def _progress(self, part):
        s = part.stats
        sys.stderr.write(
            "[%s] %-28s %-11s states=%d transitions=%d nontrivial=%d outcomes=%d viol=%d %.1fs\n"
            % (self.pid, part.name, s["engine"], s["states"], s["transitions"],
               s["distinct_nontrivial"], s["n_outcome_classes"], s["violations"], s["wall_s"]))
        sys.stderr.flush()


def _run_sharded_collect(part, units, work, nworkers, tmpdir):
    """like _run_sharded, but gathers the per-unit results stored in rec.res"""
    n = len(units)
    nworkers = max(1, min(nworkers, max(1, n // 4)))
    rec = _run_sharded(part, units, work, nworkers, tmpdir)
    return rec


# Rec.merge must also carry the BFS results
_orig_merge = Rec.merge


def _merge(self, o):
    _orig_merge(self, o)
    if hasattr(o, "res"):
        if not hasattr(self, "res_all"):
            self.res_all = []
        self.res_all.extend(o.res)
    if not hasattr(self, "res_all"):
        self.res_all = []


Rec.merge = _merge
