"""E2 world of several live objects of one stateful class (process-wide state explored).

Single-object history parts compare "the same call on a fresh object"; they cannot see state
that leaks BETWEEN objects (a module-level default dict shared by all instances, a module
cache keyed by too little, a C static) because the fresh object lives in the same,
already-used process.  This world makes the process part of the explored state:

* state  = up to ``max_objects`` live objects (each of one of ``kinds``) + the mutable
           module-level data of ``modules``;
* events = ("new", kind) | (op..., k)  - any op of ``ops`` applied to live object k;
* every history is executed from scratch in a forked child of a worker that never runs
  esutil itself, so each history starts from pristine module state and is replayable alone;
* oracle = (a) the optional independent ``check(kind, op, result)``, (b) differential: the
  result must equal the one obtained when the object is the ONLY object and the call the
  ONLY call of a process (``single``), compared with ``equal``.
"""
import numpy as np

from mc.util import fingerprint, in_child, module_state


def default_equal(a, b):
    a = [np.asarray(v) for v in (a if isinstance(a, (list, tuple)) else [a])]
    b = [np.asarray(v) for v in (b if isinstance(b, (list, tuple)) else [b])]
    if len(a) != len(b):
        return False
    for x, y in zip(a, b):
        if x.shape != y.shape or x.dtype.kind != y.dtype.kind:
            return False
        if x.dtype.kind in "fc":
            if not np.array_equal(np.isnan(x), np.isnan(y)):
                return False
            m = ~np.isnan(x)
            if not np.all(np.abs(x[m] - y[m]) <= 1e-12 * np.maximum(1.0, np.abs(y[m]))):
                return False
        elif x.dtype.names:
            if x.dtype.descr != y.dtype.descr or x.tobytes() != y.tobytes():
                return False
        elif not np.array_equal(x, y):
            return False
    return True


def _scribble(r):
    """the caller edits, in place, every writeable numeric array of a result it was handed"""
    for v in (r if isinstance(r, (list, tuple)) else [r]):
        if isinstance(v, np.ndarray) and v.flags.writeable and v.size and v.dtype.kind in "iuf":
            v[...] = v // 2 if v.dtype.kind in "iu" else v * 0.5 + 1.0


def object_world(ctx, name, kinds, new, ops, do, modules, depth, check=None, equal=default_equal,
                 state=None, max_objects=3, nodedup_depth=3, enabled=None, bounds=None, lit=None, must_raise=None,
                 result_edits=False):
    """register and run the part.  ``new(kind)`` builds an object, ``do(obj, kind, op)`` applies
    the plain-literal ``op`` and returns a picklable result, ``modules()`` returns the list of
    modules whose globals belong to the state (called inside the child), ``state(obj)`` what to
    fingerprint of an object (default: its __dict__), ``enabled(kind, op)`` filters the menu,
    ``must_raise(kind, op)`` tells which ops are rejected calls (they must raise; every other op must not:
    an exception that is the same in the history and in the reference run would otherwise pass unnoticed)."""
    if state is None:
        def state(o):
            return getattr(o, "__dict__", None)
    if lit is None:
        def lit(r):
            try:
                return [np.asarray(v).tolist() for v in (r if isinstance(r, (list, tuple)) else [r])]
            except Exception:
                return repr(r)

    def child(hist):
        objs = []
        last = None
        lastres = None
        for ev in hist:
            if ev[0] == "new":
                objs.append((ev[1], new(ev[1])))
                last = ("new",)
            elif ev[0] == "edit-last-result":
                # what a getter or a conversion handed out belongs to the caller: editing it in place must not
                # reach the object (a getter that returns its internal array instead of a copy)
                if lastres is not None:
                    _scribble(lastres)
                last = ("new",)
            else:
                op, k = ev[:-1], ev[-1]
                kind, o = objs[k]
                try:
                    lastres = do(o, kind, op)
                    # the result is snapshotted for the comparison: the caller may scribble over the original later
                    last = ("ok", kind, op, [np.array(v, copy=True) if isinstance(v, np.ndarray) else v
                                             for v in (lastres if isinstance(lastres, (list, tuple)) else [lastres])])
                except Exception as e:
                    lastres = None
                    last = ("exc", kind, op, "%s: %s" % (type(e).__name__, e))
        key = fingerprint([(k, state(o)) for k, o in objs], module_state(*modules()))
        return last, key, [k for k, _ in objs]

    single_cache = {}

    def single(kind, op):
        if (kind, op) not in single_cache:
            single_cache[(kind, op)] = in_child(lambda: child((("new", kind), tuple(op) + (0,))))
        return single_cache[(kind, op)]

    def execute(hist, rec):
        st, out = in_child(lambda: child(hist))
        if st != "ok":
            rec.fail(hist, "history could not be executed: %s" % (out,))
            return None
        last, key, live = out
        if last is not None and last[0] != "new":
            _, kind, op, res = last
            st1, out1 = single(kind, op)
            if st1 != "ok":
                rec.fail(hist, "reference run (one object, one call) could not be executed: %r" % (out1,))
                return None
            ref = out1[0]
            if last[0] != ref[0]:
                rec.fail(hist, "%r on a %s object: %s after the history %r, but %s when it is the only object and "
                               "the only call of the process" % (op, kind, last[0] + " " + str(lit(res))[:200], hist[:-1],
                                                                 ref[0] + " " + str(lit(ref[3]))[:200]))
                return None
            wants_error = bool(must_raise is not None and must_raise(kind, op))
            if last[0] == "exc" and not wants_error:
                rec.fail(hist, "%r on a %s object raised %s (after the history %r)" % (op, kind, res, hist[:-1]))
                return None
            if last[0] == "ok" and wants_error:
                rec.fail(hist, "%r on a %s object must be rejected but returned %s (after the history %r)"
                         % (op, kind, str(lit(res))[:200], hist[:-1]))
                return None
            if last[0] == "ok":
                if check is not None:
                    msg = check(kind, op, res)
                    if msg:
                        rec.fail(hist, "%r on a %s object after the history %r (objects alive: %r): %s"
                                 % (op, kind, hist[:-1], live, msg))
                        return None
                if not equal(res, ref[3]):
                    rec.fail(hist, "%r on a %s object gives %s after the history %r, but %s when it is the only "
                                   "object and the only call of the process"
                             % (op, kind, str(lit(res))[:300], hist[:-1], str(lit(ref[3]))[:300]))
                    return None
        menu = []
        if len(live) < max_objects:
            menu += [("new", k) for k in kinds]
        if result_edits and hist and hist[-1][0] not in ("new", "edit-last-result"):
            menu.append(("edit-last-result",))
        for i, kind in enumerate(live):
            for op in ops:
                if enabled is None or enabled(kind, op):
                    menu.append(tuple(op) + (i,))
        return key, tuple(menu)

    b = dict(kinds=list(kinds), max_objects=max_objects, ops=[repr(o) for o in ops], depth=depth,
             isolation="every history is executed in a forked child with pristine module state; oracle: independent "
                       "reference (where given) + the same call as the only call of a process")
    b.update(bounds or {})
    return ctx.histories(name, [()], execute, depth=depth, nodedup_depth=nodedup_depth, bounds=b)


# --------------------------------------------------------------------------
# sequences of calls of "pure" module-level functions


class CheckFailed(Exception):
    """raised by a `run` callback of call_sequences when its own independent oracle rejects a result"""


def _snap(r):
    out = []
    for v in (r if isinstance(r, (list, tuple)) else [r]):
        a = np.asarray(v)
        out.append((a.dtype.str if a.dtype.names is None else str(a.dtype.descr), a.shape,
                    a.tobytes() if not a.dtype.hasobject else repr(a.tolist())))
    return out


def call_sequences(ctx, name, make_pool, calls, run, modules, depth, mutations=(), mutate=None, equal=None,
                   nodedup_depth=2, bounds=None, enabled_after=None, result_edits=False, must_raise=None):
    """E2 over sequences of calls of module-level functions that are documented as pure.

    A pool of named argument arrays (``make_pool()`` -> dict) lives for the whole history, so the
    SAME array objects are passed to several calls; events are ("c",)+call (``run(call, pool)`` ->
    picklable result) and ("m",)+mutation (``mutate(mutation, pool)`` edits a pooled array in place -
    the caller's own legitimate edit between two calls).  Every history runs in a pristine forked
    child.  Oracles: (a) the result of the last call equals the result of that call made as the ONLY
    call of a process on a pool that received the same in-place edits (module-level caches keyed by
    object identity or by too little, memoised tables); (b) results returned EARLIER in the history
    are unchanged by the later events (results that are views of a module-level scratch buffer);
    (c) no call modifies a pooled argument.
    """
    if equal is None:
        def equal(a, b):
            return _snap(a) == _snap(b)

    def child(hist, only_last_call=False):
        pool = make_pool()
        kept = []
        last = None
        msg = None
        for i, ev in enumerate(hist):
            if ev[0] == "m":
                mutate(ev[1:], pool)
                continue
            if ev[0] == "r":
                # the caller edits, in place, the arrays RETURNED by the most recent call (they are the caller's
                # own objects now); a function that hands out its cached table is corrupted by this
                if kept and not only_last_call:
                    _, r, _ = kept.pop()
                    for v in (r if isinstance(r, (list, tuple)) else [r]):
                        if isinstance(v, np.ndarray) and v.flags.writeable and v.size:
                            if any(isinstance(a, np.ndarray) and np.shares_memory(v, a) for a in pool.values()):
                                continue      # a view of the caller's own argument (legitimate): editing it is the caller's business
                            if v.dtype.names:
                                for nm in v.dtype.names:
                                    if v.dtype[nm].kind in "iuf":
                                        v[nm] = v[nm] * 2 + 1
                                # ... and renames the columns of ITS table in place (as esutil.io does for upper=True);
                                # a dtype object shared with an argument is the caller's own and left alone
                                if not any(isinstance(a, np.ndarray) and a.dtype is v.dtype for a in pool.values()):
                                    try:
                                        v.dtype.names = tuple("E_" + nm.upper() for nm in v.dtype.names)
                                    except Exception:
                                        pass
                            elif v.dtype.kind in "iuf":
                                v[...] = v * 2 + 1
                continue
            if only_last_call and i != len(hist) - 1:
                continue
            before = {k: _snap(v) for k, v in pool.items()}
            try:
                r = run(ev[1:], pool)
                last = ("ok", r)
            except CheckFailed as e:
                msg = "call %r: %s" % (ev[1:], e)
                last = ("exc", "CheckFailed")
                r = None
            except Exception as e:
                last = ("exc", "%s: %s" % (type(e).__name__, str(e)[:200]))
                r = None
            for k, v in pool.items():
                if _snap(v) != before[k]:
                    msg = "call %r modified its argument array %r" % (ev[1:], k)
            if r is not None:
                kept.append((i, r, _snap(r)))
        if msg is None:
            for i, r, s in kept:
                if _snap(r) != s:
                    msg = "the result returned by event %d %r changed during the later events %r" % (i, hist[i][1:], hist[i + 1:])
                    break
        is_call = bool(hist) and hist[-1][0] == "c"
        key = fingerprint({k: _snap(v) for k, v in pool.items()}, module_state(*modules()))
        return (last if is_call else None), msg, key

    def execute(hist, rec):
        st, out = in_child(lambda: child(hist))
        if st != "ok":
            rec.fail(hist, "history could not be executed: %s" % (out,))
            return None
        last, msg, key = out
        if msg:
            rec.fail(hist, msg)
            return None
        if last is not None:
            wants_error = bool(must_raise is not None and must_raise(hist, hist[-1][1:]))
            if last[0] == "exc" and not wants_error:
                rec.fail(hist, "call %r raised %s (after %r)" % (hist[-1][1:], last[1], hist[:-1]))
                return None
            if last[0] == "ok" and wants_error:
                rec.fail(hist, "call %r must be rejected but returned a result (after %r)" % (hist[-1][1:], hist[:-1]))
                return None
        if last is not None and len(hist) > 1:
            st1, out1 = in_child(lambda: child(hist, only_last_call=True))
            if st1 != "ok":
                rec.fail(hist, "reference run could not be executed: %s" % (out1,))
                return None
            ref = out1[0]
            if last[0] != ref[0] or (last[0] == "ok" and not equal(last[1], ref[1])) or (last[0] == "exc" and last[1] != ref[1]):
                def show(x):
                    try:
                        return repr([np.asarray(v).tolist() for v in (x if isinstance(x, (list, tuple)) else [x])])[:300]
                    except Exception:
                        return repr(x)[:300]
                rec.fail(hist, "call %r gives %s %s after the earlier calls of the history %r, but %s %s when it is the "
                               "only call of the process (same in-place edits of the arguments)"
                         % (hist[-1][1:], last[0], show(last[1]), hist[:-1], ref[0], show(ref[1])))
                return None
        menu = [("c",) + tuple(c) for c in calls] + [("m",) + tuple(m) for m in mutations]
        if result_edits and hist and hist[-1][0] == "c":
            menu.append(("r",))
        if enabled_after is not None:
            menu = [e for e in menu if enabled_after(hist, e)]
        return key, tuple(menu)

    b = dict(calls=[repr(c) for c in calls], mutations=[repr(m) for m in mutations], depth=depth,
             result_edits="the caller may edit the arrays returned by the latest call in place" if result_edits else "none",
             isolation="every history in a forked child with pristine module state; reference = the last call as the only "
                       "call of a process")
    b.update(bounds or {})
    return ctx.histories(name, [()], execute, depth=depth, nodedup_depth=nodedup_depth, bounds=b)


def revisit(ctx, name, setups, bounds=None):
    """cache-capacity device: many DISTINCT calls, then every one of them again.

    A bounded cache (the last 4 selections, an 8-row table of rotation terms, the previous matcher) is invisible to
    short histories: it goes wrong when an entry is evicted and its key is met again.  For every set-up, ``calls`` (a
    list of K >= 40 distinct, plain-literal call descriptions) are made in ONE process on ONE object - first all of
    them in order, then all again in order, in reverse order and in an interleaved order - and every repetition must
    give bit-for-bit what the same call gave the first time; the first-pass results of a few calls are also compared
    with the call made as the only call of a pristine process.  K distinct keys in between exceed any cache of fewer
    than K entries.

    setups: {label: (make_object() -> obj or None, calls, run(obj, call) -> list of arrays)}"""
    def child(label, reference_only=None):
        make_object, calls, run = setups[label]
        obj = make_object()

        def run1(c):
            # a call that is rejected must be rejected the same way every time
            try:
                return _snap(run(obj, c))
            except Exception as e:
                return ("raised", type(e).__name__, str(e)[:80])
        if reference_only is not None:
            return [run1(calls[i]) for i in reference_only][-1]
        first = [run1(c) for c in calls]
        K = len(calls)
        orders = [list(range(K)), list(range(K))[::-1], [(7 * i + 3) % K for i in range(K)] if K % 7 else list(range(0, K, 2)) + list(range(1, K, 2))]
        for o in orders:
            for i in o:
                again = run1(calls[i])
                if again != first[i]:
                    return ("revisit", i, K)
        return ("ok", first)

    def one(case, rec):
        label = case
        st, out = in_child(lambda: child(label))
        if st != "ok":
            return rec.fail(case, "%s: could not be executed: %s" % (label, out))
        if out[0] == "revisit":
            return rec.fail(case, "%s: call %r gives another result when it is made again after %d distinct other calls on the same object / in the same process "
                                  "than it gave the first time" % (label, setups[label][1][out[1]], out[2] - 1))
        first = out[1]
        K = len(first)
        for i in (0, K // 2, K - 1):
            st, ref = in_child(lambda i=i: child(label, reference_only=[i]))
            if st != "ok":
                return rec.fail(case, "%s: reference run could not be executed: %s" % (label, ref))
            if ref != first[i]:
                return rec.fail(case, "%s: call %r in a sequence of %d calls differs from the same call as the only call of a process" % (label, setups[label][1][i], K))
        rec.ok(case, outcome="revisit:%s" % label, nontrivial=True, calls=4 * K)

    b = dict(setups={k: len(v[1]) for k, v in setups.items()}, orders=["again in order", "in reverse", "interleaved"])
    b.update(bounds or {})
    return ctx.lattice(name, sorted(setups), one, bounds=b)
