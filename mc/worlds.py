"""E2 world of several live objects of one stateful class (process-wide state explored).

Single-object history parts compare "the same call on a fresh object"; they cannot see state
that leaks BETWEEN objects (a module-level default dict shared by all instances, a module
cache keyed by too little, a C static) because the fresh object lives in the same,
already-used process.  This world makes the process part of the explored state:

* state  = up to ``max_objects`` live objects (each of one of ``kinds``) + the mutable
           module-level data of ``modules``;
* events = ("new", kind) | (op..., k)  - any op of ``ops`` applied to live object k;
* every history is executed from scratch in a forked child of a worker that never runs
  esutil itself, so each history starts from pristine module state and is replayable alone;
* oracle = (a) the optional independent ``check(kind, op, result)``, (b) differential: the
  result must equal the one obtained when the object is the ONLY object and the call the
  ONLY call of a process (``single``), compared with ``equal``.
"""
import numpy as np

from mc.util import fingerprint, in_child, module_state


def default_equal(a, b):
    a = [np.asarray(v) for v in (a if isinstance(a, (list, tuple)) else [a])]
    b = [np.asarray(v) for v in (b if isinstance(b, (list, tuple)) else [b])]
    if len(a) != len(b):
        return False
    for x, y in zip(a, b):
        if x.shape != y.shape or x.dtype.kind != y.dtype.kind:
            return False
        if x.dtype.kind in "fc":
            if not np.array_equal(np.isnan(x), np.isnan(y)):
                return False
            m = ~np.isnan(x)
            if not np.all(np.abs(x[m] - y[m]) <= 1e-12 * np.maximum(1.0, np.abs(y[m]))):
                return False
        elif x.dtype.names:
            if x.dtype.descr != y.dtype.descr or x.tobytes() != y.tobytes():
                return False
        elif not np.array_equal(x, y):
            return False
    return True


def object_world(ctx, name, kinds, new, ops, do, modules, depth, check=None, equal=default_equal,
                 state=None, max_objects=3, nodedup_depth=3, enabled=None, bounds=None, lit=None):
    """register and run the part.  ``new(kind)`` builds an object, ``do(obj, kind, op)`` applies
    the plain-literal ``op`` and returns a picklable result, ``modules()`` returns the list of
    modules whose globals belong to the state (called inside the child), ``state(obj)`` what to
    fingerprint of an object (default: its __dict__), ``enabled(kind, op)`` filters the menu."""
    if state is None:
        def state(o):
            return getattr(o, "__dict__", None)
    if lit is None:
        def lit(r):
            try:
                return [np.asarray(v).tolist() for v in (r if isinstance(r, (list, tuple)) else [r])]
            except Exception:
                return repr(r)

    def child(hist):
        objs = []
        last = None
        for ev in hist:
            if ev[0] == "new":
                objs.append((ev[1], new(ev[1])))
                last = ("new",)
            else:
                op, k = ev[:-1], ev[-1]
                kind, o = objs[k]
                try:
                    last = ("ok", kind, op, do(o, kind, op))
                except Exception as e:
                    last = ("exc", kind, op, "%s: %s" % (type(e).__name__, e))
        key = fingerprint([(k, state(o)) for k, o in objs], module_state(*modules()))
        return last, key, [k for k, _ in objs]

    single_cache = {}

    def single(kind, op):
        if (kind, op) not in single_cache:
            single_cache[(kind, op)] = in_child(lambda: child((("new", kind), tuple(op) + (0,))))
        return single_cache[(kind, op)]

    def execute(hist, rec):
        st, out = in_child(lambda: child(hist))
        if st != "ok":
            rec.fail(hist, "history could not be executed: %s" % (out,))
            return None
        last, key, live = out
        if last is not None and last[0] != "new":
            _, kind, op, res = last
            st1, out1 = single(kind, op)
            if st1 != "ok":
                rec.fail(hist, "reference run (one object, one call) could not be executed: %r" % (out1,))
                return None
            ref = out1[0]
            if last[0] != ref[0]:
                rec.fail(hist, "%r on a %s object: %s after the history %r, but %s when it is the only object and "
                               "the only call of the process" % (op, kind, last[0] + " " + str(lit(res))[:200], hist[:-1],
                                                                 ref[0] + " " + str(lit(ref[3]))[:200]))
                return None
            if last[0] == "ok":
                if check is not None:
                    msg = check(kind, op, res)
                    if msg:
                        rec.fail(hist, "%r on a %s object after the history %r (objects alive: %r): %s"
                                 % (op, kind, hist[:-1], live, msg))
                        return None
                if not equal(res, ref[3]):
                    rec.fail(hist, "%r on a %s object gives %s after the history %r, but %s when it is the only "
                                   "object and the only call of the process"
                             % (op, kind, str(lit(res))[:300], hist[:-1], str(lit(ref[3]))[:300]))
                    return None
        menu = []
        if len(live) < max_objects:
            menu += [("new", k) for k in kinds]
        for i, kind in enumerate(live):
            for op in ops:
                if enabled is None or enabled(kind, op):
                    menu.append(tuple(op) + (i,))
        return key, tuple(menu)

    b = dict(kinds=list(kinds), max_objects=max_objects, ops=[repr(o) for o in ops], depth=depth,
             isolation="every history is executed in a forked child with pristine module state; oracle: independent "
                       "reference (where given) + the same call as the only call of a process")
    b.update(bounds or {})
    return ctx.histories(name, [()], execute, depth=depth, nodedup_depth=nodedup_depth, bounds=b)
