"""known findings: committed list, never written at run time.

/verif/known_findings.json holds
  * ``fixed`` entries  ("fixed: property=<id> <commit> <what failed>") – they
    suppress nothing, they only document;
  * ``known`` entries – genuine defects recorded instead of repaired.  Each
    names a predicate function (in the property's check module) **over the
    input case**, not over the failure, so a different violation of the same
    property is still reported.
"""
import json
import os

VERIF = os.path.dirname(os.path.dirname(os.path.abspath(__file__)))


def load():
    p = os.path.join(VERIF, "known_findings.json")
    if not os.path.exists(p):
        return []
    with open(p) as f:
        return json.load(f).get("entries", [])


def predicates(pid, mod):
    out = []
    for e in load():
        if e.get("kind") == "known" and e.get("property") == pid:
            fn = getattr(mod, e["predicate"])
            out.append((e["id"], e["what"], fn))
    return out
