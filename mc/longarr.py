"""Long arrays for element-wise functions (generic device, differential oracle, no hand-written expected values).

An element-wise function must give, on a long array made by tiling a short base block, exactly the tiled result
of the base block.  The base block has a prime period (199) so that every base element sits on every residue of any
block size; the lengths are a decimal or binary mark, the mark + 1 and the mark + period + 1 (every base element
then also occurs BEYOND the mark).  An implementation that works through long inputs in blocks (and gets the last
block, the block count or block-relative indices wrong) differs from the tiled short result for particular lengths
only.  Floats are compared with relative tolerance 1e-12 (vector loop bodies and scalar tails of the numpy
transcendental functions may differ in the last place), everything else exactly; arguments must stay unchanged.
"""
import numpy as np

PERIOD = 199

# Lengths that are multiples of as many plausible block sizes as possible: 6*10^6 is a multiple of 10^k, 2*10^k,
# 3*10^k, 5*10^k, 6*10^k, 1.5*10^k, 2.5*10^k, 1.2*10^k, 4*10^5, 7.5*10^5 ...; 2^21 of every power of two below it.
# The thorough tier adds 12*10^6 (4*10^6, 8*10^5 ...), 10^7 (5*10^6, 2.5*10^6 ...) and 2^23.
MARKS_QUICK = (6000000, 2097152)
MARKS_THOROUGH = (6000000, 2097152, 12000000, 10000000, 8388608)
# for code that is slow per element (pure-Python loops, text files)
MARKS_QUICK_SMALL = (600000, 65536)
MARKS_THOROUGH_SMALL = (600000, 65536, 6000000, 1048576, 1000000)


def marks(ctx, small=False):
    if small:
        return ctx.pick(MARKS_QUICK_SMALL, MARKS_THOROUGH_SMALL)
    return ctx.pick(MARKS_QUICK, MARKS_THOROUGH)


def lengths_for(marks):
    out = []
    for m in marks:
        out += [m, m + 1, m + PERIOD + 1]
    return out


def _same(a, b):
    a, b = np.asarray(a), np.asarray(b)
    if a.shape != b.shape:
        return "shape %r, expected %r" % (a.shape, b.shape)
    if a.dtype.kind in "fc" or b.dtype.kind in "fc":
        na, nb = np.isnan(a), np.isnan(b)
        bad = (na != nb) | (~na & ~(np.abs(a - b) <= 1e-12 * np.maximum(np.abs(b), 1e-300)) & (a != b))
    else:
        bad = a != b
    if bad.any():
        i = int(np.nonzero(bad.reshape(bad.shape[0], -1).any(axis=1))[0][0])
        return "row %d is %r, the same element in a short call gives %r (%d rows differ)" % (
            i, a[i].tolist(), b[i].tolist(), int(bad.reshape(bad.shape[0], -1).any(axis=1).sum()))
    return None


def tiled_elementwise(ctx, name, specs, marks, small=None, small_marks=None, harvest=None):
    """specs: {label: (make_base, call)}; make_base() -> tuple of 1-d arrays of length PERIOD (the varying arguments);
    call(*arrays) -> array or tuple of arrays with one row per input element.  Labels for which ``small(label)`` is
    true run at ``small_marks`` instead of ``marks`` (slow code, or more of the same code path)."""
    def one(case, rec):
        label, n = case
        make_base, call = specs[label]
        base = make_base()
        for b in base:
            if len(b) != PERIOD:
                return rec.fail(case, "harness: base block of %d elements" % len(b))
        try:
            short = call(*[b.copy() for b in base])
        except Exception as e:
            return rec.fail(case, "%s on the base block raised %s: %s" % (label, type(e).__name__, e))
        idx = np.arange(n) % PERIOD
        args = [np.ascontiguousarray(b[idx]) for b in base]
        keep = [a.copy() for a in args]
        try:
            got = call(*args)
        except Exception as e:
            return rec.fail(case, "%s on %d elements raised %s: %s" % (label, n, type(e).__name__, str(e)[:160]))
        for a, k in zip(args, keep):
            if a.tobytes() != k.tobytes():
                return rec.fail(case, "%s on %d elements modified an argument array" % (label, n))
        short = short if isinstance(short, (tuple, list)) else (short,)
        got = got if isinstance(got, (tuple, list)) else (got,)
        if len(short) != len(got):
            return rec.fail(case, "%s on %d elements returned %d arrays, %d for a short call" % (label, n, len(got), len(short)))
        for j, (g, s) in enumerate(zip(got, short)):
            s = np.asarray(s)
            m = _same(g, s[idx])
            if m:
                return rec.fail(case, "%s on %d elements, output %d: %s" % (label, n, j, m))
        rec.ok(case, outcome="tiled:%s" % label, nontrivial=True, calls=2)

    units = [(label, n) for label in specs for n in lengths_for(small_marks if (small and small(label)) else marks)]
    hblocks = []
    if harvest is not None:
        # ... plus lengths derived from the integer constants of the code under test (harvest = (modules, c-directories))
        hl, hblocks = harvest_lengths(harvest[0], harvest[1], cap=6)
        units += [(label, n + d) for label in specs if not (small and small(label)) for n in hl if 1000 <= n <= 8000000 for d in (0, PERIOD + 1)
                  if (label, n + d) not in units]
        ctx.notes.append("%s: integer constants harvested from the code under test: %r" % (name, hblocks))
    units.sort(key=lambda u: -u[1])
    return ctx.lattice(name, units, one, bounds=dict(functions=sorted(specs), marks=list(marks), period=PERIOD,
                                                       small_marks=list(small_marks or ()), harvested_constants=hblocks,
                                                       functions_at_small_marks=sorted(l for l in specs if small and small(l)),
                                                       lengths="mark, mark+1, mark+period+1"))


def harvested_sizes(modules=(), csources=(), lo=1000, hi=20000000):
    """integer constants of the code under test that could be block / chunk / buffer sizes.

    A change that processes long inputs in blocks brings its block size along as a literal (or a constant-folded
    expression such as ``(64 << 20) // 96``).  The sizes explored for long inputs are therefore not only the universal
    marks above but also every integer in [lo, hi] found (a) among the constants of the code objects of the given
    Python modules (functions, methods, nested functions, comprehensions; the compiler has folded constant
    expressions), (b) among their module-level integer globals and (c) as decimal / hex literals in the given C/C++
    source files.  Returns a sorted list."""
    import re
    import types
    found = set()

    def walk(code):
        for c in code.co_consts:
            if isinstance(c, int) and not isinstance(c, bool) and lo <= c <= hi:
                found.add(int(c))
            elif isinstance(c, float) and c.is_integer() and lo <= c <= hi:
                found.add(int(c))
            elif isinstance(c, types.CodeType):
                walk(c)
            elif isinstance(c, tuple):
                for t in c:
                    if isinstance(t, int) and not isinstance(t, bool) and lo <= t <= hi:
                        found.add(int(t))

    for m in modules:
        for k, v in vars(m).items():
            if isinstance(v, (int, np.integer)) and not isinstance(v, bool) and lo <= int(v) <= hi:
                found.add(int(v))
            fn = getattr(v, "__func__", v)
            if isinstance(fn, types.FunctionType) and fn.__module__ == m.__name__:
                walk(fn.__code__)
            elif isinstance(v, type) and getattr(v, "__module__", None) == m.__name__:
                for a in vars(v).values():
                    a = getattr(a, "__func__", a)
                    if isinstance(a, property):
                        a = a.fget
                    if isinstance(a, types.FunctionType):
                        walk(a.__code__)
    for path in csources:
        try:
            text = open(path, errors="replace").read()
        except OSError:
            continue
        text = re.sub(r"/\*.*?\*/", " ", text, flags=re.S)
        text = re.sub(r"//[^\n]*", " ", text)
        for tok in re.findall(r"(?<![\w.])(0[xX][0-9a-fA-F]+|\d{4,9})(?:[uUlL]*)(?![\w.])", text):
            try:
                v = int(tok, 16) if tok[:2].lower() == "0x" else int(tok)
            except ValueError:
                continue
            if lo <= v <= hi:
                found.add(v)
    return sorted(found)


def lengths_from_blocks(blocks, hi=20000000, cap=12):
    """for each harvested block size B (at most ``cap`` of them, the largest first - block sizes are large): B-1, B, B+1,
    2B, 2B+1 and 3B, as far as they stay below ``hi``"""
    out = []
    for b in sorted(blocks, reverse=True)[:cap]:
        for n in (b - 1, b, b + 1, 2 * b, 2 * b + 1, 3 * b):
            if 0 < n <= hi and n not in out:
                out.append(n)
    return out


def harvest_lengths(modules=(), cdirs=(), hi=20000000, cap=12):
    """lengths derived from the integer constants of the given Python modules and of the C/C++ sources (wrappers
    generated by SWIG excluded) in the given sub-directories of the tree under test"""
    import glob
    import os
    from mc import build
    root = build.repo_root()
    cs = []
    for d in cdirs:
        for pat in ("*.c", "*.cc", "*.cpp", "*.h", "*.hpp"):
            cs += [f for f in glob.glob(os.path.join(root, "esutil", d, pat)) if "_wrap" not in os.path.basename(f)]
    blocks = harvested_sizes(modules, cs, hi=hi)
    lengths = lengths_from_blocks(blocks, hi=hi, cap=cap)
    # larger constants (up to 2^31) read as BYTE thresholds of float64 / float32 data ("switch strategy from 128 MiB on")
    big = harvested_sizes(modules, cs, lo=hi + 1, hi=2 ** 31)
    for b in big:
        for item in (8, 4):
            n = b // item
            if 1000 <= n <= hi + hi // 10:
                for m in (n - 1, n, n + 1):
                    if m not in lengths:
                        lengths.append(m)
    return lengths, blocks + big
